#!/usr/bin/env python3
"""Rewrites the generated tables of DESIGN.md (between the BEGIN/END GENERATED markers) from
known_findings.json, selftest/last_*.json and seeded/*/meta.json."""
import json, os, re
V = os.path.dirname(os.path.abspath(__file__))
kf = json.load(open(os.path.join(V, "known_findings.json")))["findings"]
out = []
out.append("### 5.1 Genuine defects repaired by `fix:` commits in /repo (a fixed entry suppresses nothing)\n")
out.append("| property | commit | mechanism key | what failed |\n|---|---|---|---|")
for f in kf:
    if f["status"] == "fixed":
        out.append(f"| {f['property']} | `{f['commit']}` | `{f['mech']}` | {f['what'].split(f['commit'], 1)[-1].strip()} |")
out.append("\n### 5.2 Genuine defects recorded as known findings (check prints KNOWN-FINDING and exits 0 when only these fire)\n")
out.append("| property | mechanism key | what fails |\n|---|---|---|")
for f in kf:
    if f["status"] == "known":
        out.append(f"| {f['property']} | `{f['mech']}` | {f['what']} |")
p = os.path.join(V, "selftest", "last_reversions.json")
if os.path.exists(p):
    out.append("\n### 9.1 Reverting each `fix:` commit on a scratch copy (selftest/run.py reversions)\n")
    out.append("| reverted commit | check | caught | first witness line |\n|---|---|---|---|")
    for r in json.load(open(p)):
        w = (r["first"][0] if r["first"] else "").split("#", 1)[-1].strip()[:140]
        yes = 'yes' if r['caught'] else '**no**'
        if r.get("seeds"):
            yes += f" ({len(r.get('caught_on_seeds', []))}/{len(r['seeds'])} seeds)"
        out.append(f"| `{r['commit']}` | {r['check']} | {yes} | {w} |")
p = os.path.join(V, "selftest", "last_mutants.json")
if os.path.exists(p):
    out.append("\nHand-written patches that re-express a reversion which no longer applies textually (selftest/mutants/, "
               "`selftest/run.py mutants`):\n")
    out.append("| patch | check | caught | first witness line |\n|---|---|---|---|")
    for r in json.load(open(p)):
        w = (r["first"][0] if r["first"] else "").split("#", 1)[-1].strip()[:140]
        out.append(f"| `{r['mutant']}` | {r['check']} | {'yes' if r['caught'] else '**no**'} | {w} |")
p = os.path.join(V, "selftest", "last_seeded.json")
if os.path.exists(p):
    res = {r["seeded"]: r for r in json.load(open(p))}
    out.append("\n### 9.2 Independently seeded changes (/verif/seeded/<id>/, written by fresh sub-agents from the property text only)\n")
    out.append("| id | what was changed | needs | caught by (quick tier, seeds tried) |\n|---|---|---|---|")
    for sid in sorted(os.listdir(os.path.join(V, "seeded"))):
        m = json.load(open(os.path.join(V, "seeded", sid, "meta.json")))
        r = res.get(sid, {})
        by = ', '.join(r.get('caught_by', [])) or m.get('caught_note', '—')
        if r.get("seeds"):
            by += f" ({len(r.get('caught_on_seeds', []))}/{len(r['seeds'])} seeds)"
        out.append(f"| {sid} | {m.get('summary', '')[:230]} | {m.get('needs', '')[:200]} | {by} |")
txt = open(os.path.join(V, "DESIGN.md")).read()
gen = "<!-- BEGIN GENERATED -->\n" + "\n".join(out) + "\n<!-- END GENERATED -->"
if "<!-- BEGIN GENERATED -->" in txt:
    txt = re.sub(r"<!-- BEGIN GENERATED -->.*<!-- END GENERATED -->", lambda m: gen, txt, flags=re.S)
else:
    txt += "\n\n" + gen + "\n"
open(os.path.join(V, "DESIGN.md"), "w").write(txt)
print("tables regenerated:", len(out), "lines")
