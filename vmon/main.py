"""Check driver. Exit 0 held / 1 VIOLATION / 2 INCONCLUSIVE (see DESIGN.md 3.5)."""
from __future__ import annotations

import argparse
import importlib
import json
import os
import subprocess
import sys
import tempfile
import time
from collections import Counter

from vmon import bootstrap, core

VERIF = bootstrap.VERIF


def load_known() -> list[dict]:
    p = os.path.join(VERIF, "known_findings.json")
    if not os.path.exists(p):
        return []
    return json.load(open(p)).get("findings", [])


def main() -> int:
    ap = argparse.ArgumentParser()
    ap.add_argument("pid", nargs="?")
    ap.add_argument("tier", nargs="?", default=os.environ.get("VERIF_TIER", "quick"))
    ap.add_argument("--setup", action="store_true")
    ap.add_argument("--seed", type=int, default=None)
    ap.add_argument("--replay")
    ap.add_argument("--repo")
    ap.add_argument("--shards", type=int)
    ap.add_argument("--cases", type=int)
    ap.add_argument("--no-evidence", action="store_true")
    a = ap.parse_args()
    if a.repo:
        os.environ["VERIF_REPO"] = os.path.abspath(a.repo)
    try:
        bootstrap.ensure_deps()
        bootstrap.activate()
    except bootstrap.Inconclusive as e:
        print(f"INCONCLUSIVE property={a.pid} {e}")
        return 2
    except Exception as e:  # the tree does not even import: no verdict about the property
        print(f"INCONCLUSIVE property={a.pid} the working tree cannot be imported: {type(e).__name__}: {e}")
        return 2
    if a.setup:
        import pulser
        print("setup ok: pulser", pulser.__version__, "from", pulser.__file__)
        return 0
    pid = a.pid.upper()
    seed = a.seed if a.seed is not None else int(os.environ.get("VERIF_SEED", "0"))
    tier = a.tier
    only = None
    if a.replay:
        rp = json.load(open(a.replay))
        seed, tier, only = rp["seed"], rp["tier"], rp["case_idx"]
    mod = importlib.import_module(f"vmon.props.{pid.lower()}")
    cfg = mod.TIERS[tier]
    nshards = 1 if only is not None else (a.shards or cfg.get("shards", 8))
    ncases = a.cases or cfg["cases"]
    t0 = time.monotonic()
    tmp = tempfile.mkdtemp(prefix=f"vmon-{pid}-", dir=os.environ.get("TMPDIR", "/tmp"))
    procs = []
    for s in range(nshards):
        out = os.path.join(tmp, f"shard{s}.json")
        cmd = [sys.executable, "-m", "vmon.worker", pid, tier, str(seed), str(s), str(nshards), out]
        if only is not None:
            cmd += ["--only", str(only)]
        if a.cases:
            cmd += ["--cases", str(a.cases)]
        log = open(os.path.join(tmp, f"shard{s}.log"), "w")
        procs.append((s, out, subprocess.Popen(cmd, cwd=VERIF, stdout=log, stderr=subprocess.STDOUT), log))
    deadline = t0 + cfg.get("shard_timeout", 1800)
    merged = {"counters": Counter(), "nontrivial": set(), "samples": [], "violations": [],
              "inconclusive": [], "harness_errors": [], "evaluations": 0}
    for s, out, p, log in procs:
        try:
            p.wait(timeout=max(1, deadline - time.monotonic()))
        except subprocess.TimeoutExpired:
            p.kill()
            merged["inconclusive"].append(f"shard {s}: wall-clock watchdog fired")
            continue
        finally:
            log.close()
        if not os.path.exists(out):
            tail = open(os.path.join(tmp, f"shard{s}.log")).read()[-800:]
            merged["inconclusive"].append(f"shard {s}: exited {p.returncode} without result: {tail}")
            continue
        d = json.load(open(out))
        merged["counters"].update(d["counters"])
        merged["nontrivial"].update(d["nontrivial"])
        merged["samples"] += d["samples"]
        merged["violations"] += d["violations"]
        merged["inconclusive"] += d["inconclusive"]
        merged["harness_errors"] += d["harness_errors"]
        merged["evaluations"] += d["evaluations"]
        for f_, ls in d.get("reach", {}).items():
            merged.setdefault("reach", {}).setdefault(f_, set()).update(ls)
    # ---- soak workload: the repository's own tests under the monitors (thorough tier, properties that opt in) ----
    if tier == "thorough" and only is None and getattr(mod, "SOAK", False):
        root = bootstrap.repo_root()
        if os.path.isdir(os.path.join(root, "tests")):
            outf = os.path.join(tmp, "soak.jsonl")
            env = dict(os.environ, VMON_SOAK_OUT=outf,
                       PYTHONPATH=os.pathsep.join([os.path.join(root, "pulser-core"), os.path.join(root, "pulser-simulation"),
                                                   VERIF, bootstrap.DEPS]))
            try:
                pr = subprocess.run([sys.executable, "-m", "pytest", "tests", "-n", "8", "-q", "-p", "no:cacheprovider",
                                     "-p", "vmon.pytest_plugin"], cwd=root, env=env, capture_output=True, text=True,
                                    timeout=1500)
                merged["counters"]["soak_pytest_exit"] = pr.returncode
            except subprocess.TimeoutExpired:
                merged["inconclusive"].append("soak: pytest watchdog fired")
            if os.path.exists(outf):
                for ln in open(outf):
                    d = json.loads(ln)
                    merged["counters"]["soak_api_events"] += d["events"]
                    merged["violations"] += [v for v in d["violations"] if v["property"] == pid]
                    for k2, v2 in d["counters"].get(pid, {}).items():
                        if k2.startswith("violation:"):
                            merged["counters"][k2] += v2
        else:
            merged["counters"]["soak_skipped_no_tests_dir"] = 1
    subprocess.run(["rm", "-rf", tmp])
    wall = time.monotonic() - t0

    # ---- classify violations against the committed known-findings list ----
    known = [k for k in load_known() if k["property"] == pid and k.get("status") == "known"]
    known_hit: dict[str, dict] = {}
    unknown = []
    for v in merged["violations"]:
        k = next((k for k in known if k["mech"] == v["mech"]), None)
        if k is not None:
            known_hit.setdefault(k["mech"], k)
        else:
            unknown.append(v)
    # violations counted but not stored (cap) still carry their clause in counters;
    # a clause with violations whose stored witnesses are all known stays known.
    rc = 0
    lines = []
    os.makedirs(os.path.join(VERIF, "replays"), exist_ok=True)
    seen = set()
    for v in unknown:
        key = (v["clause"], v["mech"])
        if key in seen:
            continue
        seen.add(key)
        rp = os.path.join(VERIF, "replays", f"{pid}-{core.digest([key, v['case_idx'], seed, tier])}.json")
        json.dump({"property": pid, "seed": seed, "tier": tier, **v}, open(rp, "w"), indent=1, default=repr)
        lines.append(f"VIOLATION property={pid} replay={rp}  # {v['clause']}: {v['msg'][:300]}")
        rc = 1
    for mech, k in known_hit.items():
        lines.append(f"KNOWN-FINDING: property={pid} {k['what']} [{mech}]")
    floors = getattr(mod, "FLOORS", {}).get(tier, {})
    unmet = {k: (merged["counters"].get(k, 0), f) for k, f in floors.items()
             if merged["counters"].get(k, 0) < f}
    if only is None and a.cases is None:
        if unmet:
            merged["inconclusive"].append(f"monitor evaluation floors not reached: {unmet}")
    anchor_reach, reach_missing = [], []
    if "reach" in merged:
        from vmon import reach
        anchor_reach, reach_missing = reach.summarise(pid, {k: sorted(v) for k, v in merged["reach"].items()})
        optional = set(getattr(mod, "REACH_OPTIONAL", ()))
        reach_missing = [m for m in reach_missing if m not in optional]
        if reach_missing and only is None and a.cases is None:
            merged["inconclusive"].append(f"anchored mechanisms never entered by the workload: {reach_missing}")
    if merged["harness_errors"]:
        merged["inconclusive"].append(
            f"{len(merged['harness_errors'])} harness errors, first: {merged['harness_errors'][0][-600:]}")
    if rc == 0 and merged["inconclusive"]:
        rc = 2
        lines.append(f"INCONCLUSIVE property={pid} " + " | ".join(merged["inconclusive"])[:1500])

    # ---- evidence -----------------------------------------------------------
    cov = {
        "evaluations": merged["evaluations"],
        "distinct_nontrivial": len(merged["nontrivial"]),
        "rule": mod.RULE,
        "samples": merged["samples"][:3],
        "monitor_counters": {k: v for k, v in sorted(merged["counters"].items())
                             if not k.startswith(("gray:", "violation:"))},
        "gray_zone": {k[5:]: v for k, v in merged["counters"].items() if k.startswith("gray:")},
        "violations_by_clause": {k[10:]: v for k, v in merged["counters"].items()
                                 if k.startswith("violation:")},
        "known_findings_hit": sorted(known_hit),
        "anchor_reach": anchor_reach,
        "inconclusive": merged["inconclusive"][:10],
        "cases_requested": ncases, "shards": nshards,
        "verdict": {0: "held on what was observed", 1: "violated", 2: "inconclusive"}[rc],
    }
    ev = {
        "property_id": pid, "tier": tier, "seed": seed, "level": mod.LEVEL,
        "coverage": cov, "assumptions": getattr(mod, "ASSUMPTIONS", []),
        "wall_s": round(wall, 2), "violations": len(unknown),
    }
    if not a.no_evidence and only is None:
        os.makedirs(os.path.join(VERIF, "evidence"), exist_ok=True)
        with open(os.path.join(VERIF, "evidence", f"{pid}.json"), "w") as f:
            json.dump(ev, f, indent=1, default=repr)
    print(f"[{pid} {tier} seed={seed}] evaluations={cov['evaluations']} "
          f"distinct_nontrivial={cov['distinct_nontrivial']} wall={wall:.1f}s verdict={cov['verdict']}")
    for k, v in cov["monitor_counters"].items():
        print(f"   {k}={v}")
    if cov["gray_zone"]:
        print("   gray:", cov["gray_zone"])
    for ar in anchor_reach:
        print(f"   reach: {ar['mechanism'][:70]}: {ar['functions_entered']}/{ar['functions_resolved']} functions, "
              f"{ar['lines_hit']}/{ar['lines_total']} lines")
    for ln in lines:
        print(ln)
    return rc


if __name__ == "__main__":
    sys.exit(main())
