"""C15 monitor: EOM blocks (square pulses, off-detuning from the allowed set, buffers)."""
from __future__ import annotations

import math
import numpy as np

from vmon.prog import Event, Monitor, Runner
from vmon.ref import eom as refeom
from vmon.ref import sched
from vmon.seqmon import chan_end, eom_now, pending_fall_bounds
from vmon.snap import pulse_info


def eom_cfg(obj) -> dict:
    e = obj.eom_config
    return {"limiting_beam": e.limiting_beam.name, "max_limiting_amp": float(e.max_limiting_amp),
            "intermediate_detuning": float(e.intermediate_detuning),
            "controlled_beams": [b.name for b in e.controlled_beams], "multiple_beam_control": bool(e.multiple_beam_control),
            "red_shift_coeff": float(e.red_shift_coeff), "blue_shift_coeff": float(e.blue_shift_coeff)}


def buffer_time(obj) -> int:
    e = obj.eom_config
    return int(e.custom_buffer_time) if e.custom_buffer_time else 2 * int(obj.rise_time)


class EomMonitor(Monitor):
    def __init__(self, ctx):
        self.ctx = ctx
        self.tainted = False
        self.rich = False

    def after(self, r: Runner, ev: Event) -> None:
        ctx = self.ctx
        if ev.stage != "call" or self.tainted:
            return
        from vmon.snap import state_key

        if ev.exc is not None:
            if state_key(ev.pre) != state_key(ev.post):
                self.tainted = True
                ctx.count("discarded_after_C09")
            return
        if ev.ro or not ev.post["flags"]["building"]:
            return
        ch = ev.op.get("ch")
        cpre, cpost = ev.pre["chans"].get(ch), ev.post["chans"].get(ch)
        if cpre is None or cpost is None or cpost["obj"].eom_config is None:
            return
        obj = cpost["obj"]
        clk, mn = int(obj.clock_period), int(obj.min_duration)
        new = cpost["slots"][len(cpre["slots"]):]
        name = ev.name
        if name in ("enable_eom_mode", "modify_eom_setpoint"):
            blk = cpost["eom"][-1]
            amp_on, det_on = float(ev.op["amp_on"]), float(ev.op["detuning_on"])
            want_off = float(ev.op.get("opt_off", 0.0))
            ctx.count("setpoints_checked")
            if abs(blk[2] - amp_on) > 1e-12 or abs(blk[3] - det_on) > 1e-12:
                ctx.violation("setpoint", f"{name}: block stores amp {blk[2]!r}, det {blk[3]!r}; requested {amp_on!r}, {det_on!r}",
                              "setpoint-stored")
            opts = refeom.detuning_off_options(amp_on, det_on, eom_cfg(obj))
            vals = [o[0] for o in opts]
            tolv = 1e-9 * (1 + max(abs(v) for v in vals))
            hit = [o for o in opts if abs(o[0] - blk[4]) <= tolv]
            if not hit:
                ctx.violation("off-detuning-set", f"{name}(amp_on={amp_on}, detuning_on={det_on}): detuning_off {blk[4]!r} is not in "
                              f"the set allowed by the EOM configuration {sorted(vals)}", "off-detuning-not-allowed")
            else:
                dists = sorted(abs(v - want_off) for v in vals)
                best = dists[0]
                if abs(blk[4] - want_off) > best + tolv:
                    ctx.violation("off-detuning-closest", f"{name}: chose detuning_off {blk[4]!r} for optimum {want_off!r}, but "
                                  f"{min(vals, key=lambda v: abs(v - want_off))!r} is closer (options {sorted(vals)})",
                                  "off-detuning-not-closest")
                elif len(dists) > 1 and dists[1] - dists[0] <= tolv:
                    ctx.gray("off-detuning-tie")
            # ---- buffer ---------------------------------------------------------------------------
            was_empty = chan_end(cpre) == 0
            B = sched.roundup(buffer_time(obj), clk, mn)
            if was_empty:  # documented: no buffer on an empty channel
                if new:
                    ctx.violation("buffer", f"enable_eom_mode on an empty channel inserted {[(s['kind'], s['ti'], s['tf']) for s in new]}",
                                  "buffer-on-empty-channel")
                if ev.op.get("cpd") and chan_end(cpost) == 0:
                    # no time has passed on this channel (it is still empty, the block it is in started at t = 0): there is
                    # no drift to correct, the references of its atoms stay where they were
                    ctx.count("drift_corrections_on_a_still_empty_channel")
                    pa, pb = ev.pre["bref"].get(obj.basis, {}), ev.post["bref"].get(obj.basis, {})
                    moved = {q: (pa[q][1][-1], pb[q][1][-1]) for q in pb if q in pa and abs((pa[q][1][-1] - pb[q][1][-1] + math.pi) % (2 * math.pi) - math.pi) > 1e-12}
                    if moved:
                        ctx.violation("drift-correction", f"{name}(correct_phase_drift=True) on a channel that is still empty moved the "
                                      f"phase reference (before, after): {dict(list(moved.items())[:2])}; off-detuning of the block left: "
                                      f"{cpre['eom'][-1][4] if cpre['eom'] else None!r}", f"drift-correction:empty-channel:{name}")
            else:
                ctx.count("buffers_checked")
                buf = new[-1] if new else None
                if buf is None or buf["kind"] not in ("delay", "ddelay") or buf["tf"] - buf["ti"] != B:
                    ctx.violation("buffer", f"{name}: expected a buffer of {B} ns (buffer time {buffer_time(obj)}, clock {clk}, "
                                  f"min {mn}); got {[(s['kind'], s['ti'], s['tf']) for s in new]}", f"buffer-length:{name}")
                else:
                    if name == "enable_eom_mode":
                        lo, _ = pending_fall_bounds(cpre)
                        if buf["ti"] < lo:
                            ctx.violation("buffer", f"enable_eom_mode: buffer starts at {buf['ti']} before the previous pulse is "
                                          f"down at {lo}", "buffer-before-fall")
                    self._check_idle(buf, blk[4], f"{name} buffer")
                    if blk[1] is None and blk[0] != buf["tf"]:
                        ctx.violation("buffer", f"{name}: EOM block starts at {blk[0]}, buffer ends at {buf['tf']}", "block-start")
        elif name == "add_eom_pulse" and eom_now(cpre):
            blk = cpre["eom"][-1]
            p = next((s for s in reversed(new) if s["kind"] in ("pulse", "ddelay")), None)
            ctx.count("eom_pulses_checked")
            if p is None:
                return
            _, a, d, _, _ = pulse_info(p["pulse"])
            if not (np.all(a == blk[2]) and np.all(d == blk[3])):
                ctx.violation("square-pulse", f"EOM pulse is not square at the setpoint: amp {np.unique(a)[:3]} (setpoint {blk[2]}), "
                              f"det {np.unique(d)[:3]} (setpoint {blk[3]})", "eom-pulse-not-setpoint")
            for s in new:
                if s is not p:
                    self._check_idle(s, blk[4], "delay before EOM pulse")
            if len(cpost["eom"]) and sum(1 for s in cpost["slots"] if s["kind"] == "pulse" and s["ti"] >= blk[0]) >= 2 and blk[4] != 0:
                self.rich = True
        elif name == "delay" and eom_now(cpre):
            blk = cpre["eom"][-1]
            ctx.count("eom_idle_checked")
            for s in new:
                self._check_idle(s, blk[4], "delay in EOM mode")
        elif name == "disable_eom_mode" and eom_now(cpre):
            blk = cpost["eom"][-1]
            ctx.count("disables_checked")
            if blk[1] != chan_end(cpre):
                ctx.violation("block-end", f"disable_eom_mode: block ends at {blk[1]}, channel ended at {chan_end(cpre)}", "block-end")
            if obj.eom_config.custom_buffer_time:
                B = sched.roundup(buffer_time(obj), clk, mn)
                if len(new) != 1 or new[0]["kind"] != "delay" or new[0]["tf"] - new[0]["ti"] != B:
                    ctx.violation("buffer", f"disable_eom_mode: expected a plain delay of {B} ns, got "
                                  f"{[(s['kind'], s['ti'], s['tf']) for s in new]}", "buffer-length:disable")
            else:
                # the last pulse was scheduled in EOM mode but is inspected after the mode was left:
                # either fall time is admissible (gray interval)
                lo1, hi1 = pending_fall_bounds(cpre)
                lo2, hi2 = pending_fall_bounds(dict(cpre, eom=[b[:1] + (chan_end(cpre),) + b[2:] for b in cpre["eom"]]))
                lo, hi = min(lo1, lo2), max(hi1, hi2)
                # an idle period at a non-zero off-detuning is itself something that has to ramp down before ordinary
                # operation resumes: its (smaller) accounted fall time is a lower bound too
                last = next((s_ for s_ in reversed(cpre["slots"]) if s_["kind"] in ("pulse", "ddelay")), None)
                if last is not None and last["kind"] == "ddelay" and last["tf"] == chan_end(cpre):
                    from vmon.seqmon import fall as _fall
                    f_dd = min(_fall(last, obj, True), _fall(last, obj, False))
                    if f_dd > 0:
                        ctx.count("disables_after_idle_at_off_detuning")
                        lo = max(lo, last["tf"] + f_dd)
                        hi = max(hi, lo)
                end = chan_end(cpost)
                e_lo = chan_end(cpre) + sched.roundup(lo - chan_end(cpre), clk, mn)
                e_hi = chan_end(cpre) + sched.roundup(hi - chan_end(cpre), clk, mn)
                if not (e_lo <= end <= e_hi):
                    ctx.violation("buffer", f"disable_eom_mode: channel ends at {end}, fall-time wait requires {e_lo}..{e_hi}",
                                  "disable-fall-wait")

    def _check_idle(self, s: dict, det_off: float, what: str) -> None:
        ctx = self.ctx
        if det_off == 0:
            if s["kind"] != "delay":
                ctx.violation("idle-detuning", f"{what}: with zero off-detuning expected a plain delay, got {s['kind']}", "idle-kind")
            return
        if s["kind"] != "ddelay":
            ctx.violation("idle-detuning", f"{what}: idle slot {s['kind']} [{s['ti']},{s['tf']}) does not carry the off-detuning "
                          f"{det_off}", "idle-without-off-detuning")
            return
        _, a, d, _, _ = pulse_info(s["pulse"])
        if np.any(a != 0) or not np.all(d == det_off):
            ctx.violation("idle-detuning", f"{what}: idle slot carries detuning {np.unique(d)[:3]}, off-detuning is {det_off}",
                          "idle-wrong-off-detuning")

    def end(self, r: Runner) -> None:
        if self.rich and not self.tainted:
            self.ctx.mark_nontrivial(("c15", self.ctx.case_idx))
        if not self.tainted:
            self._check_open_blocks(r)

    def _check_open_blocks(self, r: Runner) -> None:
        """A channel left in EOM mode idles at the off-detuning of its *latest* setpoint for as long as the sequence
        (or the requested extension) lasts."""
        import warnings

        from vmon.snap import arr, snapshot
        ctx = self.ctx
        seq = r.seq
        snap = snapshot(seq)
        if not snap["flags"]["building"]:
            return
        open_ = {n: c for n, c in snap["chans"].items() if c["slots"] and eom_now(c)}
        if not open_ or (seq.is_register_mappable() and any(c["detmap"] is not None for c in snap["chans"].values())):
            return
        from pulser.sampler import sample

        T = max(chan_end(c) for c in snap["chans"].values() if c["slots"])
        ext = T + 40
        try:
            with warnings.catch_warnings():
                warnings.simplefilter("ignore")
                sm = sample(seq, extended_duration=ext)
        except Exception:
            ctx.count("open_block_sampling_refused")
            return
        for n, c in open_.items():
            off = c["eom"][-1][4]
            end = chan_end(c)
            det = arr(sm.channel_samples[n].det)
            amp = arr(sm.channel_samples[n].amp)
            ctx.count("open_blocks_checked")
            if len({round(b[4], 9) for b in c["eom"]}) > 1:
                ctx.count("open_blocks_after_setpoint_change")
            if len(det) != ext:
                ctx.violation("open-block", f"{n}: extended samples have length {len(det)}, requested {ext}", "open-block-length")
                continue
            tail, atail = det[end:], amp[end:]
            if np.any(atail != 0) or np.any(np.abs(tail - off) > 1e-9 * (1 + abs(off))):
                ctx.violation("open-block", f"{n}: left in EOM mode at {end} ns; beyond it the detuning is {np.unique(tail)[:3]} "
                              f"(amplitude {np.unique(atail)[:2]}), the latest setpoint's off-detuning is {off} "
                              f"(blocks: {[round(b[4], 6) for b in c['eom']]})", "open-block-tail")

