"""C06 monitor: sampling renders the schedule exactly (reference: vmon.ref.render)."""
from __future__ import annotations

import numpy as np

from vmon.prog import Monitor, Runner
from vmon.ref import render
from vmon.snap import arr, pulse_info, snapshot

TOL = 1e-12


def plain_channels(snap: dict, seq) -> tuple[list[dict], dict]:
    """Snapshot -> plain timeline for the reference; also returns per-channel records by name."""
    chans, by_name = [], {}
    try:
        qubits = {str(q): arr(c) for q, c in seq.register.qubits.items()} if not seq.is_register_mappable() else {}
    except Exception:
        qubits = {}
    for n, c in snap["chans"].items():
        slots = []
        for s in c["slots"]:
            if s["kind"] in ("pulse", "ddelay"):
                _, a, d, ph, _ = pulse_info(s["pulse"])
                slots.append({"ti": s["ti"], "tf": s["tf"], "targets": s["targets"], "amp": a, "det": d,
                              "phase": ph, "real": s["kind"] == "pulse"})
        w = None
        if c["detmap"] is not None:
            dm = c["detmap"]
            w = render.weights_for(arr(dm.trap_coordinates), arr(dm.weights), qubits)
        rec = {"name": n, "basis": c["obj"].basis, "dmm": c["detmap"] is not None, "weights": w, "slots": slots,
               "end": c["slots"][-1]["tf"] if c["slots"] else 0, "addr": c["obj"].addressing,
               "last_targets": c["slots"][-1]["targets"] if c["slots"] else (),
               "eom_off": c["eom"][-1][4] if c["eom"] and c["eom"][-1][1] is None else 0.0}
        chans.append(rec)
        by_name[n] = rec
    return chans, by_name


class RenderMonitor(Monitor):
    def __init__(self, ctx):
        self.ctx = ctx

    def end(self, r: Runner) -> None:
        self.check(r)
        self.check_after_register_switch(r)

    def check_after_register_switch(self, r: Runner) -> None:
        """The same program on a register with the same ids at permuted positions (the detuning maps stay where they
        are): everything rendered per atom follows the atoms' *new* positions, whatever was rendered before."""
        import warnings
        seq = r.seq
        if self.tainted or seq.is_register_mappable() or not seq._building:
            return
        snap = snapshot(seq)
        if not any(c["detmap"] is not None for c in snap["chans"].values()) or snap["flags"]["slm_targets"]:
            return
        ids = list(seq.register.qubit_ids)
        if len(ids) < 2:
            return
        coords = [arr(seq.register.qubits[q]) for q in ids]
        k = 1 + self.ctx.case_idx % (len(ids) - 1)
        try:
            with warnings.catch_warnings():
                warnings.simplefilter("ignore")
                reg2 = type(seq.register)(dict(zip(ids, coords[k:] + coords[:k])))
                seq2 = seq.switch_register(reg2)
        except Exception:
            self.ctx.count("register_switch_refused")
            return
        self.ctx.count("rendered_again_after_register_switch")
        old = r.seq
        try:
            r.seq = seq2
            self.check(r)
        finally:
            r.seq = old

    def after(self, r: Runner, ev) -> None:
        if ev.exc is not None and ev.stage == "call":
            from vmon.snap import state_key
            if state_key(ev.pre) != state_key(ev.post):
                self.tainted = True  # a raising call left a partial effect: reported by C09, once
        elif ev.stage == "call" and not ev.ro and not self.tainted and self.ctx.case_idx % 3 == 0 \
                and ev.post["flags"]["building"] and ev.post["chans"]:
            # every state a history passes through can be sampled, not only the last one
            seq = r.seq
            if seq.is_register_mappable() and any(c["detmap"] is not None for c in ev.post["chans"].values()):
                return
            from pulser.sampler import sample
            self.ctx.count("intermediate_states_sampled")
            try:
                sample(seq)
            except Exception as e:
                self.ctx.violation("sample-raises", f"sample(seq) raised {type(e).__name__}: {str(e)[:200]} after {ev.name}",
                                   f"sample-raises:{type(e).__name__}")
                self.tainted = True

    tainted = False

    def check(self, r: Runner) -> None:
        ctx = self.ctx
        seq = r.seq
        if self.tainted:
            ctx.count("discarded_after_C09")
            return
        snap = snapshot(seq)
        if not snap["flags"]["building"] or not snap["chans"]:
            return
        from pulser.sampler import sample

        if seq.is_register_mappable() and any(c["detmap"] is not None for c in snap["chans"].values()):
            return  # documented: DMM + mappable register cannot be sampled
        try:
            sm = sample(seq)
        except Exception as e:
            ctx.violation("sample-raises", f"sample(seq) raised {type(e).__name__}: {str(e)[:200]}",
                          f"sample-raises:{type(e).__name__}")
            return
        chans, by_name = plain_channels(snap, seq)
        T = max([c["end"] for c in chans] + [0])
        nontrivial = False
        # ---- samples are a snapshot: what was sampled earlier in this history still extends the way it did then -----
        held = r.__dict__.get("_c06_held")
        if held is not None:
            old_sm, old_ext, X0 = held[1], held[2], held[3]
            for n, want in old_ext.items():
                try:
                    ce = old_sm.channel_samples[n].extend_duration(X0)
                    got = (arr(ce.amp), arr(ce.det), arr(ce.phase))
                except Exception as e:
                    ctx.violation("extension", f"{n}: re-extending samples taken earlier raised {e!r}"[:300], "held-samples-raise")
                    continue
                ctx.count("held_samples_reextended")
                if any(len(a) != len(b) or not np.array_equal(a, b, equal_nan=True) for a, b in zip(got, want)):
                    ctx.violation("extension", f"{n}: samples taken earlier in the history extend differently after the sequence "
                                  f"went on (detuning tail then {want[1][-3:]}, now {got[1][-3:]})", "held-samples-changed")
            r.__dict__["_c06_held"] = None
        elif r.seq is seq and T > 0:
            X0 = T + 7
            try:
                ext0 = {n: tuple(arr(getattr(cs.extend_duration(X0), k)) for k in ("amp", "det", "phase"))
                        for n, cs in sm.channel_samples.items() if len(arr(cs.amp)) <= X0}
                r.__dict__["_c06_held"] = (seq, sm, ext0, X0)
            except Exception:
                pass
        for n, c in by_name.items():
            cs = sm.channel_samples[n]
            amp, det, phase = arr(cs.amp), arr(cs.det), arr(cs.phase)
            ramp, rdet = render.channel_arrays(c["slots"], c["end"])
            ctx.count("channel_arrays_checked")
            if len(amp) != c["end"] or len(det) != c["end"] or len(phase) != c["end"]:
                ctx.violation("length", f"{n}: sampled length {len(amp)}/{len(det)}/{len(phase)} != channel duration {c['end']}",
                              "length")
                continue
            for nm, got, want in (("amp", amp, ramp), ("det", det, rdet)):
                if not np.allclose(got, want, atol=TOL * (1 + np.max(np.abs(want), initial=0)), rtol=0, equal_nan=True):
                    i = int(np.argmax(np.abs(np.nan_to_num(got - want))))
                    ctx.violation("channel-" + nm, f"{n}: sampled {nm}[{i}]={got[i]!r} but the schedule gives {want[i]!r}",
                                  "channel-" + nm)
            for s in c["slots"]:
                if s["real"] and s["tf"] > s["ti"]:
                    seg = phase[s["ti"]:s["tf"]]
                    if not np.allclose(seg, s["phase"], atol=1e-12, rtol=0):
                        ctx.violation("channel-phase", f"{n}: phase over pulse [{s['ti']},{s['tf']}) is {seg[:3]}.. but the "
                                      f"pulse's phase is {s['phase']}", "channel-phase")
                        break
            allowed = {0.0} | {s["phase"] for s in c["slots"]}
            if len(phase) and not set(np.unique(phase)).issubset(allowed):
                if not all(any(abs(v - a) < 1e-12 for a in allowed) for v in np.unique(phase)):
                    ctx.violation("channel-phase", f"{n}: sampled phase takes values {set(np.unique(phase)) - allowed} that "
                                  "belong to no pulse of the channel", "channel-phase-foreign")
            # ---- extension only pads --------------------------------------------------------
            ext = c["end"] + 1 + (ctx.case_idx % 7) * 3
            try:
                ce = cs.extend_duration(ext)
                ea, ed, ep = render.pad(amp, det, phase, ext, c["eom_off"])
                ctx.count("extensions_checked")
                for nm, got, want in (("amp", arr(ce.amp), ea), ("det", arr(ce.det), ed), ("phase", arr(ce.phase), ep)):
                    if len(got) != ext or not np.allclose(got, want, atol=1e-12, rtol=0, equal_nan=True):
                        ctx.violation("extension", f"{n}: extended {nm} differs from padding rule (len {len(got)} vs {ext}; "
                                      f"tail {got[-3:]} vs {want[-3:]})", "extension-" + nm)
            except Exception as e:
                ctx.violation("extension", f"{n}: extend_duration({ext}) raised {e!r}", "extension-raises")
            if c["dmm"] or c["addr"] == "Local" or c["eom_off"]:
                nontrivial = True
        # ---- sampling with an extended duration: every channel is padded to it (also when it is exactly the
        #      sequence's own duration, which only the longest channel has) ------------------------------------------
        for X in (T, T + 1 + ctx.case_idx % 5):
            if X <= 0:
                continue
            try:
                smx = sample(seq, extended_duration=X)
            except Exception as e:
                ctx.violation("extension", f"sample(seq, extended_duration={X}) raised {type(e).__name__}: {str(e)[:160]}",
                              "extension-raises:sample")
                break
            for n, c in by_name.items():
                cs, cx = sm.channel_samples[n], smx.channel_samples[n]
                ea, ed, ep = render.pad(arr(cs.amp), arr(cs.det), arr(cs.phase), X, c["eom_off"])
                ctx.count("extended_samplings_checked")
                if c["end"] < X == T:
                    ctx.count("extended_to_sequence_duration_shorter_channel")
                for nm, got, want in (("amp", arr(cx.amp), ea), ("det", arr(cx.det), ed), ("phase", arr(cx.phase), ep)):
                    if len(got) != X or not np.allclose(got, want, atol=1e-12, rtol=0, equal_nan=True):
                        ctx.violation("extension", f"{n}: sample(seq, extended_duration={X}) gives {nm} of length {len(got)} "
                                      f"(channel ends at {c['end']}, sequence at {T}); padding rule gives length {len(want)}",
                                      "extension-sample-" + nm)
                        break
        # ---- per-atom, per-basis view --------------------------------------------------------
        if seq.is_register_mappable():
            return
        qids = [str(q) for q in seq.register.qubit_ids]
        strmap = {str(q): q for q in seq.register.qubit_ids}
        slm = None
        if snap["flags"]["slm_targets"] and snap["flags"]["in_xy"]:
            # documented: masked until the end of the first pulse of the earliest-starting global channel
            firsts = []
            for c in chans:
                if c["addr"] == "Global" and not c["dmm"]:
                    f = next((s for s in c["slots"] if s["real"]), None)
                    if f:
                        firsts.append((f["ti"], f["tf"]))
            if firsts:
                t0 = min(f[0] for f in firsts)
                cands = {f[1] for f in firsts if f[0] == t0}
                if len(cands) == 1:
                    slm = (set(snap["flags"]["slm_targets"]), cands.pop())
                else:
                    # several global channels start their first pulse together: which of them lifts the mask is not
                    # said; the sequence's own answer is taken if it is the end of one of them
                    end = int(getattr(sm._slm_mask, "end", -1))
                    if end in cands:
                        ctx.count("slm_mask_tie_resolved_by_reported_end")
                        slm = (set(snap["flags"]["slm_targets"]), end)
                    else:
                        ctx.violation("atom-view", f"SLM mask reported to end at {end}, the first pulses of the global "
                                      f"channels starting first end at {sorted(cands)}", "slm-mask-end")
                        return
        ref = render.per_atom(chans, qids, T, slm)
        # a channel that ends before the sequence while still idling in EOM mode: the statement does not say
        # whether the per-atom view keeps the off-detuning after the channel's own end -> gray for det there
        open_from = {}
        for c in chans:
            if c["eom_off"] and c["end"] < T:
                for q in c["last_targets"]:
                    k = (c["basis"], q)
                    open_from[k] = min(open_from.get(k, T), c["end"])
        try:
            # rendering is a query: either view may be asked for first and again afterwards, with the same answer,
            # and the sequence it was sampled from keeps its timeline
            if ctx.case_idx % 2:
                first = sm.to_nested_dict(all_local=True)
                glob = sm.to_nested_dict(all_local=False)
            else:
                glob = sm.to_nested_dict(all_local=False)
                first = None
            loc = sm.to_nested_dict(all_local=True)
            ctx.count("view_orders_checked")
        except Exception as e:
            ctx.violation("nested-raises", f"to_nested_dict raised {type(e).__name__}: {str(e)[:200]}", "nested-raises")
            return
        from vmon.snap import diff, state_key
        snap2 = snapshot(seq)
        if state_key(snap2) != state_key(snap):
            ctx.violation("render-mutates", f"sampling / rendering changed the sequence: {diff(snap, snap2)[:3]}", "render-mutates")
        if first is not None:
            for basis, d in first["Local"].items():
                for q, v in d.items():
                    w = loc["Local"].get(basis, {}).get(q)
                    if w is None or any(not np.array_equal(np.asarray(v[k]), np.asarray(w[k]), equal_nan=True) for k in ("amp", "det", "phase")):
                        ctx.violation("render-repeat", f"atom {q} basis {basis}: the all-local view changed between two "
                                      "renderings of the same samples", "render-repeat")
                        break
        for basis, per_q in ref.items():
            for q, want in per_q.items():
                ctx.count("atom_views_checked")
                got = loc["Local"].get(basis, {}).get(strmap[q])
                if got is None:
                    if np.any(want["amp"]) or np.any(want["det"]):
                        ctx.violation("atom-view", f"atom {q} basis {basis}: no local samples although it is driven", "atom-missing")
                    continue
                g2 = {"amp": np.zeros(T), "det": np.zeros(T), "phase": np.zeros(T)}
                if basis in glob.get("Global", {}):
                    g2["amp"] += glob["Global"][basis]["amp"]
                    g2["det"] += glob["Global"][basis]["det"]
                    g2["phase"] += glob["Global"][basis]["phase"]
                gl = glob["Local"].get(basis, {}).get(strmap[q])
                if gl is not None:
                    g2["amp"] += gl["amp"]
                    g2["det"] += gl["det"]
                    g2["phase"] += gl["phase"]
                cut = open_from.get((basis, q))
                if cut is not None:
                    ctx.gray("open-eom-after-channel-end")
                    got = {k: np.array(v) for k, v in got.items()}
                    got["det"][cut:] = want["det"][cut:]
                    g2["det"][cut:] = want["det"][cut:]
                for nm in ("amp", "det"):
                    sc = 1 + np.max(np.abs(want[nm]), initial=0)
                    if not np.allclose(got[nm], want[nm], atol=TOL * sc, rtol=0, equal_nan=True):
                        i = int(np.argmax(np.abs(np.nan_to_num(got[nm] - want[nm]))))
                        ctx.violation("atom-view", f"atom {q} basis {basis}: all-local {nm}[{i}]={got[nm][i]!r}, schedule gives "
                                      f"{want[nm][i]!r}", f"atom-{nm}")
                    if not np.allclose(g2[nm], want[nm], atol=TOL * sc, rtol=0, equal_nan=True):
                        i = int(np.argmax(np.abs(np.nan_to_num(g2[nm] - want[nm]))))
                        ctx.violation("global-view", f"atom {q} basis {basis}: global+local {nm}[{i}]={g2[nm][i]!r}, schedule "
                                      f"gives {want[nm][i]!r}", f"global-{nm}")
                # the phase of the per-atom view is only defined by the statement where a single channel drives
                # the atom in that basis (tails of other channels' slots add their phase: gray)
                nch = sum(1 for c in chans if c["basis"] == basis and any(q in s["targets"] for s in c["slots"]))
                one = ~np.isnan(want["phase_one"]) & (want["ncover"] == 1) & (nch == 1)
                if np.any(one) and not np.allclose(got["phase"][one], want["phase_one"][one], atol=1e-12, rtol=0):
                    i = int(np.flatnonzero(one)[np.argmax(np.abs(got["phase"][one] - want["phase_one"][one]))])
                    ctx.violation("atom-view", f"atom {q} basis {basis}: phase[{i}]={got['phase'][i]!r}, pulse phase "
                                  f"{want['phase_one'][i]!r}", "atom-phase")
                # where exactly one pulse drives the atom (non-zero amplitude) the phase is that pulse's, however many
                # channels address the atom at other times or idle there with zero amplitude
                solo = want["ndrive"] == 1
                if np.any(solo):
                    ctx.count("solo_drive_phase_checks")
                    if nch > 1:
                        ctx.count("solo_drive_phase_checks_with_several_channels")
                    # (all-local view only: in the other view a global and a local entry are separate terms, each
                    #  with its own phase, and have no common phase to compare)
                    for view, ph in (("all-local", got["phase"]),):
                        if not np.allclose(np.asarray(ph)[solo], want["phase_drive"][solo], atol=1e-12, rtol=0):
                            i = int(np.flatnonzero(solo)[np.argmax(np.abs(np.asarray(ph)[solo] - want["phase_drive"][solo]))])
                            ctx.violation("atom-view", f"atom {q} basis {basis}: {view} phase[{i}]={np.asarray(ph)[i]!r} while "
                                          f"the only pulse driving the atom then has phase {want['phase_drive'][i]!r}",
                                          f"solo-drive-phase:{view}")
                            break
                if np.any(one) and not np.allclose(g2["phase"][one], want["phase_one"][one], atol=1e-12, rtol=0):
                    i = int(np.flatnonzero(one)[np.argmax(np.abs(g2["phase"][one] - want["phase_one"][one]))])
                    ctx.violation("global-view", f"atom {q} basis {basis}: global+local phase[{i}]={g2['phase'][i]!r}, pulse "
                                  f"phase {want['phase_one'][i]!r}", "global-phase")
                if np.any(want["ncover"] > 1):
                    ctx.gray("overlapping-drives-phase")
        # atoms present in the output but never targeted must be silent
        for basis, d in loc["Local"].items():
            for q, got in d.items():
                if str(q) not in ref.get(basis, {}) and (np.any(got["amp"]) or np.any(got["det"])):
                    ctx.violation("atom-view", f"atom {q} basis {basis} receives samples but no slot targets it", "atom-extra")
        if nontrivial:
            ctx.mark_nontrivial(("c06", ctx.case_idx))
