"""Canonical snapshots of a Sequence (read-only access to the anchored state)."""
from __future__ import annotations

import hashlib
from typing import Any

import numpy as np

_PULSE_CACHE: dict[int, tuple] = {}
_KEEP: list = []  # strong refs so that id() stays unique


def arr(x: Any) -> np.ndarray:
    if hasattr(x, "as_array"):
        return np.asarray(x.as_array(detach=True), dtype=float)
    return np.asarray(x, dtype=float)


def pulse_info(p) -> tuple:
    """(digest, amp samples, det samples, phase, post_phase_shift) of a Pulse; cached."""
    k = id(p)
    hit = _PULSE_CACHE.get(k)
    if hit is not None:
        return hit
    a = arr(p.amplitude.samples).copy()  # (a snapshot must not share memory with the object it describes)
    d = arr(p.detuning.samples).copy()
    ph = float(arr(p.phase))
    pps = float(p.post_phase_shift)
    h = hashlib.sha1(a.tobytes() + b"|" + d.tobytes() + repr((ph, pps)).encode()).hexdigest()[:16]
    info = (h, a, d, ph, pps)
    _PULSE_CACHE[k] = info
    _KEEP.append(p)
    if len(_KEEP) > 200000:  # bounded memory in long shards
        _KEEP.clear()
        _PULSE_CACHE.clear()
    return info


def forget_pulses() -> None:
    """Drop the cached pulse samples: the next snapshot reads every pulse again (used when the question is whether
    an object that was already looked at has been modified in place since)."""
    _KEEP.clear()
    _PULSE_CACHE.clear()


def tkey(targets) -> tuple:
    return tuple(sorted(str(t) for t in targets))


def slot_rec(slot) -> dict:
    from pulser.pulse import Pulse

    if isinstance(slot.type, Pulse):
        h, a, d, ph, pps = pulse_info(slot.type)
        from pulser.sequence._schedule import _ChannelSchedule

        kind = "ddelay" if _ChannelSchedule.is_detuned_delay(slot.type) else "pulse"
        return {"kind": kind, "ti": int(slot.ti), "tf": int(slot.tf), "targets": tkey(slot.targets),
                "dig": h, "phase": ph, "pps": pps, "pulse": slot.type}
    return {"kind": str(slot.type), "ti": int(slot.ti), "tf": int(slot.tf),
            "targets": tkey(slot.targets), "dig": None, "phase": None, "pps": None, "pulse": None}


_SCALAR = (int, float, str, bool, type(None))


def _call_sig(c) -> tuple:
    """Shape of a recorded call: name, number of positional arguments, keyword names and their scalar values
    (the record is what build / switch_* / serialisation replay: a query must not edit it)."""
    return (c.name, len(c.args), tuple(sorted((k, v if isinstance(v, _SCALAR) else type(v).__name__) for k, v in c.kwargs.items())))


def snapshot(seq) -> dict:
    """Deep, comparable picture of everything a call may change."""
    chans = {}
    for name, cs in seq._schedule.items():
        chans[name] = {
            "id": cs.channel_id,
            "obj": cs.channel_obj,
            "slots": [slot_rec(s) for s in cs.slots],
            "eom": [(int(b.ti), None if b.tf is None else int(b.tf), float(arr(b.rabi_freq)),
                     float(arr(b.detuning_on)), float(arr(b.detuning_off))) for b in cs.eom_blocks],
            "waiting": bool(getattr(cs, "_waiting_for_first_pulse", False)),
            "detmap": getattr(cs, "detuning_map", None),
        }
    bref = {}
    for basis, d in seq._basis_ref.items():
        bref[basis] = {str(q): (tuple(int(t) for t in r.phase._times),
                                tuple(float(x) for x in r.phase._phases), int(r.last_used))
                       for q, r in d.items()}
    flags = {
        "in_xy": bool(seq._in_xy), "in_ising": bool(seq._in_ising),
        "mag": None if seq._mag_field is None else tuple(float(x) for x in seq._mag_field),
        "slm_targets": tkey(seq._slm_mask_targets), "slm_dmm": seq._slm_mask_dmm,
        "measurement": getattr(seq, "_measurement", None),
        "param_measurement": seq._param_measurement,
        "empty": bool(seq._empty_sequence), "building": bool(seq._building),
        "n_calls": len(seq._calls), "n_tobuild": len(seq._to_build_calls),
        "calls": tuple(c.name for c in seq._calls), "tobuild": tuple(c.name for c in seq._to_build_calls),
        "vars": tuple(sorted(seq._variables)),
        "qids": tuple(sorted(str(q) for q in seq._qids)),
        "calls_sig": tuple(_call_sig(c) for c in seq._calls[1:]) + ("|",) + tuple(_call_sig(c) for c in seq._to_build_calls),
    }
    return {"chans": chans, "bref": bref, "flags": flags}


def _slot_key(s: dict) -> tuple:
    return (s["kind"], s["ti"], s["tf"], s["targets"], s["dig"])


def state_key(snap: dict) -> tuple:
    """Exact (hashable) identity of a snapshot, for 'nothing changed' checks."""
    ch = tuple((n, c["id"], tuple(_slot_key(s) for s in c["slots"]), tuple(c["eom"]), c["waiting"])
               for n, c in snap["chans"].items())
    br = tuple((b, tuple(sorted(d.items()))) for b, d in sorted(snap["bref"].items()))
    fl = tuple(sorted((k, v) for k, v in snap["flags"].items()))
    return (ch, br, fl)


def diff(a: dict, b: dict) -> list[str]:
    """Human-readable differences between two snapshots (exact comparison)."""
    out = []
    for n in sorted(set(a["chans"]) | set(b["chans"])):
        ca, cb = a["chans"].get(n), b["chans"].get(n)
        if ca is None or cb is None:
            out.append(f"channel {n}: {'added' if ca is None else 'removed'}")
            continue
        sa, sb = [_slot_key(s) for s in ca["slots"]], [_slot_key(s) for s in cb["slots"]]
        if sa != sb:
            m = min(len(sa), len(sb))
            i = next((i for i in range(m) if sa[i] != sb[i]), m)
            out.append(f"channel {n}: slots differ from index {i}: {sa[i:i+3]} -> {sb[i:i+3]}")
        if ca["eom"] != cb["eom"]:
            out.append(f"channel {n}: eom blocks {ca['eom']} -> {cb['eom']}")
        if ca["waiting"] != cb["waiting"]:
            out.append(f"channel {n}: waiting_for_first_pulse {ca['waiting']} -> {cb['waiting']}")
    for bs in sorted(set(a["bref"]) | set(b["bref"])):
        da, db = a["bref"].get(bs), b["bref"].get(bs)
        if da != db:
            if da is None or db is None:
                out.append(f"basis {bs}: {'added' if da is None else 'removed'}")
            else:
                qs = [q for q in da if da[q] != db.get(q)]
                out.append(f"basis {bs}: refs of {qs[:4]} changed, e.g. {da[qs[0]]} -> {db.get(qs[0])}" if qs
                           else f"basis {bs}: qubit set changed")
    for k in a["flags"]:
        if a["flags"][k] != b["flags"][k]:
            out.append(f"flag {k}: {a['flags'][k]!r} -> {b['flags'][k]!r}")
    return out


def _phase_close(x: float, y: float, tol: float) -> bool:
    d = abs((x - y + np.pi) % (2 * np.pi) - np.pi)
    return d <= tol


def timeline_diff(a: dict, b: dict, tol: float = 1e-9, by_id: bool = False,
                  check_flags: bool = True, name_map: dict | None = None, eom_off: bool = True) -> list[str]:
    """Behavioural comparison of two snapshots (samples to `tol`, phases mod 2pi)."""
    out = []
    na = dict(a["chans"])
    nb = dict(b["chans"])
    if by_id and name_map is None:
        # DMM channels are named after their device id: match them by order of declaration
        da = [n for n, c in na.items() if c["detmap"] is not None]
        db = [n for n, c in nb.items() if c["detmap"] is not None]
        if len(da) == len(db):
            name_map = dict(zip(db, da))
    if name_map:
        nb = {name_map.get(k, k): v for k, v in nb.items()}
    if set(na) != set(nb):
        return [f"declared channels differ: {sorted(na)} vs {sorted(nb)}"]
    for n in na:
        ca, cb = na[n], nb[n]
        if not by_id and ca["id"] != cb["id"]:
            out.append(f"{n}: channel id {ca['id']} vs {cb['id']}")
        if len(ca["slots"]) != len(cb["slots"]):
            out.append(f"{n}: {len(ca['slots'])} vs {len(cb['slots'])} slots: "
                       f"{[(s['kind'], s['ti'], s['tf']) for s in ca['slots']]} vs "
                       f"{[(s['kind'], s['ti'], s['tf']) for s in cb['slots']]}")
            continue
        for i, (sa, sb) in enumerate(zip(ca["slots"], cb["slots"])):
            ka, kb = sa["kind"], sb["kind"]
            if ka != kb and {ka, kb} == {"delay", "ddelay"} and tol > 0:
                # a 'detuned delay' whose constant detuning is zero to within the tolerance (e.g. an EOM off-detuning
                # of -6e-16 from a light-shift sum that cancels) behaves as the plain delay on the other side
                dd = sa if ka == "ddelay" else sb
                if float(np.max(np.abs(pulse_info(dd["pulse"])[2]), initial=0)) <= tol:
                    ka = kb = "delay"
                    if (sa["ti"], sa["tf"], sa["targets"]) == (sb["ti"], sb["tf"], sb["targets"]):
                        continue
            if (ka, sa["ti"], sa["tf"], sa["targets"]) != (kb, sb["ti"], sb["tf"], sb["targets"]):
                out.append(f"{n}[{i}]: {(sa['kind'], sa['ti'], sa['tf'], sa['targets'])} vs "
                           f"{(sb['kind'], sb['ti'], sb['tf'], sb['targets'])}")
                break
            if sa["pulse"] is not None:
                _, aa, ad, ap, apps = pulse_info(sa["pulse"])
                _, ba, bd, bp, bpps = pulse_info(sb["pulse"])
                sc = 1 + max(np.max(np.abs(aa), initial=0), np.max(np.abs(ad), initial=0))
                if aa.shape != ba.shape or not (np.allclose(aa, ba, atol=tol * sc, rtol=0, equal_nan=True)
                                                and np.allclose(ad, bd, atol=tol * sc, rtol=0, equal_nan=True)):
                    out.append(f"{n}[{i}]: pulse samples differ")
                    break
                if not _phase_close(ap, bp, max(tol, 1e-9)):
                    out.append(f"{n}[{i}]: pulse phase {ap} vs {bp}")
                    break
                if not _phase_close(apps, bpps, max(tol, 1e-9)):
                    out.append(f"{n}[{i}]: post_phase_shift {apps} vs {bpps}")
                    break
        ma, mb = ca.get("detmap"), cb.get("detmap")
        if (ma is None) != (mb is None):
            out.append(f"{n}: detuning map present on one side only")
        elif ma is not None:
            def table(m):
                return {tuple(np.round(arr(c), 6) + 0.0): float(w) for c, w in zip(m.trap_coordinates, arr(m.weights))}
            ta, tb = table(ma), table(mb)
            if set(ta) != set(tb) or any(abs(ta[k] - tb[k]) > max(tol, 1e-9) for k in ta):
                out.append(f"{n}: detuning map differs (trap -> weight): {sorted(ta.items())[:4]} vs {sorted(tb.items())[:4]}")
        ea, eb = ca["eom"], cb["eom"]
        if not eom_off:  # the off-detuning is only compared through the samples of the idle slots
            ea, eb = [x[:4] for x in ea], [x[:4] for x in eb]
        if len(ea) != len(eb) or any(
            x[:2] != y[:2] or not np.allclose(x[2:], y[2:], atol=tol * (1 + max(map(abs, x[2:]))), rtol=0)
            for x, y in zip(ea, eb)
        ):
            out.append(f"{n}: eom blocks {ea} vs {eb}")
    for bs in set(a["bref"]) | set(b["bref"]):
        da, db = a["bref"].get(bs), b["bref"].get(bs)
        if da is None or db is None:
            out.append(f"basis {bs} addressed on one side only")
            continue
        if set(da) != set(db):
            out.append(f"basis {bs}: qubits {sorted(da)} vs {sorted(db)}")
            continue
        for q in da:
            ta, pa, ua = da[q]
            tb, pb, ub = db[q]
            if ta != tb or ua != ub or any(not _phase_close(x, y, max(tol, 1e-9)) for x, y in zip(pa, pb)):
                out.append(f"basis {bs} qubit {q}: phase reference {da[q]} vs {db[q]}")
                break
    if check_flags:
        for k in ("in_xy", "in_ising", "mag", "slm_targets", "measurement", "param_measurement"):
            if a["flags"][k] != b["flags"][k]:
                out.append(f"flag {k}: {a['flags'][k]!r} vs {b['flags'][k]!r}")
        sa_, sb_ = a["flags"]["slm_dmm"], b["flags"]["slm_dmm"]
        if (sa_ is None) != (sb_ is None):
            out.append(f"slm dmm {sa_!r} vs {sb_!r}")
    return out
