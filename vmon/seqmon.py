"""Online monitors over Sequence histories: C02 (tiling), C03 (protocols), C10 (gaps)."""
from __future__ import annotations

import re

import numpy as np

from vmon.prog import Event, Monitor, Runner
from vmon.ref import sched

ADD_OPS = ("add", "add_eom_pulse", "add_dmm_detuning")
_FALL: dict = {}


def fall(slot: dict, chobj, eom: bool) -> int:
    """The accounted fall time (public Pulse.fall_time), cached."""
    if eom and chobj.eom_config is None:
        eom = False
    k = (slot["dig"], chobj, eom)  # (the channel itself, by value: id() of a freed object of an earlier case is reused)
    v = _FALL.get(k)
    if v is None:
        v = int(slot["pulse"].fall_time(chobj, in_eom_mode=eom))
        _FALL[k] = v
        if len(_FALL) > 100000:
            _FALL.clear()
    return v


def in_block(chan: dict, slot: dict) -> bool:
    return any(b[0] <= slot["ti"] and (b[1] is None or slot["ti"] < b[1]) for b in chan["eom"])


def eom_now(chan: dict) -> bool:
    return bool(chan["eom"]) and chan["eom"][-1][1] is None


def rise(chobj) -> int:
    return int(chobj.rise_time)


def eom_rise(chobj) -> int:
    return int(chobj.eom_config.rise_time) if chobj.eom_config is not None else 0


def chan_end(chan: dict) -> int:
    return chan["slots"][-1]["tf"] if chan["slots"] else 0


def pending_fall_bounds(chan: dict) -> tuple[int, int]:
    """(lo, hi) admissible values for the channel end including fall time.

    The last pulse's fall time counts; an EOM detuned delay is a zero-amplitude
    'pulse' whose own ramp may or may not be counted, and a pulse scheduled in one EOM
    state but inspected in another may use either fall time (gray)."""
    end = chan_end(chan)
    obj = chan["obj"]
    cands = []
    real = next((s for s in reversed(chan["slots"]) if s["kind"] == "pulse"), None)
    anyp = next((s for s in reversed(chan["slots"]) if s["kind"] in ("pulse", "ddelay")), None)
    for p in (real, anyp):
        if p is None:
            cands.append(end)
            continue
        for e in {in_block(chan, p), eom_now(chan)}:
            cands.append(max(end, p["tf"] + fall(p, obj, e)))
    return min(cands), max(cands)


# =============================================================================== C02
class TilingMonitor(Monitor):
    """Invariant at quiescent points (after every call): gap-free, clock-aligned, append-only."""

    PID = "C02"

    def __init__(self, ctx, check_durations=True):
        self.ctx = ctx
        self.check_durations = check_durations

    def after(self, r: Runner, ev: Event) -> None:
        ctx = self.ctx
        post, pre = ev.post, ev.pre
        # ---- append-only (every call, successful or not) ---------------------
        for n, cpre in pre["chans"].items():
            cpost = post["chans"].get(n)
            if cpost is None:
                ctx.violation("append-only", f"channel {n} disappeared after {ev.name}", "channel-removed")
                continue
            a = [(s["kind"], s["ti"], s["tf"], s["targets"], s["dig"]) for s in cpre["slots"]]
            b = [(s["kind"], s["ti"], s["tf"], s["targets"], s["dig"]) for s in cpost["slots"]]
            ctx.count("prefix_checks")
            if b[: len(a)] != a:
                i = next(i for i in range(len(a)) if i >= len(b) or a[i] != b[i])
                ctx.violation("append-only", f"{ev.name}: slot {i} of {n} moved/changed: {a[i]} -> "
                              f"{b[i] if i < len(b) else None}", f"moved:{ev.name}")
        if ev.exc is not None or not post["flags"]["building"]:
            return
        # ---- tiling invariants on every channel ------------------------------------
        multi = auto = rounded = False
        for n, c in post["chans"].items():
            obj = c["obj"]
            clk, mn = int(obj.clock_period), int(obj.min_duration)
            sl = c["slots"]
            ctx.count("channel_invariant_evals")
            if not sl:
                continue
            if (sl[0]["kind"], sl[0]["ti"], sl[0]["tf"]) != ("target", -1, 0):
                ctx.violation("first-slot", f"{n}: first instruction is {sl[0]['kind']} {sl[0]['ti']}->{sl[0]['tf']}",
                              "first-slot")
            for i, s in enumerate(sl):
                if i and sl[i - 1]["tf"] != s["ti"]:
                    kind = "gap" if sl[i - 1]["tf"] < s["ti"] else "overlap"
                    ctx.violation("tiling", f"{n}[{i}] {kind}: previous ends {sl[i-1]['tf']}, {s['kind']} starts {s['ti']} "
                                  f"after {ev.name}", f"{kind}:{ev.name}")
                if s["tf"] < s["ti"] or s["tf"] < 0:
                    ctx.violation("tiling", f"{n}[{i}] negative extent {s['ti']}->{s['tf']}", f"negative:{ev.name}")
                if s["tf"] % clk:
                    ctx.violation("clock", f"{n}[{i}] {s['kind']} ends at {s['tf']}, not a multiple of clock {clk} "
                                  f"(after {ev.name})", f"clock:{s['kind']}:{ev.name}")
                L = s["tf"] - s["ti"]
                if s["kind"] in ("pulse", "ddelay"):
                    if L != s["pulse"].duration:
                        ctx.violation("pulse-extent", f"{n}[{i}] slot length {L} != pulse duration {s['pulse'].duration}",
                                      f"pulse-extent:{ev.name}")
                if s["kind"] in ("delay", "ddelay") and L < mn:
                    ctx.violation("min-duration", f"{n}[{i}] {s['kind']} of {L} ns < min_duration {mn} (after {ev.name})",
                                  f"short-{s['kind']}:{ev.name}")
                if s["kind"] == "target" and i and 0 < L < mn:
                    ctx.violation("min-duration", f"{n}[{i}] retarget of {L} ns < min_duration {mn}", f"short-retarget:{ev.name}")
            cpre = pre["chans"].get(n)
            if cpre is not None and ev.name in ADD_OPS and len(sl) - len(cpre["slots"]) >= 2:
                auto = True
                d = sl[len(cpre["slots"])]
                if (d["tf"] - d["ti"]) % clk == 0 and (clk > 1 or mn > 1):
                    rounded = True
        if len(post["chans"]) >= 2:
            multi = True
        st = r.__dict__.setdefault("_c02", {"multi": False, "auto": False, "rounded": False})
        st["multi"] |= multi
        st["auto"] |= auto
        st["rounded"] |= rounded
        # ---- reported durations ----------------------------------------------------
        if self.check_durations and post["chans"] and not ev.ro:
            seq = ev.seq
            ends = {}
            falls: dict = {}
            for n, c in post["chans"].items():
                end = chan_end(c)
                ends[n] = end
                try:
                    d0 = seq.get_duration(n)
                    d1 = seq.get_duration(n, include_fall_time=True)
                except Exception as e:  # a query that fails on a valid state
                    ctx.violation("duration-query", f"get_duration({n}) raised {e!r}", "duration-raise")
                    continue
                ctx.count("duration_checks")
                if d0 != end:
                    ctx.violation("duration", f"get_duration({n})={d0} but last instruction ends at {end}", "duration")
                lo, hi = pending_fall_bounds(c)
                falls[n] = (lo, hi, d1)
                if not (lo <= d1 <= hi):
                    ctx.violation("duration-fall", f"get_duration({n}, include_fall_time=True)={d1}, expected in [{lo},{hi}] "
                                  f"(end {end})", "duration-fall")
                elif lo != hi:
                    ctx.gray("duration-fall-eom")
                # independent cap (not through Pulse.fall_time): a ramp-down is accounted with at most twice the rise
                # time of the modulation that applies - the EOM's while the channel is in the block the pulse belongs to
                cap = end
                for pp in c["slots"][::-1]:
                    if pp["kind"] in ("pulse", "ddelay"):
                        inb, now = in_block(c, pp), eom_now(c)
                        tr = eom_rise(c["obj"]) if (inb and now) else rise(c["obj"]) if not (inb or now) \
                            else max(eom_rise(c["obj"]), rise(c["obj"]))
                        cap = max(cap, pp["tf"] + 2 * tr)
                        if pp["kind"] == "pulse":
                            break
                ctx.count("duration_fall_cap_checks")
                if d1 > cap:
                    ctx.violation("duration-fall", f"get_duration({n}, include_fall_time=True)={d1} (end {end}) exceeds the last "
                                  f"pulse's end plus twice the applicable rise time ({cap})", "duration-fall-cap")
            try:
                tot = seq.get_duration()
                if tot != max(ends.values()):
                    ctx.violation("duration", f"get_duration()={tot} but channels end at {ends}", "duration-total")
                if len(falls) == len(ends):
                    # the sequence has not ended before every channel is at rest: the total with pending fall
                    # times is the maximum over the channels, whichever of them holds the last instruction
                    totf = seq.get_duration(include_fall_time=True)
                    ctx.count("duration_total_fall_checks")
                    lo, hi = max(f[0] for f in falls.values()), max(f[1] for f in falls.values())
                    per = max(f[2] for f in falls.values())
                    last = max(ends, key=lambda k: ends[k])
                    if falls[last][1] < hi:
                        ctx.count("duration_total_fall_set_by_earlier_channel")
                    if not (lo <= totf <= hi) or (totf != per and all(f[0] <= f[2] <= f[1] for f in falls.values())):
                        ctx.violation("duration-fall", f"get_duration(include_fall_time=True)={totf}, expected "
                                      f"max over channels in [{lo},{hi}] (per channel (lo, hi, reported): {falls})",
                                      "duration-total-fall")
            except Exception as e:
                ctx.violation("duration-query", f"get_duration() raised {e!r}", "duration-raise")

    def end(self, r: Runner) -> None:
        ctx = self.ctx
        seq = r.seq
        from vmon.snap import snapshot

        snap = snapshot(seq)
        if not snap["flags"]["building"] or not snap["chans"]:
            return
        st = r.__dict__.get("_c02", {})
        if st.get("multi") and st.get("auto") and st.get("rounded"):
            ctx.mark_nontrivial(("c02", ctx.case_idx))
        # cross-check the sampled slots and str(seq) against the snapshot
        from pulser.sampler import sample

        try:
            sm = sample(seq)
        except Exception as e:
            ctx.count("sample_raised")
            sm = None
        if sm is not None:
            for n, c in snap["chans"].items():
                want = [(s["ti"], s["targets"]) for s in c["slots"] if s["kind"] in ("pulse", "ddelay")]
                cs = sm.channel_samples[n]
                got = [(int(s.ti), tuple(sorted(str(t) for t in s.targets))) for s in cs.slots]
                ctx.count("sampled_slot_checks")
                if want != got:
                    ctx.violation("sampled-slots", f"{n}: sampled slots {got[:6]} vs timeline {want[:6]}", "sampled-slots")
                for s, t in zip([s for s in c["slots"] if s["kind"] in ("pulse", "ddelay")], cs.slots):
                    if int(t.tf) < s["tf"]:
                        ctx.violation("sampled-slots", f"{n}: sampled slot ends {t.tf} before the pulse end {s['tf']}", "sampled-slots")
                if len(cs.amp) != chan_end(c):
                    ctx.violation("sampled-slots", f"{n}: {len(cs.amp)} samples for a channel ending at {chan_end(c)}", "sample-length")
        try:
            txt = str(seq)
        except Exception as e:
            qt = {type(q) for q in seq._register.qubit_ids}
            if len(qt) > 1:
                return
            ctx.violation("str", f"str(seq) raised {e!r}", "str-raise")
            return
        blocks = txt.split("Channel: ")[1:]
        for blk in blocks:
            lines = blk.split("\n")
            n = lines[0]  # (verbatim: a name may be empty or blank)
            c = snap["chans"].get(n)
            if c is None:
                ctx.violation("str", f"str(seq) lists unknown channel {n}", "str")
                continue
            got = []
            for ln in lines[1:]:
                m = re.match(r"t: (\d+)->(\d+) \|", ln)
                if m:
                    got.append((int(m.group(1)), int(m.group(2))))
            want = [(s["ti"], s["tf"]) for s in c["slots"][1:]]
            ctx.count("str_checks")
            if got != want:
                ctx.violation("str", f"{n}: str(seq) boundaries {got[:8]} vs timeline {want[:8]}", "str")


# =============================================================================== C03 / C10
class ProtocolMonitor(Monitor):
    """History + executable model: start time of every added pulse, estimate, align, retarget."""

    def __init__(self, ctx, c03=True, c10=True):
        self.ctx, self.c03, self.c10 = ctx, c03, c10
        self._est = None

    # -- estimate immediately before the add ---------------------------------------
    def before(self, r: Runner, op, name, args, kwargs, pre) -> None:
        self._est = None
        if not self.c03 or name not in ADD_OPS or not pre["flags"]["building"]:
            return
        from pulser import Pulse

        seq = r.seq
        try:
            if name == "add":
                pulse = args[0] if args else kwargs["pulse"]
                ch = args[1] if len(args) > 1 else kwargs["channel"]
            elif name == "add_dmm_detuning":
                wf = args[0] if args else kwargs["waveform"]
                ch = args[1] if len(args) > 1 else kwargs["dmm_name"]
                pulse = Pulse.ConstantAmplitude(0, wf, 0)
            else:
                ch = args[0] if args else kwargs["channel"]
                c = pre["chans"].get(ch)
                if c is None or not eom_now(c):
                    return
                dur = args[1] if len(args) > 1 else kwargs["duration"]
                ph = args[2] if len(args) > 2 else kwargs["phase"]
                b = c["eom"][-1]
                pulse = Pulse.ConstantPulse(dur, b[2], b[3], ph,
                                            post_phase_shift=kwargs.get("post_phase_shift", 0.0))
            proto = kwargs.get("protocol", args[2] if name != "add_eom_pulse" and len(args) > 2 else
                               ("no-delay" if name == "add_dmm_detuning" else "min-delay"))
        except Exception:
            return
        try:
            self._est = ("ok", int(seq.estimate_added_delay(pulse, ch, proto)))
        except Exception as e:
            self._est = ("raise", e)

    @staticmethod
    def _user(r: Runner) -> set:
        return r.__dict__.setdefault("_user_pulses", set())

    def _real(self, r: Runner, ch: str, s: dict) -> bool:
        """A real pulse: non-zero drive, or a zero-amplitude pulse the user added explicitly
        (EOM idle periods with an off-detuning are not pulses)."""
        return s["kind"] == "pulse" or (s["kind"] == "ddelay" and (ch, s["ti"]) in self._user(r))

    # -- independent record of the phase-shift barriers ---------------------------------------------------
    def _shadow(self, r: Runner) -> dict:
        return r.__dict__.setdefault("_c03_shadow", {"last": {}, "bar": {}})

    def _note_pulse(self, r: Runner, ev: Event) -> None:
        """After a successful add: the atoms it drove were last used at its end; a post-phase-shift acts there."""
        c = ev.post["chans"].get(ev.op["ch"])
        if not c or not c["slots"] or c["slots"][-1]["kind"] not in ("pulse", "ddelay"):
            return
        sl = c["slots"][-1]
        sh = self._shadow(r)
        basis = c["obj"].basis
        last = sh["last"].setdefault(basis, {})
        for q in sl["targets"]:
            last[q] = max(last.get(q, 0), sl["tf"])
        # (a detuning waveform on a DMM drives its atoms in the ground-rydberg basis like any other pulse)
        pps = ev.op["pulse"].get("pps") if ev.name == "add" else (ev.op.get("pps") if ev.name == "add_eom_pulse" else None)
        if pps and not ev.op.get("cpd") and isinstance(pps, (int, float)):
            bar = sh["bar"].setdefault(basis, {})
            for q in sl["targets"]:
                bar[q] = max(bar.get(q, 0), last[q])

    def _note_shift(self, r: Runner, ev: Event) -> None:
        """An explicit phase shift acts when the atom was last used (lower bound: the pulses this monitor saw)."""
        sh = self._shadow(r)
        basis = ev.op.get("basis", "digital")
        qids = [str(q) for q in r.seq._register.qubit_ids]
        tg = ev.op.get("targets") or None
        if tg is None:
            tgs = qids
        elif ev.name == "phase_shift_index":
            if not all(isinstance(i, int) for i in tg):
                return
            tgs = [qids[i] for i in tg]
        else:
            tgs = [str(t) for t in tg]
        last, bar = sh["last"].get(basis, {}), sh["bar"].setdefault(basis, {})
        for q in tgs:
            bar[q] = max(bar.get(q, 0), last.get(q, 0))

    def after(self, r: Runner, ev: Event) -> None:
        if ev.exc is not None or ev.stage != "call" or not ev.post["flags"]["building"]:
            return
        if ev.name in ("phase_shift", "phase_shift_index"):
            self._note_shift(r, ev)
        if ev.name in ADD_OPS:
            self._check_add(r, ev)
            if ev.name in ("add", "add_eom_pulse", "add_dmm_detuning"):
                self._note_pulse(r, ev)
            if ev.name in ("add", "add_dmm_detuning"):
                c = ev.post["chans"].get(ev.op["ch"])
                if c and c["slots"] and c["slots"][-1]["kind"] == "ddelay":
                    self._user(r).add((ev.op["ch"], c["slots"][-1]["ti"]))
        elif ev.name == "align" and self.c03:
            self._check_align(r, ev)
        elif ev.name in ("target", "target_index") and self.c10:
            self._check_target(r, ev)
        elif ev.name == "declare_channel" and self.c10:
            pass

    # ---------------------------------------------------------------------------------------
    def _check_add(self, r: Runner, ev: Event) -> None:
        ctx = self.ctx
        pre, post = ev.pre, ev.post
        op = ev.op
        ch = op["ch"]
        cpre, cpost = pre["chans"].get(ch), post["chans"].get(ch)
        if cpre is None or cpost is None or not cpre["slots"]:
            return
        new = cpost["slots"][len(cpre["slots"]):]
        pslot = next((s for s in reversed(new) if s["kind"] == "pulse" or s["kind"] == "ddelay"), None)
        if pslot is None:
            ctx.violation("add-no-slot", f"{ev.name} on {ch} returned but scheduled no pulse", "add-no-slot")
            return
        obj = cpre["obj"]
        clk, mn = int(obj.clock_period), int(obj.min_duration)
        t0 = chan_end(cpre)
        start = pslot["ti"]
        proto = op.get("protocol", "no-delay" if ev.name == "add_dmm_detuning" else "min-delay")
        tg = set(cpre["slots"][-1]["targets"])
        basis = obj.basis
        bref = pre["bref"].get(basis, {})
        B = max([t0] + [bref[q][0][-1] for q in tg if q in bref])
        # ---- conflicts with other channels -------------------------------------------
        C_lo = C_hi = None
        decided_by = "none"
        if proto != "no-delay":
            for o, oc in pre["chans"].items():
                if o == ch:
                    continue
                oobj = oc["obj"]
                strict = loose = None
                for s in reversed(oc["slots"]):
                    if s["kind"] not in ("pulse", "ddelay"):
                        continue
                    if proto == "wait-for-all" or (tg & set(s["targets"])):
                        falls = {fall(s, oobj, in_block(oc, s)), fall(s, oobj, eom_now(oc))}
                        cand = s["tf"] + max(falls)
                        loose = cand if loose is None else max(loose, cand)
                        if strict is None and self._real(r, o, s):  # most recent *real* pulse sharing a target
                            strict = s["tf"] + min(falls)
                        if s["kind"] == "pulse":
                            # Behind zero-amplitude constant-detuning slots ("detuned delays" in the scheduler's own
                            # vocabulary, whether EOM idle periods or added by the user) the most recent *driven*
                            # pulse may still be ramping down: it is the most recent pulse in that vocabulary and
                            # has to be waited for as well.
                            if strict is not None and s["tf"] + min(falls) > strict:
                                self.ctx.count("conflict_bound_from_pulse_behind_detuned_delay")
                            strict = max(strict or 0, s["tf"] + min(falls))
                            break
                if strict is not None:
                    C_lo = strict if C_lo is None else max(C_lo, strict)
                if loose is not None:
                    C_hi = loose if C_hi is None else max(C_hi, loose)
        # ---- phase-jump bound -------------------------------------------------------------
        P_lo = P_hi = None
        q = next((s for s in reversed(cpre["slots"]) if s["kind"] == "pulse"), None)
        gap_req = None
        newreal = pslot["kind"] == "pulse" or ev.name == "add"  # a user pulse with zero amplitude is still a pulse
        zero_between = q is not None and any(self._real(r, ch, s) and s["kind"] == "ddelay" and s["ti"] >= q["tf"]
                                             for s in cpre["slots"])
        if proto != "no-delay" and q is not None and newreal:
            dphi = abs((q["phase"] - pslot["phase"] + np.pi) % (2 * np.pi) - np.pi)
            e_now = eom_now(cpre)
            falls = {fall(q, obj, e_now), fall(q, obj, in_block(cpre, q))}
            # from the fields the channel was declared with, not from the derived property under test
            cpj = getattr(obj, "custom_phase_jump_time", None)
            pjt = int(cpj) if cpj is not None else 2 * rise(obj)
            if cpj and not getattr(obj, "mod_bandwidth", None):
                self.ctx.count("phase_jump_pairs_with_custom_time_and_no_bandwidth")
            x_lo = max(pjt, 2 * eom_rise(obj) * e_now)
            x_hi = max(pjt, 2 * rise(obj) * e_now, x_lo)
            cpd = bool(op.get("cpd"))
            if q["phase"] != pslot["phase"]:
                P_hi = q["tf"] + max(falls) + x_hi
                # (with correct_phase_drift the phase compared is the one the pulse finally carries: whenever it
                #  differs from the previous pulse's the buffer is due, however the difference came about)
                if dphi > 1e-9 and not zero_between:
                    P_lo = q["tf"] + min(falls) + x_lo
                    gap_req = min(falls) + x_lo
                    if cpd:
                        self.ctx.count("phase_jump_pairs_with_drift_correction")
                        if abs((q["phase"] - float(op.get("phase", pslot["phase"])) + np.pi) % (2 * np.pi) - np.pi) <= 1e-9:
                            self.ctx.count("phase_differs_only_by_drift")
                            if t0 == q["tf"]:  # all of the drift accrued while waiting for another channel / barrier
                                self.ctx.count("phase_differs_only_by_drift_during_wait")
            elif cpd:
                P_hi = q["tf"] + max(falls) + x_hi
        lo = sched.start_time(t0, [B] + [x for x in (C_lo, P_lo) if x is not None], clk, mn)
        hi = sched.start_time(t0, [B] + [x for x in (C_lo, C_hi, P_lo, P_hi) if x is not None], clk, mn)
        if self.c03:
            ctx.count("adds_checked")
            ctx.count("protocol:" + proto)
            if start < B:
                ctx.violation("barrier", f"{ev.name} on {ch}: starts at {start} before the phase-shift barrier {B}", "barrier")
            # the barrier as this monitor recorded it (a phase shift acts at the end of the latest pulse that drove the
            # atom in that basis, on whichever channel), independent of the sequence's own bookkeeping
            if cpre["detmap"] is None:
                bar = self._shadow(r)["bar"].get(basis, {})
                Bs = max([bar.get(q, 0) for q in tg] + [0])
                ctx.count("barrier_shadow_checks")
                if Bs > t0:
                    ctx.count("barrier_shadow_beyond_channel_end")
                if start < Bs:
                    ctx.violation("barrier", f"{ev.name}({proto}) on {ch}: starts at {start}; a phase shift of one of its "
                                  f"targets was made when that atom was last driven until {Bs} (on another channel of "
                                  f"basis {basis})", "barrier-shadow")
            if C_lo is not None and start < C_lo:
                ctx.violation("conflict", f"{ev.name}({proto}) on {ch}: starts at {start} but a pulse on another channel "
                              f"sharing a target is only down at {C_lo}", f"conflict:{proto}")
            if not (lo <= start <= hi):
                ctx.violation("minimal-delay", f"{ev.name}({proto}) on {ch}: starts at {start}, earliest admissible start is "
                              f"{lo}{'' if lo == hi else '..' + str(hi)} (t0={t0}, barrier={B}, conflict={C_lo}, "
                              f"phase-jump={P_lo})", f"minimal:{proto}")
            elif lo != hi:
                ctx.gray("start-interval")
            if start > t0:
                if C_lo is not None and C_lo > max(B, P_lo or 0) and lo == hi:
                    decided_by = "conflict"
                    ctx.count("start_decided_by_conflict")
                elif P_lo is not None and P_lo > max(B, C_lo or 0) and lo == hi:
                    decided_by = "phase-jump"
                    ctx.count("start_decided_by_phase_jump")
                elif B > t0:
                    ctx.count("start_decided_by_barrier")
            if decided_by != "none":
                ctx.mark_nontrivial(("c03", ctx.case_idx, ev.idx))
            if self._est is not None and not op.get("cpd"):
                # (with correct_phase_drift the add is not expressible through estimate_added_delay)
                ctx.count("estimates_checked")
                if self._est[0] == "raise":
                    ctx.violation("estimate", f"estimate_added_delay raised {self._est[1]!r} although the same "
                                  f"{ev.name} then succeeded", "estimate-raise")
                elif self._est[1] != start - t0:
                    ctx.violation("estimate", f"estimate_added_delay={self._est[1]} but {ev.name} inserted "
                                  f"{start - t0} (t0={t0}, start={start})", "estimate-mismatch")
        if self.c10 and q is not None and newreal and proto != "no-delay":
            ctx.count("pulse_pairs_checked")
            if gap_req is not None:
                gap = start - q["tf"]
                if gap < gap_req:
                    ctx.violation("phase-jump", f"{ch}: pulses of different phase ({q['phase']:.6f} -> {pslot['phase']:.6f}) "
                                  f"only {gap} ns apart, need fall {min(falls)} + jump {x_lo}", "phase-jump-gap")
                if gap_req > t0 - q["tf"]:
                    ctx.count("gap_enforced")
                    ctx.mark_nontrivial(("c10", ctx.case_idx, ev.idx))

    # ---------------------------------------------------------------------------------------
    def _check_align(self, r: Runner, ev: Event) -> None:
        ctx = self.ctx
        pre, post = ev.pre, ev.post
        chs = ev.op["chs"]
        at_rest = ev.op.get("at_rest", True)
        if any(c not in pre["chans"] for c in chs):
            return
        ends = {c: chan_end(pre["chans"][c]) for c in chs}
        if at_rest:
            b = {c: pending_fall_bounds(pre["chans"][c]) for c in chs}
            T_lo, T_hi = max(v[0] for v in b.values()), max(v[1] for v in b.values())
        else:
            T_lo = T_hi = max(ends.values())
        moved = False
        ctx.count("aligns_checked")
        for c in chs:
            obj = pre["chans"][c]["obj"]
            clk, mn = int(obj.clock_period), int(obj.min_duration)
            e_lo = ends[c] + sched.roundup(T_lo - ends[c], clk, mn)
            e_hi = ends[c] + sched.roundup(T_hi - ends[c], clk, mn)
            got = chan_end(post["chans"][c])
            moved |= got != ends[c]
            if not (e_lo <= got <= e_hi):
                ctx.violation("align", f"align({', '.join(chs)}, at_rest={at_rest}): channel {c} ends at {got}, expected "
                              f"{e_lo}{'' if e_lo == e_hi else '..' + str(e_hi)} (ends before: {ends}, latest end "
                              f"{'incl. fall ' if at_rest else ''}= {T_lo})",
                              f"align:at_rest={at_rest}:{'short' if got < e_lo else 'long'}")
        if moved:
            ctx.count("aligns_moved")
            ctx.mark_nontrivial(("c03a", ctx.case_idx, ev.idx))

    # ---------------------------------------------------------------------------------------
    def _check_target(self, r: Runner, ev: Event) -> None:
        ctx = self.ctx
        ch = ev.op["ch"]
        cpre, cpost = ev.pre["chans"].get(ch), ev.post["chans"].get(ch)
        if cpre is None or cpost is None or not cpre["slots"]:
            return  # first target of the channel
        obj = cpre["obj"]
        clk, mn = int(obj.clock_period), int(obj.min_duration)
        new = cpost["slots"][len(cpre["slots"]):]
        old_t = set(cpre["slots"][-1]["targets"])
        tgt = next((s for s in new if s["kind"] == "target"), None)
        ctx.count("retargets_checked")
        if tgt is None:
            # same atoms: nothing may be inserted
            if new:
                ctx.violation("same-target", f"target(same atoms) on {ch} inserted {[(s['kind'], s['ti'], s['tf']) for s in new]}",
                              "same-target-inserts")
            return
        if set(tgt["targets"]) == old_t:
            ctx.violation("same-target", f"target(same atoms) on {ch} inserted a retarget slot", "same-target-inserts")
        lo, hi = pending_fall_bounds(cpre)
        if lo > chan_end(cpre):
            k = 0
            for s_ in reversed(cpre["slots"]):
                if s_["kind"] != "delay":
                    break
                k += 1
            if k:
                ctx.count("retarget_fall_pending_behind_delays")
            if k >= 2:
                ctx.count("retarget_fall_pending_behind_several_delays")
        if tgt["ti"] < lo:
            ctx.violation("retarget-fall", f"{ch}: retarget starts at {tgt['ti']} but the previous pulse is only down at {lo}",
                          "retarget-before-fall")
        prev_t = next((s for s in reversed(cpre["slots"]) if s["kind"] == "target"), None)
        mri, frt = int(obj.min_retarget_interval or 0), int(obj.fixed_retarget_t or 0)
        L = tgt["tf"] - tgt["ti"]
        if prev_t is not None and tgt["tf"] - prev_t["tf"] < mri:
            ctx.violation("retarget-interval", f"{ch}: target instructions end {tgt['tf'] - prev_t['tf']} ns apart "
                          f"(< min_retarget_interval {mri})", "retarget-interval")
        if L < frt:
            ctx.violation("retarget-fixed", f"{ch}: retarget lasts {L} ns < fixed_retarget_t {frt}", "retarget-fixed")
        if prev_t is not None:
            want = sched.retarget_delta(tgt["ti"] - prev_t["tf"], mri, frt, clk, mn)
            if L != want:
                ctx.violation("retarget-minimal", f"{ch}: retarget lasts {L} ns, rule gives {want}", "retarget-length")
            if want > 0:
                ctx.mark_nontrivial(("c10t", ctx.case_idx, ev.idx))
                ctx.count("retarget_waited")
