"""Soak workload: run the repository's own tests with the sequence monitors attached (DESIGN 3.4 item 4).

Loaded with `-p vmon.pytest_plugin`; every public mutating method of pulser.Sequence is wrapped at class level: pre/post
snapshots are taken around the outermost call on each object and fed to the C02 (tiling / append-only) and C09
(raise-leaves-state) monitors. Findings are appended as JSON lines to $VMON_SOAK_OUT.
"""
from __future__ import annotations

import functools
import json
import os

from vmon import core

_CTX = {"C02": core.Ctx("C02", "thorough", 0), "C09": core.Ctx("C09", "thorough", 0)}
_DEPTH = {"n": 0}
_STATS = {"events": 0}
MUTATORS = ("declare_channel", "target", "target_index", "add", "add_eom_pulse", "add_dmm_detuning", "delay", "align",
            "phase_shift", "phase_shift_index", "enable_eom_mode", "modify_eom_setpoint", "disable_eom_mode",
            "config_slm_mask", "config_detuning_map", "set_magnetic_field", "measure")


def pytest_configure(config):
    import pulser
    from vmon.atomic import AtomicMonitor
    from vmon.prog import Event
    from vmon.seqmon import TilingMonitor
    from vmon.snap import snapshot

    tiling = TilingMonitor(_CTX["C02"], check_durations=False)
    atomic = AtomicMonitor(_CTX["C09"], replicas=False)

    class _R:  # minimal runner stand-in
        pass

    def wrap(name, fn):
        @functools.wraps(fn)
        def w(self, *a, **k):
            if _DEPTH["n"] > 0:
                return fn(self, *a, **k)
            _DEPTH["n"] += 1
            try:
                try:
                    pre = snapshot(self)
                except Exception:
                    return fn(self, *a, **k)
                exc = ret = None
                try:
                    ret = fn(self, *a, **k)
                except Exception as e:  # noqa: BLE001
                    exc = e
                try:
                    post = snapshot(self)
                    op = {"op": name}
                    if name == "delay":
                        op["at_rest"] = k.get("at_rest", a[2] if len(a) > 2 else False)
                    if name == "declare_channel":
                        op["initial_target"] = k.get("initial_target", a[2] if len(a) > 2 else None)
                    ev = Event(self, op, name, a, k, pre, post, exc, ret, [], False, "call", 0)
                    r = _R()
                    r.seq = self
                    node = os.environ.get("PYTEST_CURRENT_TEST", "?")
                    for c in _CTX.values():
                        c.case = {"pytest": node, "call": name}
                    tiling.after(r, ev)
                    atomic.tainted = False
                    atomic.after(r, ev)
                    _STATS["events"] += 1
                except Exception:
                    pass
                if exc is not None:
                    raise exc
                return ret
            finally:
                _DEPTH["n"] -= 1
        return w

    for m in MUTATORS:
        setattr(pulser.Sequence, m, wrap(m, getattr(pulser.Sequence, m)))


def pytest_sessionfinish(session, exitstatus):
    out = os.environ.get("VMON_SOAK_OUT")
    if not out:
        return
    with open(out, "a") as f:
        f.write(json.dumps({"events": _STATS["events"],
                            "violations": [dict(v, extra=None) for c in _CTX.values() for v in c.violations],
                            "counters": {p: dict(c.counters) for p, c in _CTX.items()}}, default=repr) + "\n")
