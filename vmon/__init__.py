"""Runtime monitors for Pulser's semantic properties (see /verif/DESIGN.md)."""
