"""One shard of a check: python -m vmon.worker PID TIER SEED SHARD NSHARDS OUT [--only IDX]."""
from __future__ import annotations

import importlib
import json
import os
import sys
import traceback
import warnings


def main(argv: list[str]) -> int:
    pid, tier, seed, shard, nshards, out = argv[:6]
    seed, shard, nshards = int(seed), int(shard), int(nshards)
    only = None
    cases_override = None
    if "--only" in argv:
        only = int(argv[argv.index("--only") + 1])
    if "--cases" in argv:
        cases_override = int(argv[argv.index("--cases") + 1])
    from vmon import bootstrap, core

    ctx = core.Ctx(pid, tier, seed, shard, nshards)
    try:
        bootstrap.ensure_deps()
        bootstrap.activate()
    except Exception as e:  # incl. bootstrap.Inconclusive: the tree cannot be imported
        ctx.inconclusive.append(f"tree not importable: {type(e).__name__}: {e}")
        json.dump(ctx.dump(), open(out, "w"))
        return 2
    warnings.simplefilter("ignore")
    from vmon import reach
    reach_on = os.environ.get("VMON_REACH", "1") != "0" and reach.start(pid)
    import numpy as np

    np.seterr(all="ignore")
    mod = importlib.import_module(f"vmon.props.{pid.lower()}")
    cfg = mod.TIERS[tier]
    ncases = cases_override or cfg["cases"]
    if hasattr(mod, "setup"):
        mod.setup(ctx)
    idxs = [only] if only is not None else range(shard, ncases, nshards)
    for idx in idxs:
        ctx.case_idx, ctx.case = idx, None
        rng = core.case_rng(seed, pid, idx)
        np.random.seed(core.np_seed(seed, pid, idx))
        try:
            with core.watchdog(cfg.get("case_timeout", 120)):
                mod.run_case(ctx, idx, rng, tier)
            ctx.evaluations += 1
            if len(ctx.samples) < 3 and ctx.case is not None:
                ctx.sample({"case_index": idx, "case": ctx.case})  # every run writes out a few actual cases
        except core.CaseTimeout:
            ctx.inconclusive.append(f"case {idx}: watchdog fired")
        except Exception:
            ctx.harness_errors.append(f"case {idx}: " + traceback.format_exc()[-1500:])
    if hasattr(mod, "finish"):
        try:
            mod.finish(ctx)
        except Exception:
            ctx.harness_errors.append("finish: " + traceback.format_exc()[-1500:])
    d = ctx.dump()
    if reach_on:
        d["reach"] = reach.stop()
    with open(out, "w") as f:
        json.dump(d, f, default=repr)
    return 0


if __name__ == "__main__":
    sys.exit(main(sys.argv[1:]))
