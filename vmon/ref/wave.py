"""C16 reference: closed forms of the waveform kinds at their defining points (numpy only, no pulser).

Everything here is written from the class docstrings / the property statement:
  constant(d, v)            v at every ns
  ramp(d, a, b)             a at the first sample, b at the last, linear in between
  composite(parts)          concatenation
  custom(samples)           the input
  interpolated(d, v, t)     passes through (round(t_i * (d-1)), v_i)
  blackman / kaiser(d, A)   window shape times a positive factor such that sum * 1e-3 == A
"""
from __future__ import annotations

import math

import numpy as np


def constant(d: int, v: float) -> np.ndarray:
    return np.full(d, float(v))


def ramp(d: int, a: float, b: float) -> np.ndarray | None:
    """None when the defining points coincide (d == 1 with a != b has no closed form: only finiteness is demanded)."""
    if d == 1:
        return None
    i = np.arange(d, dtype=float)
    return float(a) + (float(b) - float(a)) * i / (d - 1)


def interp_points(d: int, values, times=None) -> tuple[np.ndarray, np.ndarray]:
    v = np.asarray(values, dtype=float)
    t = np.linspace(0.0, 1.0, len(v)) if times is None else np.asarray(times, dtype=float)
    pos = np.array([int(round(float(x))) for x in t * (d - 1)])
    return pos, v


def blackman_window(m: int) -> np.ndarray:
    if m == 1:
        return np.ones(1)
    n = np.arange(m, dtype=float)
    w = 0.42 - 0.5 * np.cos(2 * math.pi * n / (m - 1)) + 0.08 * np.cos(4 * math.pi * n / (m - 1))
    return np.clip(w, 0.0, None)


def kaiser_window(m: int, beta: float) -> np.ndarray:
    if m == 1:
        return np.ones(1)
    n = np.arange(m, dtype=float)
    x = 2 * n / (m - 1) - 1.0
    return np.clip(np.i0(beta * np.sqrt(np.clip(1 - x * x, 0.0, None))) / np.i0(beta), 0.0, None)


def window_max(kind: str, d: int, area: float, beta: float = 14.0) -> float:
    """Extreme value (signed like `area`) of the window waveform of duration d and integral `area`; nan if undefined."""
    w = blackman_window(d) if kind == "blackman" else kaiser_window(d, beta)
    s = float(np.sum(w))
    if s <= 0:
        return float("nan")
    return float(area) * 1e3 / s * float(np.max(w))


def sign_pattern(vals) -> str:
    return "".join("+" if v > 0 else "-" if v < 0 else "0" for v in vals)


def dur_bucket(d: int) -> str:
    if d <= 5:
        return str(d)
    return "6-15" if d <= 15 else "16-99" if d < 100 else "100-999" if d < 1000 else "1000+"


def dur_class(d: int) -> str:
    """Coarse duration class used in mechanism keys."""
    return "d=1" if d == 1 else "d<=2" if d == 2 else "d<=5" if d <= 5 else "d>5"


def wrap_pi(x: np.ndarray) -> np.ndarray:
    """x modulo 2 pi, centred: values in [-pi, pi)."""
    return (np.asarray(x, dtype=float) + math.pi) % (2 * math.pi) - math.pi
