"""Reference scheduling rules, written from the property statements (no pulser import)."""
from __future__ import annotations


def roundup(x: int, clock: int, min_dur: int) -> int:
    """Smallest clock multiple >= max(x, min_dur) for x > 0; 0 for x <= 0."""
    if x <= 0:
        return 0
    v = max(int(x), int(min_dur))
    return -(-v // clock) * clock


def start_time(t0: int, bounds: list[int], clock: int, min_dur: int) -> int:
    """Earliest admissible start: t0 plus the rounded-up wait to the latest bound."""
    return t0 + roundup(max([t0, *bounds]) - t0, clock, min_dur)


def retarget_delta(elapsed: int, min_interval: int, fixed_t: int, clock: int, min_dur: int) -> int:
    """Duration of a retarget slot: remaining part of the minimum interval between the ends of
    target instructions, at least the fixed retarget time, rounded to the channel grid."""
    need = min(max(min_interval - elapsed, 0), min_interval)
    need = max(need, fixed_t or 0)
    return roundup(need, clock, min_dur)
