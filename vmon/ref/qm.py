"""Reference quantum-mechanical definitions on dense numpy arrays (no pulser / qutip import)."""
from __future__ import annotations

import numpy as np


def as_rho(x: np.ndarray) -> np.ndarray:
    x = np.asarray(x, dtype=complex)
    if x.ndim == 1 or x.shape[1] == 1:
        v = x.reshape(-1)
        return np.outer(v, v.conj())
    return x


def site_op(op: np.ndarray, sites: dict, n: int, dim: int) -> np.ndarray:
    """Tensor product with op_k on site k for k in sites (identity elsewhere); sites: {index: matrix}."""
    out = np.array([[1.0 + 0j]])
    for k in range(n):
        out = np.kron(out, sites.get(k, np.eye(dim)))
    return out


def proj(dim: int, k: int) -> np.ndarray:
    m = np.zeros((dim, dim), dtype=complex)
    m[k, k] = 1
    return m


def occupation(rho, n: int, dim: int, one: int) -> list[float]:
    rho = as_rho(rho)
    return [float(np.trace(rho @ site_op(None, {i: proj(dim, one)}, n, dim)).real) for i in range(n)]


def correlation(rho, n: int, dim: int, one: int) -> np.ndarray:
    rho = as_rho(rho)
    P = proj(dim, one)
    out = np.zeros((n, n))
    for i in range(n):
        for j in range(n):
            sites = {i: P} if i == j else {i: P, j: P}
            out[i, j] = np.trace(rho @ site_op(None, sites, n, dim)).real
    return out


def expect(rho, O) -> complex:
    return complex(np.trace(as_rho(rho) @ np.asarray(O)))


def fidelity(target, rho) -> float:
    """|<s|psi>|^2 for two kets; <s|rho|s> / Tr(sigma rho) otherwise."""
    t, r = np.asarray(target, dtype=complex), np.asarray(rho, dtype=complex)
    tk, rk = (t.ndim == 1 or t.shape[1] == 1), (r.ndim == 1 or r.shape[1] == 1)
    if tk and rk:
        return float(abs(np.vdot(t.reshape(-1), r.reshape(-1))) ** 2)
    return float(np.trace(as_rho(t) @ as_rho(r)).real)


def bitstring_probs(rho, n: int, dim: int, one: int) -> dict[str, float]:
    p = np.real(np.diag(as_rho(rho))).reshape([dim] * n)
    out: dict[str, float] = {}
    for idx in np.ndindex(*([dim] * n)):
        b = "".join("1" if k == one else "0" for k in idx)
        out[b] = out.get(b, 0.0) + float(p[idx])
    tot = sum(out.values())
    return {k: v / tot for k, v in out.items()}
