"""Documented mode automaton of a Sequence (C13). No pulser import.

judge(op) -> (verdict, reason) with verdict in REFUSE / ALLOW / VALUE:
  REFUSE: the documented mode forbids the call, whatever its argument values;
  ALLOW:  the mode admits it (arguments are assumed value-valid by the caller);
  VALUE:  acceptance depends on argument values / timing, not on the mode: no verdict.
advance(op) is called only after the real call succeeded.
"""
from __future__ import annotations

REFUSE, ALLOW, VALUE = "REFUSE", "ALLOW", "VALUE"
BASIS = {"Rydberg": "ground-rydberg", "Raman": "digital", "Microwave": "XY", "DMM": "ground-rydberg"}


class Model:
    def __init__(self, chspecs: dict, reusable: bool, supports_slm: bool, mappable: bool, qids: list):
        self.spec = chspecs  # id -> dict(cls, addr, dmm(bool), eom(optional))
        self.reusable, self.supports_slm, self.mappable = reusable, supports_slm, mappable
        self.qids = list(qids)
        self.chans: dict[str, dict] = {}  # name -> dict(id, local, dmm, eom, target, basis, slm_wait)
        self.used: set[str] = set()
        self.mode = None  # None | "ising" | "xy"
        self.measured = False
        self.param = False
        self.slm = False
        self.slm_pending: str | None = None  # DMM id reserved by an SLM mask configured before any channel / in XY
        self.param_dmm: set = set()  # DMM ids claimed by deferred declarations of a parametrized sequence
        self.nonempty = False
        self.global_pulsed = False
        self.vars: set[str] = set()

    # ------------------------------------------------------------------------------------------
    def digest(self) -> tuple:
        return (self.mode, self.measured, self.param, self.slm, self.slm_pending, self.nonempty,
                tuple(sorted((n, c["id"], c["eom"], c["target"], c.get("slm_wait", False)) for n, c in self.chans.items())))

    def bases(self) -> set:
        return {c["basis"] for c in self.chans.values()}

    def avail_channel_ids(self) -> set:
        out = set()
        for cid, s in self.spec.items():
            if s.get("dmm"):
                continue
            xy = s["cls"] == "Microwave"
            if self.mode == "xy" and not xy:
                continue
            if self.mode == "ising" and xy:
                continue
            if cid in self.used and not self.reusable and self.mode is not None:
                continue
            out.add(cid)
        return out

    def dmm_available(self, did: str) -> bool:
        if did not in self.spec or not self.spec[did].get("dmm"):
            return False
        if self.mode == "xy":
            return False
        if self.reusable:
            return True
        if did in self.used:
            return False
        if self.slm_pending == did:
            return False
        return True

    def uses_var(self, op: dict) -> bool:
        def has(x):
            if isinstance(x, dict):
                return "e" in x or any(has(v) for v in x.values())
            if isinstance(x, (list, tuple)):
                return any(has(v) for v in x)
            return False
        return has({k: v for k, v in op.items() if k not in ("op", "_inv", "_probe")})

    # ------------------------------------------------------------------------------------------
    def judge(self, op: dict) -> tuple[str, str]:
        """A call that itself carries a variable is judged by the rules of the parametrized mode it brings about
        (it is stored, its value checks are deferred to build) - not by those of the mode it leaves."""
        if not self.param and self.uses_var(op) and op["op"] != "declare_variable":
            self.param = True
            try:
                return self._judge(op)
            finally:
                self.param = False
        return self._judge(op)

    def _judge(self, op: dict) -> tuple[str, str]:
        k = op["op"]
        ch = op.get("ch")
        c = self.chans.get(ch) if ch is not None else None
        if self.param and k == "config_detuning_map" and not self.reusable and self.mode != "xy" \
                and self.spec.get(op["dmm_id"], {}).get("dmm") \
                and (op["dmm_id"] in self.used or op["dmm_id"] in self.param_dmm):
            # ... except that a DMM taken by an earlier (also a deferred) declaration cannot be declared again
            return REFUSE, "dmm-unavailable"
        if self.param and (k in ("config_detuning_map", "config_slm_mask") or (isinstance(ch, str) and ch.startswith("dmm_"))
                           or (k == "align" and any(str(x).startswith("dmm_") for x in op.get("chs", [])))):
            # DMM declarations are deferred to build time on a parametrized sequence: their bookkeeping is not
            # part of the documented mode
            return VALUE, "deferred-dmm"
        timeline_ops = ("declare_channel", "target", "target_index", "add", "add_eom_pulse", "add_dmm_detuning",
                        "delay", "align", "enable_eom_mode", "modify_eom_setpoint", "disable_eom_mode",
                        "config_detuning_map", "measure")
        if self.measured and k in timeline_ops:
            return REFUSE, "measured"
        if k == "declare_channel":
            if op["name"] in self.chans:
                return REFUSE, "name-in-use"
            if op["name"].startswith("dmm_"):
                return REFUSE, "reserved-name"
            s = self.spec.get(op["ch_id"])
            if s is None or s.get("dmm"):
                return REFUSE, "unknown-id"
            xy = s["cls"] == "Microwave"
            if (self.mode == "xy" and not xy) or (self.mode == "ising" and xy):
                return REFUSE, "xy-ising-exclusive"
            if op["ch_id"] in self.used and not self.reusable:
                return REFUSE, "id-already-declared"
            if op.get("initial_target") is not None and s["addr"] == "Local":
                return VALUE, "initial-target"
            if self.slm_pending is not None and not xy and self.mode is None:
                return VALUE, "pending-slm-dmm-configured-now"
            return ALLOW, ""
        if k == "declare_variable":
            if op["name"] in self.vars or op["name"] in ("qubits", "seq_name", "json_dumps_options"):
                return REFUSE, "variable-name"
            return ALLOW, ""
        if k in ("target", "target_index"):
            if c is None:
                return REFUSE, "unknown-channel"
            if c["eom"]:
                return REFUSE, "in-eom-mode"
            if not c["local"]:
                return REFUSE, "not-local"
            if k == "target_index" and self.mappable and not self.param:
                return VALUE, "index-on-mappable"
            return VALUE, "target-values"
        if k == "add":
            if c is None:
                return REFUSE, "unknown-channel"
            if c["eom"]:
                return REFUSE, "in-eom-mode"
            if c["dmm"]:
                return REFUSE, "add-on-dmm"
            if self.param:
                return VALUE, "deferred"
            if c["local"] and not c["target"]:
                return REFUSE, "no-target"
            return ALLOW, ""
        if k == "add_eom_pulse":
            if c is None:
                return REFUSE, "unknown-channel"
            if not c["eom"]:
                return REFUSE, "not-in-eom-mode"
            return VALUE if self.param else ALLOW, ""
        if k == "add_dmm_detuning":
            if c is None:
                return REFUSE, "unknown-channel"
            if not c["dmm"]:
                return REFUSE, "not-a-dmm"
            if c.get("slm"):
                return VALUE, "slm-dmm (refused until the first global pulse)"
            return VALUE if self.param else ALLOW, ""
        if k == "delay":
            if c is None:
                return REFUSE, "unknown-channel"
            if c.get("slm"):
                return VALUE, "slm-dmm (refused until the first global pulse)"
            if self.param:
                return VALUE, "deferred"
            if c["local"] and not c["target"]:
                return VALUE, "no-target (delay(0) is a no-op)"
            return ALLOW, ""
        if k == "align":
            chs = op["chs"]
            if any(x not in self.chans for x in chs) or len(set(chs)) != len(chs) or len(chs) < 2:
                return REFUSE, "bad-channel-list"
            return VALUE, "timing"
        if k in ("phase_shift", "phase_shift_index"):
            if op.get("basis", "digital") not in self.bases():
                return REFUSE, "basis-not-addressed"
            if k == "phase_shift_index" and self.mappable and not self.param:
                return VALUE, "index-on-mappable"
            return VALUE, "targets"
        if k == "enable_eom_mode":
            if c is None:
                return REFUSE, "unknown-channel"
            if c["eom"]:
                return REFUSE, "already-in-eom-mode"
            if not self.spec[c["id"]].get("eom"):
                return REFUSE, "no-eom"
            return VALUE, "setpoint-values"
        if k in ("modify_eom_setpoint", "disable_eom_mode"):
            if c is None:
                return REFUSE, "unknown-channel"
            if not c["eom"]:
                return REFUSE, "not-in-eom-mode"
            return VALUE if k == "modify_eom_setpoint" or self.param else ALLOW, ""
        if k == "config_slm_mask":
            if not self.supports_slm:
                return REFUSE, "no-slm"
            if self.mappable:
                return REFUSE, "mappable-register"
            if self.param:
                return VALUE, "deferred"
            if self.slm:
                return REFUSE, "slm-twice"
            did = op.get("dmm_id", "dmm_0")
            if did not in self.spec or not self.spec[did].get("dmm"):
                return REFUSE if self.mode != "ising" or True else VALUE, "unknown-dmm"
            if self.mode == "ising":
                if self.measured:
                    return REFUSE, "measured (Ising: declares a DMM channel / schedules its pulse)"
                if not self.dmm_available(did):
                    return REFUSE, "dmm-unavailable"
                return VALUE, "auto-pulse"
            return ALLOW, ""
        if k == "config_detuning_map":
            did = op["dmm_id"]
            if did not in self.spec or not self.spec[did].get("dmm"):
                return REFUSE, "unknown-dmm"
            if self.mode == "xy":
                return REFUSE, "xy-ising-exclusive"
            if not self.dmm_available(did):
                return REFUSE, "dmm-unavailable"
            return ALLOW, ""
        if k == "measure":
            return VALUE, "basis"
        if k == "set_magnetic_field":
            if self.mode == "ising":
                return REFUSE, "not-xy"
            if self.nonempty:
                return REFUSE, "not-empty"
            return VALUE, "field-value"
        # ---- inspection ---------------------------------------------------------------------
        if k in ("get_duration", "current_phase_ref", "estimate_added_delay", "sample", "draw"):
            if self.param:
                return REFUSE, "parametrized"
            return VALUE, ""
        return VALUE, ""

    # ------------------------------------------------------------------------------------------
    def advance(self, op: dict) -> None:
        k = op["op"]
        if self.uses_var(op):
            self.param = True
        if k == "declare_channel":
            s = self.spec[op["ch_id"]]
            it = op.get("initial_target")
            self.chans[op["name"]] = {"id": op["ch_id"], "local": s["addr"] == "Local", "dmm": False, "eom": False,
                                      "target": s["addr"] != "Local" or it is not None, "basis": BASIS[s["cls"]]}
            self.used.add(op["ch_id"])
            self.mode = "xy" if s["cls"] == "Microwave" else "ising"
            if self.mode == "ising":
                self._declare_pending_slm()
        elif k == "declare_variable":
            self.vars.add(op["name"])
        elif k in ("target", "target_index"):
            self.chans[op["ch"]]["target"] = True
        elif k in ("add", "add_eom_pulse"):
            if not self.param:
                self.nonempty = True
                if not self.chans[op["ch"]]["local"]:
                    self.global_pulsed = True
                    for c in self.chans.values():
                        c["slm_wait"] = False
        elif k == "add_dmm_detuning":
            if not self.param:
                self.nonempty = True
        elif k == "enable_eom_mode":
            self.chans[op["ch"]]["eom"] = True
        elif k == "disable_eom_mode":
            self.chans[op["ch"]]["eom"] = False
        elif k == "config_detuning_map":
            if self.param:
                self.param_dmm.add(op["dmm_id"])
            self.mode = "ising"
            self._declare_pending_slm()  # a pending SLM mask claims its DMM first
            self._add_dmm(op["dmm_id"], wait=False)
        elif k == "config_slm_mask":
            if self.param:
                self.param_dmm.add(op.get("dmm_id", "dmm_0"))
                return
            self.slm = True
            did = op.get("dmm_id", "dmm_0")
            if self.mode == "ising":
                self._add_dmm(did, wait=not self.global_pulsed, slm=True)
            else:
                self.slm_pending = did
        elif k == "measure":
            self.measured = True
        elif k == "set_magnetic_field":
            self.mode = "xy"

    def _add_dmm(self, did: str, wait: bool, slm: bool = False) -> None:
        cnt = len([1 for c in self.chans.values() if c["dmm"] and c["id"] == did])
        name = did if not cnt else f"{did}_{cnt}"
        self.chans[name] = {"id": did, "local": False, "dmm": True, "eom": False, "target": True,
                            "basis": "ground-rydberg", "slm_wait": wait, "slm": slm}
        self.used.add(did)

    def _declare_pending_slm(self) -> None:
        if self.slm_pending is not None and self.mode == "ising":
            did, self.slm_pending = self.slm_pending, None
            self._add_dmm(did, wait=not self.global_pulsed, slm=True)
