"""C14 reference: the output modulation as a Gaussian low-pass, written in the *time domain*.

Derived from the property statement only (numpy; no pulser, no FFT):

* the filter is linear, time-invariant, has unit DC gain (area preserving) and a Gaussian transfer function whose
  gain at the modulation bandwidth ``bw`` (MHz) is one half:  H(f) = exp(-f^2 / fc^2),  fc = bw*1e-3 / sqrt(ln 2)
  (f in cycles per ns).  Its impulse response is  h(t) = fc*sqrt(pi) * exp(-(pi*fc*t)^2)  (t in ns);
* the output is reported on the window [-rise_time, len(x) + rise_time) of the input's time axis, i.e. output index
  i (= time in the sequence frame) is input time i - rise_time;
* rise_time = int(0.48 / bw * 1e3) ns.

A filter that is evaluated on a finite window can treat the window as periodic (any DFT filter does); the statement does
not say.  `lowpass()` therefore returns the linear convolution together with a per-sample bound of what periodic images
of the input may add, so that a monitor can form an interval instead of a point.
"""
from __future__ import annotations

import math
from fractions import Fraction

import numpy as np

LN2 = math.log(2.0)
TAIL_ABS = 0.01      # rad/us: the accounted fall time leaves at most this much ...
TAIL_REL = 0.006     # ... or this fraction of the pulse's peak (Gaussian tail one rise time beyond the padded window)


def cutoff(bw: float) -> float:
    """fc in cycles/ns such that exp(-(bw*1e-3)^2/fc^2) == 1/2."""
    return bw * 1e-3 / math.sqrt(LN2)


def rise_times(bw: float) -> set[int]:
    """Admissible values of int(0.48/bw*1e3): the exact rational floor and the two float evaluation orders."""
    exact = Fraction(48, 100) * 1000 / Fraction(bw)
    return {int(0.48 / bw * 1e3), int(480.0 / bw), int(exact)}


def truncation(bw: float) -> float:
    """How many ns int() removes from one rise time (exact rational arithmetic on the given float)."""
    exact = Fraction(48, 100) * 1000 / Fraction(bw)
    return float(exact - int(exact))


def rise_time(bw: float) -> int:
    return int(0.48 / bw * 1e3)


def alias_level(bw: float) -> float:
    """Gain of the Gaussian at the Nyquist frequency of 1-ns sampling: below this level a sampled filter cannot be told
    apart from the continuous one (1e-21 at 60 MHz, 3e-8 at 100 MHz)."""
    return math.exp(-0.25 / cutoff(bw) ** 2)


def kernel(bw: float, offsets: np.ndarray) -> np.ndarray:
    fc = cutoff(bw)
    return fc * math.sqrt(math.pi) * np.exp(-(math.pi * fc * np.asarray(offsets, dtype=float)) ** 2)


def lowpass(x: np.ndarray, bw: float, pad: int) -> tuple[np.ndarray, np.ndarray, np.ndarray]:
    """Time-domain Gaussian low-pass of `x` on the window [-pad, len(x)+pad).

    Returns (linear, periodic, images):
      linear   - direct convolution of x with the Gaussian (zero outside x);
      periodic - the same with the window of length len(x)+2*pad taken as periodic;
      images   - sum over k of |x[k]| times the kernel at all periodic images (a bound on |periodic - linear|).
    """
    x = np.asarray(x, dtype=float)
    L = len(x)
    N = L + 2 * pad
    M = L + pad
    h = kernel(bw, np.arange(-M, M + 1))
    linear = np.convolve(x, h)[M - pad: M + L + pad]          # full index j <-> time j - M
    d = np.arange(N)
    per_kernel = np.zeros(N)                                   # sum over images m of h(d + m*N)
    for m in range(-4, 5):
        per_kernel += kernel(bw, d + m * N)
    xp = np.zeros(N)
    xp[pad: pad + L] = x
    two = np.concatenate([per_kernel, per_kernel])            # two[j-k] == per_kernel[(j-k) mod N] for j in [N, 2N)
    periodic = np.convolve(xp, two)[N: 2 * N]
    images = np.convolve(np.abs(xp), two)[N: 2 * N] - np.convolve(np.abs(x), h)[M - pad: M + L + pad]
    return linear, periodic, np.maximum(images, 0.0)


def tone(n: int, bw: float, amp: float = 1.0, phase: float = 0.0) -> np.ndarray:
    t = np.arange(n, dtype=float)
    return amp * np.sin(2 * math.pi * bw * 1e-3 * t + phase)


def tone_length(bw: float, tr: int, periods: int = 6) -> int:
    """Whole number of periods (to the nearest ns), long enough to keep `periods` periods 3 rise times from both ends."""
    per = 1e3 / bw
    n_per = math.ceil((6 * tr + periods * per) / per) + 1
    return int(round(n_per * per))


def fit_tone(y: np.ndarray, t: np.ndarray, bw: float) -> tuple[float, float]:
    """Least-squares amplitude of a sinusoid of frequency bw (MHz) in y(t); returns (amplitude, max residual)."""
    w = 2 * math.pi * bw * 1e-3
    A = np.stack([np.sin(w * t), np.cos(w * t)], axis=1)
    coef, *_ = np.linalg.lstsq(A, y, rcond=None)
    res = y - A @ coef
    return float(math.hypot(coef[0], coef[1])), float(np.max(np.abs(res), initial=0.0))


def tail_bound(peak: float) -> float:
    return max(TAIL_ABS, TAIL_REL * peak)


def sign_pattern(x: np.ndarray) -> str:
    x = np.asarray(x, dtype=float)
    pos, neg = bool(np.any(x > 0)), bool(np.any(x < 0))
    return "mixed" if pos and neg else "nonneg" if pos else "nonpos" if neg else "zero"
