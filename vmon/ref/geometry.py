"""Exact-arithmetic reference for C12: which registers / layouts fit a device, and which device parameters are valid.

Written from the property statement and the documentation of the device parameters (fractions only, no pulser).
Every float is taken at its exact binary value (``Fraction(float)``), so the verdicts do not depend on any
floating-point evaluation order.  Three-valued: FINE / BAD / GRAY (GRAY = no verdict: documented 1e-6 tolerance on
distances, a relative 1e-9 band around the maximal radius, a product within 1e-9 of an integer for the filling).
"""
from __future__ import annotations

import math
from fractions import Fraction as Fr

FINE, BAD, GRAY = "fine", "bad", "gray"
ACCEPT, REJECT = "accept", "reject"

PREC = Fr(1, 10 ** 6)     # documented coordinate precision (um)
EDGE = Fr(1, 10 ** 10)    # slack for the float evaluation of a distance at the edge of a band
REL_R = Fr(1, 10 ** 9)    # relative gray band around the maximal radial distance
REL_FILL = Fr(1, 10 ** 9)


def exact(coords) -> list[tuple[Fr, ...]]:
    return [tuple(Fr(float(x)) for x in c) for c in coords]


def sqdist(a, b) -> Fr:
    return sum(((x - y) * (x - y) for x, y in zip(a, b)), Fr(0))


def sqnorm(a) -> Fr:
    return sum((x * x for x in a), Fr(0))


def _lt(d2: Fr, t: Fr) -> bool:
    """sqrt(d2) < t (exact)."""
    return t > 0 and d2 < t * t


def _ge(d2: Fr, t: Fr) -> bool:
    return t <= 0 or d2 >= t * t


def classify_pair(d2: Fr, dmin: Fr) -> str:
    """A pair violates when d < d_min - 1e-6 or the atoms are not distinct (d < 1e-6); it is surely fine when
    d >= d_min (and d >= 1e-6); in between the documented tolerance gives no verdict."""
    if _lt(d2, dmin - PREC - EDGE) or _lt(d2, PREC - EDGE):
        return BAD
    if _ge(d2, dmin) and _ge(d2, PREC + EDGE):
        return FINE
    return GRAY


def classify_radius(r2: Fr, rmax: Fr, integral: bool) -> str:
    if r2 > (rmax * (1 + REL_R)) ** 2:
        return BAD
    if r2 <= (rmax * (1 - REL_R)) ** 2:
        return FINE
    if integral:
        # integer coordinates (< 2**20): squares, sum and square root are exact in binary64, so the
        # comparison with the limit is exact whatever the evaluation order -> no gray needed.
        return FINE if r2 <= rmax * rmax else BAD
    return GRAY


def _integral(c) -> bool:
    return all(float(x) == math.floor(float(x)) and abs(float(x)) < 2 ** 20 for x in c)


def classify_coords(coords, *, dmin, rmax, nmax, kind: str = "atoms") -> dict:
    """coords: list of float tuples (in the order in which the ids are listed).
    dmin float; rmax int|None; nmax int|None (ignored for traps)."""
    n = len(coords)
    ex = exact(coords)
    D = Fr(float(dmin))
    out = {"n": n, "count": FINE, "V": set(), "G": set(), "F": set(), "GF": set(), "min_margin": None}
    if kind == "atoms" and nmax is not None and n > nmax:
        out["count"] = BAD
    margin = None
    # float prefilter (numpy-free, plain python) only to skip pairs far from any threshold
    fl = [tuple(float(x) for x in c) for c in coords]
    for i in range(n):
        for j in range(i + 1, n):
            df = math.dist(fl[i], fl[j])
            if df > float(dmin) + 1e-3 and df > 1e-3:
                continue
            v = classify_pair(sqdist(ex[i], ex[j]), D)
            m = abs(df - float(dmin))
            margin = m if margin is None else min(margin, m)
            if v == BAD:
                out["V"].add((i, j))
            elif v == GRAY:
                out["G"].add((i, j))
    if rmax is not None:
        R = Fr(rmax)
        for i in range(n):
            rf = math.hypot(*fl[i])
            if rf < float(rmax) - 1e-3:
                continue
            v = classify_radius(sqnorm(ex[i]), R, _integral(coords[i]))
            m = abs(rf - float(rmax))
            margin = m if margin is None else min(margin, m)
            if v == BAD:
                out["F"].add(i)
            elif v == GRAY:
                out["GF"].add(i)
    out["min_margin"] = margin
    return out


def verdict_coords(c: dict) -> tuple[str, list[str]]:
    reasons = []
    if c["count"] == BAD:
        reasons.append("count")
    if c["V"]:
        reasons.append("distance")
    if c["F"]:
        reasons.append("radius")
    if reasons:
        return REJECT, reasons
    if c["G"] or c["GF"]:
        return GRAY, (["distance~"] if c["G"] else []) + (["radius~"] if c["GF"] else [])
    return ACCEPT, []


def max_filling_bounds(ntraps: int, filling: float) -> tuple[int, int]:
    """(lo, hi): n <= lo surely allowed, n > hi surely too many (exact product, 1e-9 relative gray)."""
    p = ntraps * Fr(float(filling))
    return math.floor(p * (1 - REL_FILL)), math.floor(p * (1 + REL_FILL))


def classify_filling(n: int, ntraps: int, filling: float) -> str:
    lo, hi = max_filling_bounds(ntraps, filling)
    if n <= lo:
        return FINE
    if n > hi:
        return BAD
    return GRAY


def classify_layout(traps, layout_dim: int, dev: dict) -> tuple[str, list[str], dict]:
    """dev: plain dict of device parameters. Returns (verdict, reasons, coords classification)."""
    reasons = []
    if layout_dim > dev["dimensions"]:
        reasons.append("dimension")
    nt = len(traps)
    if nt < dev.get("min_layout_traps", 1):
        reasons.append("traps<min")
    if dev.get("max_layout_traps") is not None and nt > dev["max_layout_traps"]:
        reasons.append("traps>max")
    c = classify_coords(traps, dmin=dev["min_atom_distance"], rmax=dev.get("max_radial_distance"),
                        nmax=None, kind="traps")
    v, r = verdict_coords(c)
    if v == REJECT:
        reasons += ["trap-" + x for x in r]
    if reasons:
        return REJECT, reasons, c
    if v == GRAY:
        return GRAY, r, c
    return ACCEPT, [], c


def classify_register(coords, reg_dim: int, dev: dict, layout: dict | None = None) -> dict:
    """layout: None or {"traps": [...], "dim": int}. Returns dict(verdict, reasons, atoms=coords classification,
    layout=(verdict, reasons, cls) | None, filling=FINE/BAD/GRAY | None)."""
    reasons = []
    if reg_dim > dev["dimensions"]:
        reasons.append("dimension")
    c = classify_coords(coords, dmin=dev["min_atom_distance"], rmax=dev.get("max_radial_distance"),
                        nmax=dev.get("max_atom_num"), kind="atoms")
    v, r = verdict_coords(c)
    gray = []
    if v == REJECT:
        reasons += r
    elif v == GRAY:
        gray += r
    res = {"atoms": c, "layout": None, "filling": None}
    if layout is not None:
        lv, lr, lc = classify_layout(layout["traps"], layout["dim"], dev)
        res["layout"] = (lv, lr, lc)
        if lv == REJECT:
            reasons += ["layout:" + x for x in lr]
        elif lv == GRAY:
            gray += ["layout:" + x for x in lr]
        f = classify_filling(len(coords), len(layout["traps"]), dev.get("max_layout_filling", 0.5))
        res["filling"] = f
        if f == BAD:
            reasons.append("filling")
        elif f == GRAY:
            gray.append("filling~")
    res["verdict"] = REJECT if reasons else (GRAY if gray else ACCEPT)
    res["reasons"] = reasons or gray
    return res


# ------------------------------------------------------------------ device parameters (documentation of BaseDevice)
def _is_int(x) -> bool:
    return isinstance(x, int) and not isinstance(x, bool)


def channel_params_valid(c: dict) -> tuple[bool, str]:
    """c: plain dict (cls, addr, limits...). Valid = the documented constraints of Channel hold."""
    addr = c["addr"]
    for k in ("max_amp", "max_abs_detuning"):
        v = c.get(k)
        if v is not None and not v >= 0:
            return False, k
    for k in ("clock_period", "min_duration"):
        if not (c.get(k, 1) is not None and c.get(k, 1) > 0):
            return False, k
    md = c.get("max_duration", 10 ** 8)
    if md is not None and (md <= 0 or md < c.get("min_duration", 1)):
        return False, "max_duration"
    bw = c.get("mod_bandwidth")
    if bw is not None and not (0 < bw <= 350.0):   # documented upper limit MODBW_TO_TR*1e3 = 480 MHz; keep below
        return False, "mod_bandwidth"
    if c.get("min_avg_amp", 0) < 0:
        return False, "min_avg_amp"
    pj = c.get("custom_phase_jump_time")
    if pj is not None and pj < 0:
        return False, "custom_phase_jump_time"
    if addr == "Global":
        for k in ("min_retarget_interval", "fixed_retarget_t", "max_targets"):
            if c.get(k) is not None:
                return False, k
    else:
        if c.get("min_retarget_interval", 0) is None or c.get("min_retarget_interval", 0) < 0:
            return False, "min_retarget_interval"
        if c.get("fixed_retarget_t", 0) is None or c.get("fixed_retarget_t", 0) < 0:
            return False, "fixed_retarget_t"
        mt = c.get("max_targets")
        if mt is not None and mt <= 0:
            return False, "max_targets"
        if c.get("propagation_dir") is not None:
            return False, "propagation_dir"
    pd = c.get("propagation_dir")
    if pd is not None and (len(pd) != 3 or sum(pd) == 0):
        return False, "propagation_dir"
    if c.get("eom") and bw is None:
        return False, "eom"
    return True, ""


def channel_is_virtual(c: dict) -> bool:
    if c.get("cls") == "DMM":
        return any(c.get(k) is None for k in ("bottom_detuning", "total_bottom_detuning")) or \
            c.get("max_duration", 10 ** 8) is None
    und = [c.get("max_amp") is None, c.get("max_abs_detuning") is None, c.get("max_duration", 10 ** 8) is None]
    if c["addr"] == "Local":
        und.append(c.get("max_targets") is None)
    return any(und)


def dmm_params_valid(d: dict) -> tuple[bool, str]:
    bd, tbd = d.get("bottom_detuning"), d.get("total_bottom_detuning")
    if bd is not None and bd > 0:
        return False, "bottom_detuning"
    if tbd is not None and tbd > 0:
        return False, "total_bottom_detuning"
    if bd is not None and tbd is not None and bd < tbd:
        return False, "total>bottom"
    return channel_params_valid(dict(d, addr="Global", cls="DMM", max_amp=0, max_abs_detuning=None))


def device_params_valid(p: dict) -> tuple[bool, str]:
    """p: {"kind": "physical"|"virtual", device parameters..., "channels": [...], "dmm": [...]}."""
    virtual = p["kind"] == "virtual"
    if not isinstance(p.get("name"), str):
        return False, "name"
    if p.get("dimensions") not in (2, 3):
        return False, "dimensions"
    rl = p.get("rydberg_level")
    if not (_is_int(rl) and 50 <= rl <= 100):
        return False, "rydberg_level"
    if p.get("min_atom_distance") is None or not p["min_atom_distance"] >= 0:
        return False, "min_atom_distance"
    for k in ("max_atom_num", "max_radial_distance"):
        v = p.get(k)
        if v is None:
            if not virtual:
                return False, k
        elif not (_is_int(v) and v > 0):
            return False, k
    for k in ("max_sequence_duration", "max_runs", "max_layout_traps"):
        v = p.get(k)
        if v is not None and not (_is_int(v) and v > 0):
            return False, k
    mlt = p.get("min_layout_traps", 1)
    if not (_is_int(mlt) and mlt > 0):
        return False, "min_layout_traps"
    f = p.get("max_layout_filling", 0.5)
    if not (0 < f <= 1):
        return False, "max_layout_filling"
    of = p.get("optimal_layout_filling")
    if of is not None and not (0 < of <= f):
        return False, "optimal_layout_filling"
    mxt = p.get("max_layout_traps")
    if mxt is not None:
        if mxt < mlt:
            return False, "max_layout_traps<min"
        if p.get("max_atom_num") is not None:
            lo, hi = max_filling_bounds(mxt, f)
            if hi < p["max_atom_num"]:
                return False, "max_layout_traps*filling<max_atom_num"
            if lo < p["max_atom_num"]:
                return None, "filling-product~"   # gray
    chans, dmms = p.get("channels", []), p.get("dmm", [])
    for c in chans:
        ok, why = channel_params_valid(c)
        if not ok:
            return False, "channel:" + why
        if not virtual and channel_is_virtual(c):
            return False, "virtual-channel-in-device"
    for d in dmms:
        ok, why = dmm_params_valid(d)
        if not ok:
            return False, "dmm:" + why
        if not virtual and channel_is_virtual(dict(d, cls="DMM", addr="Global")):
            return False, "virtual-dmm-in-device"
    if p.get("supports_slm_mask", virtual) and not dmms:
        return False, "slm-without-dmm"
    ids = p.get("channel_ids")
    if ids is not None:
        if len(ids) != len(set(ids)) or len(ids) != len(chans):
            return False, "channel_ids"
        if set(ids) & {f"dmm_{i}" for i in range(len(dmms))}:
            return False, "channel_ids-clash"
    if any(c["cls"] == "Microwave" for c in chans) and not isinstance(p.get("interaction_coeff_xy"), float):
        return False, "interaction_coeff_xy"
    for traps in p.get("pre_calibrated_layouts", []) or []:
        if virtual:
            return False, "pre_calibrated_layouts-in-virtual"
        v, why, _ = classify_layout(traps, len(traps[0]), dict(p, min_layout_traps=mlt, max_layout_filling=f))
        if v == REJECT:
            return False, "pre_calibrated_layout:" + "+".join(why)
        if v == GRAY:
            return None, "pre_calibrated_layout~"
    return True, ""


# ------------------------------------------------------------------ exact points on a circle / sphere
def circle_points(r: int) -> list[tuple[int, int]]:
    """All integer points with x^2 + y^2 = r^2 (exactly on the circle, exactly representable)."""
    pts = []
    for x in range(-r, r + 1):
        y2 = r * r - x * x
        y = math.isqrt(y2)
        if y * y == y2:
            pts.append((x, y))
            if y:
                pts.append((x, -y))
    return pts


def sphere_points(r: int, limit: int = 400) -> list[tuple[int, int, int]]:
    pts = []
    for x in range(-r, r + 1):
        for y in range(-r, r + 1):
            z2 = r * r - x * x - y * y
            if z2 < 0:
                continue
            z = math.isqrt(z2)
            if z * z == z2:
                pts.append((x, y, z))
                if z:
                    pts.append((x, y, -z))
                if len(pts) >= limit:
                    return pts
    return pts


def rational_circle_point(r: int, m: int, n: int) -> tuple[float, float]:
    """The rational point r*((m^2-n^2), 2mn)/(m^2+n^2), rounded to binary64 (so only *nearly* on the circle)."""
    h = m * m + n * n
    return (float(Fr(r * (m * m - n * n), h)), float(Fr(r * 2 * m * n, h)))
