"""Reference renderer: per-channel and per-atom drive arrays from a plain timeline (numpy only)."""
from __future__ import annotations

import numpy as np


def channel_arrays(slots: list[dict], end: int) -> tuple[np.ndarray, np.ndarray]:
    """slots: dicts with ti, tf, amp (array), det (array). Returns (amp, det) of length `end`."""
    amp, det = np.zeros(end), np.zeros(end)
    for s in slots:
        amp[s["ti"]:s["tf"]] += s["amp"]
        det[s["ti"]:s["tf"]] += s["det"]
    return amp, det


def pad(amp, det, phase, n: int, det_off: float = 0.0):
    """Extension rule: zeros for the amplitude, the off-detuning (0 outside EOM mode) and the last phase."""
    k = n - len(amp)
    last = phase[-1] if len(phase) else 0.0
    return (np.concatenate([amp, np.zeros(k)]), np.concatenate([det, np.full(k, det_off)]),
            np.concatenate([phase, np.full(k, last)]))


def weights_for(trap_coords: np.ndarray, weights: np.ndarray, qubits: dict) -> dict:
    """Weight of each qubit = weight of the trap at its position (1e-6 um rounding), else 0."""
    table = {tuple(np.round(np.asarray(c, dtype=float), 6) + 0.0): float(w) for c, w in zip(trap_coords, weights)}
    return {q: table.get(tuple(np.round(np.asarray(c, dtype=float), 6) + 0.0), 0.0) for q, c in qubits.items()}


def per_atom(channels: list[dict], qubits: list, T: int, slm: tuple | None = None) -> dict:
    """channels: dict(basis, dmm(bool), weights(dict)|None, slots[ti,tf,targets,amp,det,phase,real]).

    Returns {basis: {q: dict(amp, det, ncover(int array), phase_one(array, nan where not exactly one real drive))}}.
    slm = (set of masked atoms, end time) applies to the XY basis only."""
    out: dict = {}
    for ch in channels:
        b = out.setdefault(ch["basis"], {})
        for s in ch["slots"]:
            for q in s["targets"]:
                if q not in qubits:
                    continue
                d = b.setdefault(q, {"amp": np.zeros(T), "det": np.zeros(T), "ncover": np.zeros(T, dtype=int),
                                     "phase_one": np.full(T, np.nan), "ndrive": np.zeros(T, dtype=int),
                                     "phase_drive": np.zeros(T)})
                ti, tf = s["ti"], s["tf"]
                off = 0
                if slm is not None and ch["basis"] == "XY" and q in slm[0]:
                    off = max(0, min(slm[1], tf) - ti)
                    ti = ti + off
                if ti >= tf:
                    continue
                w = ch["weights"].get(q, 0.0) if ch["dmm"] else 1.0
                d["amp"][ti:tf] += s["amp"][off:]
                d["det"][ti:tf] += s["det"][off:] * w
                d["phase_one"][ti:tf] = np.where(d["ncover"][ti:tf] == 0, s["phase"] if s["real"] else np.nan, np.nan)
                d["ncover"][ti:tf] += 1
                drv = np.asarray(s["amp"][off:]) != 0  # nanoseconds at which this slot really drives the atom
                d["ndrive"][ti:tf] += drv
                d["phase_drive"][ti:tf] += np.where(drv, s["phase"], 0.0)
    return out
