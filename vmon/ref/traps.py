"""Reference for C19: canonical trap numbering and the weight a detuning map gives a position.

Written from the statement (IDs by ascending x, then y, then z of the coordinates rounded to 1e-6 um) with exact decimal
arithmetic on the binary value of every float (decimal / fractions only, no pulser, no numpy rounding).
"""
from __future__ import annotations

import math
from decimal import ROUND_HALF_EVEN, Decimal, localcontext
from fractions import Fraction as Fr

SCALE = 10 ** 6
PREC = Fr(1, SCALE)
IN, OUT, GRAY = "in", "out", "gray"


def round6(x: float) -> tuple[int, bool]:
    """(k, ambiguous): k = x*1e6 rounded to the nearest integer (ties to even) in exact arithmetic; ambiguous when
    x*1e6 is so close to a half-integer (relative 1e-15: the representation error of a decimal literal such as
    1.0000005) that 'rounding to 1e-6' does not determine the result."""
    with localcontext() as c:
        c.prec = 120
        s = Decimal(float(x)) * SCALE
        k = int(s.to_integral_value(rounding=ROUND_HALF_EVEN))
        gap = Decimal("0.5") - abs(s - k)
        amb = gap <= abs(s) * Decimal("1e-15") + Decimal("1e-300")
    return k, bool(amb)


def rounded_value(k: int) -> float:
    """binary64 nearest to k * 1e-6."""
    return float(Fr(k, SCALE))


def canonical(coords) -> dict:
    """coords: sequence of float tuples (2D or 3D). Returns
    keys      - per point the integer tuple (kx, ky[, kz]);
    order     - original indices in canonical (ascending x, y, z of the rounded coordinates) order;
    collide   - two points have identical rounded coordinates (not a set of distinct traps: outside the domain);
    ambiguous - some coordinate is a rounding half-way case;
    may_collide - under some resolution of the ambiguous roundings two points collide or swap order."""
    keys, amb = [], []
    for p in coords:
        ks, am = zip(*(round6(float(x)) for x in p))
        keys.append(tuple(ks))
        amb.append(tuple(am))
    n = len(keys)
    order = sorted(range(n), key=lambda i: keys[i])
    collide = len(set(keys)) < n
    ambiguous = any(any(a) for a in amb)
    may = collide
    if ambiguous and not collide:
        # an ambiguous coordinate may resolve one unit away.  Walk the coordinates of every pair in order of
        # significance: a certain, non-zero difference decides the order; a certain tie defers to the next coordinate;
        # a difference that the ambiguous roundings could close (or reverse) makes order/collision uncertain.
        for i in range(n):
            for j in range(i + 1, n):
                for c in range(len(keys[i])):
                    slack = int(amb[i][c]) + int(amb[j][c])
                    d = abs(keys[i][c] - keys[j][c])
                    if slack == 0:
                        if d != 0:
                            break
                        continue
                    if d <= slack:
                        may = True
                    break
                if may:
                    break
            if may:
                break
    return {"keys": keys, "order": order, "collide": collide, "ambiguous": ambiguous, "may_collide": may,
            "amb": amb}


def has_near_ties(coords, keys) -> bool:
    """Deciding situation of C19: two points whose raw first coordinates differ but round to the same value (the
    order is decided by the next coordinate of the *rounded* points), points within 1e-5, or a signed zero."""
    n = len(keys)
    for i in range(n):
        if any(k == 0 and (math.copysign(1.0, float(x)) < 0 or float(x) != 0.0) for k, x in zip(keys[i], coords[i])):
            return True
        for j in range(i + 1, n):
            if keys[i][0] == keys[j][0] and float(coords[i][0]) != float(coords[j][0]):
                return True
            if all(abs(a - b) <= 10 for a, b in zip(keys[i], keys[j])):
                return True
    return False


def relation(q, trap_key, trap_amb, dim: int) -> str:
    """Is the trap (rounded coordinates k*1e-6) 'at the position' q?  IN: Euclidean distance <= 1e-6 (1-1e-3);
    OUT: > sqrt(dim)*1e-6 (1+1e-3), i.e. beyond 1e-6 in some coordinate under every reading; else GRAY."""
    qs = [Fr(float(x)) for x in q]
    cands = [[]]
    for k, a in zip(trap_key, trap_amb):
        opts = [k] if not a else [k - 1, k, k + 1]
        cands = [c + [o] for c in cands for o in opts]
    verdicts = set()
    lo2 = (PREC * (1 - Fr(1, 1000))) ** 2
    hi2 = dim * (PREC * (1 + Fr(1, 1000))) ** 2
    for c in cands:
        d2 = sum(((x - Fr(k, SCALE)) ** 2 for x, k in zip(qs, c)), Fr(0))
        verdicts.add(IN if d2 <= lo2 else (OUT if d2 > hi2 else GRAY))
    return verdicts.pop() if len(verdicts) == 1 else GRAY


def weight_interval(q, trap_keys, trap_ambs, weights, dim: int):
    """(lo, hi, n_in, n_gray) for the weight of a qubit at q; None when two or more traps are not clearly elsewhere
    (near-colliding traps: no single 'trap at its position')."""
    lo = hi = 0.0
    n_in = n_gray = 0
    for key, amb, w in zip(trap_keys, trap_ambs, weights):
        r = relation(q, key, amb, dim)
        if r == IN:
            lo += w
            hi += w
            n_in += 1
        elif r == GRAY:
            hi += w
            n_gray += 1
    if n_in + n_gray >= 2:
        return None
    return lo, hi, n_in, n_gray
