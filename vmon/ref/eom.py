"""Reference for the EOM off-detuning options, from the documented light-shift model (no pulser import).

Two beams (red, blue) drive the transition through an intermediate level detuned by Delta:
  Omega_eff = Omega_red * Omega_blue / (2 Delta),   lightshift = (c_blue Omega_blue^2 - c_red Omega_red^2) / (4 Delta).
The limiting beam cannot exceed max_limiting_amp. Below the crossover the two beams are balanced so that the lightshift
vanishes (Omega_limiting^2 = 2 Omega Delta / s, Omega_other^2 = 2 Omega Delta * s with s = sqrt(c_limiting / c_other));
above it the limiting beam sits at its maximum and the other beam makes up the effective Rabi frequency.
detuning_off options = detuning_on - lightshift(both beams) + lightshift(beams left on), one per switching combination.
"""
from __future__ import annotations

import math


def beam_rabi(omega: float, cfg: dict) -> dict:
    lim = cfg["limiting_beam"]
    other = "BLUE" if lim == "RED" else "RED"
    c = {"RED": cfg.get("red_shift_coeff", 1.0), "BLUE": cfg.get("blue_shift_coeff", 1.0)}
    s = math.sqrt(c[lim] / c[other])
    D = cfg["intermediate_detuning"]
    crossover = s * cfg["max_limiting_amp"] ** 2 / (2 * D)
    if omega <= crossover:
        base = 2 * omega * D
        return {lim: math.sqrt(base / s), other: math.sqrt(base * s)}
    return {lim: cfg["max_limiting_amp"], other: 2 * D * omega / cfg["max_limiting_amp"]}


def lightshift(omega: float, cfg: dict, beams_on: set) -> float:
    r = beam_rabi(omega, cfg)
    sign = {"RED": -cfg.get("red_shift_coeff", 1.0), "BLUE": cfg.get("blue_shift_coeff", 1.0)}
    return sum(sign[b] * r[b] ** 2 for b in beams_on) / (4 * cfg["intermediate_detuning"])


def switching_combos(cfg: dict) -> list[tuple]:
    ctrl = list(cfg["controlled_beams"])
    combos = [(b,) for b in ctrl]
    if len(ctrl) > 1 and cfg.get("multiple_beam_control", True):
        combos.append(("BLUE", "RED"))
    return combos


def detuning_off_options(omega: float, det_on: float, cfg: dict) -> list[tuple[float, tuple]]:
    offset = det_on - lightshift(omega, cfg, {"RED", "BLUE"})
    out = []
    for off in switching_combos(cfg):
        on = {"RED", "BLUE"} - set(off)
        out.append((offset + lightshift(omega, cfg, on), tuple(sorted(off))))
    return out
