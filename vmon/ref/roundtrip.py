"""C17 reference: numeric field-wise comparison of canonical views and the noise-model rules.

Written from the property statement and the NoiseModel docstring; imports no pulser (math only).
A *view* is a nested structure of dict / list / None / bool / int / float / complex / str in which a
dict that describes an object carries its class name under "__cls__".
"""
from __future__ import annotations

import math

NUM = (int, float, complex)


def is_num(x) -> bool:
    return isinstance(x, NUM) and not isinstance(x, bool)


def close(a, b, tol: float) -> bool:
    """|a-b| <= tol*max(1,|a|,|b|); NaN equals NaN, inf equals inf of the same sign; tol=0 -> exact."""
    if isinstance(a, complex) or isinstance(b, complex):
        a, b = complex(a), complex(b)
        return close(a.real, b.real, tol) and close(a.imag, b.imag, tol)
    a, b = float(a), float(b)
    if math.isnan(a) or math.isnan(b):
        return math.isnan(a) and math.isnan(b)
    if math.isinf(a) or math.isinf(b):
        return a == b
    if a == b:
        return True
    return abs(a - b) <= tol * max(1.0, abs(a), abs(b))


def _is_complex_dict(x) -> bool:
    return isinstance(x, dict) and set(x) == {"real", "imag"}


def diff(a, b, tol: float = 0.0, path: tuple = (), out: list | None = None, cap: int = 6) -> list:
    """List of (path, a, b, why) where the two views differ (tuples/lists already normalised by the view)."""
    out = [] if out is None else out
    if len(out) >= cap:
        return out
    if is_num(a) and is_num(b):
        if not close(a, b, tol):
            out.append((path, a, b, "value"))
        return out
    if isinstance(a, dict) and isinstance(b, dict):
        for k in list(a) + [k for k in b if k not in a]:
            if k not in b:
                out.append((path + (k,), a[k], "<missing>", "missing-after"))
            elif k not in a:
                out.append((path + (k,), "<missing>", b[k], "extra-after"))
            else:
                diff(a[k], b[k], tol, path + (k,), out, cap)
            if len(out) >= cap:
                break
        return out
    if isinstance(a, list) and isinstance(b, list):
        if len(a) != len(b):
            out.append((path, f"len {len(a)}", f"len {len(b)}", "length"))
            return out
        for i, (x, y) in enumerate(zip(a, b)):
            diff(x, y, tol, path + (i,), out, cap)
            if len(out) >= cap:
                break
        return out
    if is_num(a) and _is_complex_dict(b):
        out.append((path, a, b, "complex->dict"))
        return out
    if type(a) is not type(b) or a != b:
        why = "type" if type(a) is not type(b) else "value"
        out.append((path, a, b, why))
    return out


def locate(view, path: tuple) -> tuple[str, str]:
    """(class name of the innermost described object on the path, name of its field on the path)."""
    cls, field = "?", ""
    cur = view
    for k in path:
        if isinstance(cur, dict) and "__cls__" in cur:
            cls, field = cur["__cls__"], str(k)
        try:
            cur = cur[k]
        except (KeyError, IndexError, TypeError):
            break
    return cls, field


def strip(view, drop: tuple[str, ...]):
    """Copy of the view without the dict keys in `drop` (at any depth)."""
    if isinstance(view, dict):
        return {k: strip(v, drop) for k, v in view.items() if k not in drop}
    if isinstance(view, list):
        return [strip(v, drop) for v in view]
    return view


def jsonable(x, depth: int = 0):
    """Witness-friendly version of a view or value (complex -> [re, im])."""
    if isinstance(x, complex):
        return {"re": x.real, "im": x.imag}
    if isinstance(x, dict):
        return {str(k): jsonable(v, depth + 1) for k, v in x.items()}
    if isinstance(x, (list, tuple)):
        return [jsonable(v, depth + 1) for v in x]
    if isinstance(x, float) and not math.isfinite(x):
        return repr(x)
    return x


# ----------------------------------------------------------------------------- noise model
NOISE_TYPE_PARAMS = {
    "leakage": ("with_leakage",),
    "doppler": ("temperature",),
    "amplitude": ("laser_waist", "amp_sigma"),
    "SPAM": ("p_false_pos", "p_false_neg", "state_prep_error"),
    "dephasing": ("dephasing_rate", "hyperfine_dephasing_rate"),
    "relaxation": ("relaxation_rate",),
    "depolarizing": ("depolarizing_rate",),
    "eff_noise": ("eff_noise_rates", "eff_noise_opers"),
}
SIMCONFIG_NAME = {"noise_types": "noise", "state_prep_error": "eta", "p_false_pos": "epsilon",
                  "p_false_neg": "epsilon_prime"}


def _set(v) -> bool:
    """A parameter 'was set' when it is non-zero / True / a non-empty collection."""
    if v is None:
        return False
    if isinstance(v, (list, tuple)):
        return len(v) > 0
    return bool(v)


def expected_noise_types(kw: dict) -> set[str]:
    """Statement: 'a noise model's active types are exactly those whose parameters were set'."""
    return {t for t, ps in NOISE_TYPE_PARAMS.items() if any(_set(kw.get(p)) for p in ps)}


def relevant_params(kw: dict, types: set[str] | None = None) -> set[str]:
    """Parameters that matter for the active noise types (docstring of NoiseModel):
    the parameters of each active type, plus runs / samples_per_run when a random draw per run is needed
    (doppler; amplitude with amp_sigma != 0; SPAM with state_prep_error != 0). An undefined laser waist is not one.
    `types` overrides the types derived from the parameters (SimConfig names its noise types explicitly)."""
    types = expected_noise_types(kw) if types is None else set(types)
    rel: set[str] = set()
    for t in types:
        rel.update(NOISE_TYPE_PARAMS[t])
    if "doppler" in types or ("amplitude" in types and _set(kw.get("amp_sigma"))) \
            or ("SPAM" in types and _set(kw.get("state_prep_error"))):
        rel.update(("runs", "samples_per_run"))
    if kw.get("laser_waist") is None:
        rel.discard("laser_waist")
    return rel


def unused_params(kw: dict) -> set[str]:
    """Parameters that were set although no active noise type uses them (such a combination is outside C17's
    domain: the constructor is documented to warn about it)."""
    rel = relevant_params(kw)
    return {p for p, v in kw.items() if _set(v) and p not in rel and p != "noise_types"}
