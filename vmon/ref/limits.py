"""Three-valued accept/reject reference for a pulse on a channel (written from the statement; numpy only)."""
from __future__ import annotations

import math

import numpy as np

ACCEPT, REJECT, GRAY = "accept", "reject", "gray"
BAND = 1e-6  # documented rounding band on detunings


def classify(amp: np.ndarray, det: np.ndarray, chan: dict, weights: list[float] | None = None) -> tuple[str, str]:
    """chan: plain dict with the channel limits (None = undefined). Returns (verdict, reason)."""
    d = len(amp)
    if not (np.all(np.isfinite(amp)) and np.all(np.isfinite(det))):
        return REJECT, "non-finite"
    verdict, why = ACCEPT, ""

    def gray(r):
        nonlocal verdict, why
        if verdict == ACCEPT:
            verdict, why = GRAY, r

    mn, mx = chan.get("min_duration", 1), chan.get("max_duration")
    clk = chan.get("clock_period", 1)
    if d < mn:
        return REJECT, "duration<min"
    if mx is not None and d > mx:
        return REJECT, "duration>max"
    if mx is not None and -(-d // clk) * clk > mx:
        gray("rounded-duration>max")
    is_dmm = bool(chan.get("dmm"))
    max_amp = 0.0 if is_dmm else chan.get("max_amp")
    if max_amp is not None and np.any(amp > max_amp):
        return REJECT, "amp>max"
    mavg = chan.get("min_avg_amp", 0) or 0
    if mavg:
        mean = float(np.mean(amp))
        if 0 < mean < mavg * (1 - 1e-12):
            return REJECT, "avg-amp<min"
        if 0 < mean < mavg * (1 + 1e-12):
            gray("avg-amp~min")
    mad = chan.get("max_abs_detuning")
    if mad is not None:
        top = float(np.max(np.abs(det)))
        if top > mad + BAND:
            return REJECT, "det>max"
        if top > mad:
            gray("det~max")
    if is_dmm:
        if np.any(det > BAND):
            return REJECT, "dmm-positive"
        if np.any(det > 0):
            gray("dmm~0")
        lo = float(np.min(det))
        w = list(weights or [1.0])
        wmax, wsum = max(w), sum(w)
        bd, tbd = chan.get("bottom_detuning"), chan.get("total_bottom_detuning")
        if bd is not None:
            if wmax * lo < bd - BAND * max(wmax, 1.0) - 1e-9:
                return REJECT, "dmm<bottom"
            if wmax * lo < bd + 1e-9:
                if wmax * lo < bd:
                    gray("dmm~bottom")
        if tbd is not None:
            if wsum * lo < tbd - BAND * max(wsum, 1.0) - 1e-9:
                return REJECT, "dmm<total-bottom"
            if wsum * lo < tbd:
                gray("dmm~total-bottom")
    return verdict, why


def next_multiple(d: int, clk: int) -> int:
    return -(-d // clk) * clk


def nextafter(x: float, up: bool) -> float:
    return math.nextafter(x, math.inf if up else -math.inf)
