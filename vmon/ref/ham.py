"""Dense reference Hamiltonian by explicit numpy.kron, from the documented formula (no pulser / qutip import).

H(t) = sum_i sum_bases [ c_i |a><b|_i + conj(c_i) |b><a|_i - delta_i |b><b|_i ] + interaction,
with c_i = sum over drives of Omega/2 * exp(-i phi), |b> the higher-energy state of the basis,
states ordered by energy rank (u, d, r, g, h, x) restricted to the states in use, tensor order = register order.
"""
from __future__ import annotations

import json
import os

import numpy as np

RANK = ["u", "d", "r", "g", "h", "x"]
TRANSITION = {"ground-rydberg": ("g", "r"), "digital": ("h", "g"), "XY": ("d", "u")}  # (a, b): b higher in energy
BASIS_STATES = {"ground-rydberg": ["r", "g"], "digital": ["g", "h"], "XY": ["u", "d"]}
_C6 = None


def c6(level: int) -> float:
    """C6/hbar (rad/us um^6) from a frozen copy of the published table."""
    global _C6
    if _C6 is None:
        _C6 = json.load(open(os.path.join(os.path.dirname(__file__), "C6_table_golden.json")))
    return float(_C6[str(level)])


def states_in_use(used_bases: set, in_xy: bool) -> list[str]:
    if not used_bases:
        used_bases = {"XY" if in_xy else "ground-rydberg"}
    s = set()
    for b in used_bases:
        s |= set(BASIS_STATES[b])
    return [x for x in RANK if x in s]


def op_on(site_op: np.ndarray, i: int, n: int, dim: int) -> np.ndarray:
    out = np.array([[1.0 + 0j]])
    for k in range(n):
        out = np.kron(out, site_op if k == i else np.eye(dim))
    return out


def two_site(op_i: np.ndarray, i: int, op_j: np.ndarray, j: int, n: int, dim: int) -> np.ndarray:
    out = np.array([[1.0 + 0j]])
    for k in range(n):
        out = np.kron(out, op_i if k == i else (op_j if k == j else np.eye(dim)))
    return out


def ketbra(states: list[str], x: str, y: str) -> np.ndarray:
    m = np.zeros((len(states), len(states)), dtype=complex)
    m[states.index(x), states.index(y)] = 1.0
    return m


def hamiltonian(states: list[str], coords: list[np.ndarray], drives: dict, *, c6_coeff: float | None,
                c3_coeff: float | None = None, field: np.ndarray | None = None, decoupled: set | None = None) -> np.ndarray:
    """drives: {(atom index, basis): (c, delta)} with c the complex half-Rabi coupling.

    decoupled: indices of atoms taking no part in the XY exchange at this time (SLM mask on)."""
    n, dim = len(coords), len(states)
    H = np.zeros((dim ** n, dim ** n), dtype=complex)
    for (i, basis), (c, delta) in drives.items():
        a, b = TRANSITION[basis]
        if a not in states or b not in states:
            continue
        H += c * op_on(ketbra(states, a, b), i, n, dim)
        H += np.conj(c) * op_on(ketbra(states, b, a), i, n, dim)
        H += -delta * op_on(ketbra(states, b, b), i, n, dim)
    if n > 1:
        if c3_coeff is not None and "u" in states:
            B = np.asarray(field, dtype=float)
            for i in range(n):
                for j in range(i + 1, n):
                    if decoupled and (i in decoupled or j in decoupled):
                        continue
                    d = np.zeros(3)
                    d[: len(coords[i])] = np.asarray(coords[i], dtype=float) - np.asarray(coords[j], dtype=float)
                    R = np.linalg.norm(d)
                    cos = float(np.dot(d, B) / (R * np.linalg.norm(B)))
                    U = c3_coeff * (1 - 3 * cos ** 2) / R ** 3
                    ex = two_site(ketbra(states, "u", "d"), i, ketbra(states, "d", "u"), j, n, dim)
                    H += U * (ex + ex.conj().T)
        elif c6_coeff is not None and "r" in states:
            nr = ketbra(states, "r", "r")
            for i in range(n):
                for j in range(i + 1, n):
                    R = np.linalg.norm(np.asarray(coords[i], dtype=float) - np.asarray(coords[j], dtype=float))
                    H += c6_coeff / R ** 6 * two_site(nr, i, nr, j, n, dim)
    return H
