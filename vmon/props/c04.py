"""C04 — sequence serialisation round-trips and is schema-valid."""
import copy
import json
import warnings

from vmon import gen, objs, param, prog
from vmon.props.c08 import concrete_program
from vmon.snap import snapshot, timeline_diff

LEVEL = "exploration"
RULE = ("online-generated programs (every operation, waveform kind, protocol, optional arguments at default and "
        "non-default values, positional and keyword call styles, measurement, SLM, DMM, EOM, XY field) on built-in, virtual "
        "and physical generated devices with concrete, layout-based and mappable registers; both the built sequence and "
        "a parametrized template of it (variable expressions in every numeric position) are serialised: the JSON is "
        "validated with jsonschema against the tree's sequence schema, decoded, and the decoded sequence must be "
        "behaviourally identical (device, register, channels, timeline, samples 1e-9, phase references, measurement; "
        "parametrized: equal builds for two assignments), serialisation must be idempotent; legacy JSON likewise for "
        "built-in and virtual devices. non-trivial = distinct case with >= 3 op kinds and >= 1 non-default optional")
RULE += " Later additions: templates also use strided slices of a variable as interpolation values with the times left out."
ASSUMPTIONS = ["3D detuning maps are outside the abstract format (no z coordinate in its schema): such cases are gray",
               "qubit ids are strings; programs contain no deliberately invalid calls (cases tainted by a C09 partial effect are set aside)"]
TIERS = {"quick": dict(cases=400, shards=8, case_timeout=180, shard_timeout=900),
         "thorough": dict(cases=6400, shards=16, case_timeout=180, shard_timeout=3000)}
FLOORS = {"quick": {"abstract_roundtrips": 400, "schema_validations": 400, "param_builds_compared": 200, "legacy_roundtrips": 150},
          "thorough": {"abstract_roundtrips": 6000}}
WEIGHTS = {"sample": 0, "str": 0, "to_abstract_repr": 0, "build_copy": 0, "queries": 0, "get_duration": 0,
           "estimate_added_delay": 0, "is_in_eom_mode": 0, "current_phase_ref": 0, "measure": 0.5,
           "target_index": 1.5, "phase_shift_index": 1.0, "set_magnetic_field": 0.3, "config_slm_mask": 0.8,
           "config_detuning_map": 1.2, "enable_eom_mode": 1.5, "disable_eom_mode": 1.2, "modify_eom_setpoint": 1.0}
OPTIONALS = ("protocol", "at_rest", "pps", "cpd", "opt_off", "basis", "dmm_id", "initial_target", "style")


def same_objects(ctx, a, b, what: str, case) -> None:
    try:
        eq = a == b
    except Exception as e:
        eq = False
    if not eq:
        ctx.violation(what + "-differs", f"decoded {what} != original: {b!r} vs {a!r}"[:500], what + "-differs", case=case)


def roundtrip_abstract(ctx, seq, case, tag: str, mapping=None, values=None):
    from pulser import Sequence

    with warnings.catch_warnings():
        warnings.simplefilter("ignore")
        try:
            s = seq.to_abstract_repr(seq_name="c04") if True else None
        except Exception as e:
            ctx.violation("serialise-raises", f"to_abstract_repr ({tag}) raised {type(e).__name__}: {str(e)[:200]}",
                          f"serialise-raises:{tag}:{type(e).__name__}", case=case)
            return None
        ctx.count("schema_validations")
        errs = sorted(param.schema_validator("sequence").iter_errors(json.loads(s)), key=lambda e: list(e.path))
        if errs:
            e = errs[0]
            ctx.violation("schema-invalid", f"serialised sequence ({tag}) violates the published schema at "
                          f"{'/'.join(map(str, e.path))}: {e.message[:200]}", f"schema-invalid:{tag}", case=case)
        try:
            seq2 = Sequence.from_abstract_repr(s)
        except Exception as e:
            ctx.violation("deserialise-raises", f"from_abstract_repr ({tag}) raised {type(e).__name__}: {str(e)[:200]}",
                          f"deserialise-raises:{tag}:{type(e).__name__}", case=case)
            return None
        ctx.count("abstract_roundtrips")
        same_objects(ctx, seq.device, seq2.device, "device", case)
        ra, rb = seq.get_register(include_mappable=True), seq2.get_register(include_mappable=True)
        if type(ra) is not type(rb) or [str(q) for q in ra.qubit_ids] != [str(q) for q in rb.qubit_ids]:
            ctx.violation("register-differs", f"decoded register {rb!r} vs {ra!r}"[:300], "register-differs", case=case)
        elif hasattr(ra, "qubits"):
            import numpy as np
            for (qa, ca), (qb, cb) in zip(ra.qubits.items(), rb.qubits.items()):
                if not np.allclose(np.asarray(ca), np.asarray(cb), atol=1e-9):
                    ctx.violation("register-differs", f"qubit {qa} at {ca} decoded at {cb}", "register-coords", case=case)
            if (ra.layout is None) != (rb.layout is None) or (ra.layout is not None and ra.layout != rb.layout):
                ctx.violation("register-differs", "register layout lost or changed", "register-layout", case=case)
        else:
            same_objects(ctx, ra.layout, rb.layout, "layout", case)
        # a parametrized template is compared through its builds (below); its pre-build internals are not behaviour
        d = timeline_diff(snapshot(seq), snapshot(seq2), tol=1e-9) if not seq.is_parametrized() else []
        if d:
            ctx.violation("timeline-differs", f"decoded sequence ({tag}) differs: {d[:3]}", f"timeline-differs:{tag}", case=case)
        if not seq.is_parametrized() and sorted(seq.declared_channels) != sorted(seq2.declared_channels):
            ctx.violation("channels-differ", f"declared channels {sorted(seq.declared_channels)} vs "
                          f"{sorted(seq2.declared_channels)}", "channels-differ", case=case)
        if seq.is_parametrized() != seq2.is_parametrized():
            ctx.violation("flags-differ", "is_parametrized differs after decoding", "flags-differ:parametrized", case=case)
        if seq.is_measured() != seq2.is_measured():
            lost = seq.is_parametrized() and getattr(seq, "_measurement", None) is not None and not seq.is_measured()
            ctx.violation("flags-differ", f"is_measured() {seq.is_measured()} vs decoded {seq2.is_measured()}",
                          "measured-before-parametrized-reports-unmeasured" if lost else "flags-differ:measured", case=case)
        try:
            s2 = seq2.to_abstract_repr(seq_name="c04")
            ctx.count("idempotence_checks")
            if json.loads(s2) != json.loads(s):
                a, b = json.loads(s), json.loads(s2)
                k = next((k for k in a if a.get(k) != b.get(k)), "?")
                ctx.violation("not-idempotent", f"re-serialising the decoded sequence changes the document (key {k})",
                              f"not-idempotent:{k}", case=case)
        except Exception as e:
            ctx.violation("serialise-raises", f"re-serialising the decoded sequence raised {e!r}"[:300],
                          "reserialise-raises", case=case)
        return seq2


def roundtrip_legacy(ctx, seq, case, tag):
    import pulser
    from pulser import Sequence
    from pulser.devices import VirtualDevice

    if not (isinstance(seq.device, VirtualDevice) or seq.device in (pulser.AnalogDevice, pulser.DigitalAnalogDevice)):
        return None
    with warnings.catch_warnings():
        warnings.simplefilter("ignore")
        try:
            seq2 = Sequence._deserialize(seq._serialize())
        except Exception as e:
            ctx.violation("legacy-raises", f"legacy JSON round trip ({tag}) raised {type(e).__name__}: {str(e)[:200]}",
                          f"legacy-raises:{tag}:{type(e).__name__}", case=case)
            return None
    ctx.count("legacy_roundtrips")
    same_objects(ctx, seq.device, seq2.device, "legacy-device", case)
    d = timeline_diff(snapshot(seq), snapshot(seq2), tol=1e-9) if not seq.is_parametrized() else []
    if d:
        ctx.violation("legacy-differs", f"legacy-decoded sequence ({tag}) differs: {d[:3]}", f"legacy-differs:{tag}", case=case)
    return seq2


def run_case(ctx, idx, rng, tier):
    xy = rng.random() < 0.15
    dev = gen.gen_device(rng, xy=xy, max_seq=0.15, p_builtin=0.25, p_physical=0.25)
    mapp = rng.random() < 0.25
    regB = gen.gen_register(rng, dev, nmin=1, nmax=4, kind="layout" if mapp else None)
    ops, rB = concrete_program(ctx, rng, dev, regB, weights=WEIGHTS, styles=True, maps_by_traps=mapp)
    if ops is None:
        ctx.count("discarded_after_C09")
        return
    dim3 = len((regB.get("coords") or regB.get("traps"))[0]) == 3
    has_dmm = any(o["op"] in ("config_detuning_map", "config_slm_mask") for o in ops)
    case = {"device": dev, "register": regB, "ops": ops}
    ctx.case = case
    kinds = {o["op"] for o in ops}
    if len(kinds) >= 3 and any(k in o for o in ops for k in OPTIONALS):
        ctx.mark_nontrivial(("c04", idx))
    # ---- (1) built sequence ---------------------------------------------------------------------
    if dim3 and has_dmm:
        ctx.gray("3d-detuning-map")
    else:
        roundtrip_abstract(ctx, rB.seq, case, "built")
    roundtrip_legacy(ctx, rB.seq, case, "built")
    # ---- (2) parametrized template --------------------------------------------------------------
    t = param.Templ(rng, p=0.4, custom_var=False, strided=True)  # the schema has no variable form for custom samples
    T = [t.op(o, regB["ids"]) for o in ops]
    if mapp:
        T = [o for o in T if o["op"] != "config_slm_mask"]
        regA = {"kind": "mappable", "traps": regB["traps"], "ids": regB["ids"]}
        mapping = {q: tid for q, tid in zip(regB["ids"], regB["trap_ids"])}
    else:
        regA, mapping = regB, None
    case = {"device": dev, "register": regA, "template": t.decls + T, "v1": t.values}
    rA = prog.Runner(ctx, dev, regA, [], env=objs.Env("param"))
    ctx.case = case
    for o in t.decls + T:
        ev = rA.step(copy.deepcopy(o))
        if ev.exc is not None:
            ctx.gray("template-call-refused:" + o["op"])
            return
    ctx.case = case
    seqA = rA.seq
    if dim3 and has_dmm:
        return
    seqA2 = roundtrip_abstract(ctx, seqA, case, "template", mapping)
    legA2 = roundtrip_legacy(ctx, seqA, case, "template")
    v1 = dict(t.values)
    v2 = param.perturb(rng, t.values, t.kinds)
    for other, fmt in ((seqA2, "abstract"), (legA2, "legacy")):
        if other is None or not (seqA.is_parametrized() or mapping):
            continue
        for tag, vals in (("v1", v1), ("v2", v2)):
            res = []
            for s_ in (seqA, other):
                try:
                    with warnings.catch_warnings():
                        warnings.simplefilter("ignore")
                        res.append(("ok", s_.build(**copy.deepcopy(vals), **({"qubits": mapping} if mapping else {}))))
                except Exception as e:
                    res.append(("raise", e))
            ctx.count("param_builds_compared")
            if res[0][0] != res[1][0]:
                ctx.violation("param-build-differs", f"{fmt}: build({tag}) of the original {res[0][0]}s but of the decoded copy "
                              f"{res[1][0]}s ({res[0][1] if res[0][0] == 'raise' else res[1][1]!r})"[:400],
                              f"param-build-accept-differs:{fmt}", case=case)
            elif res[0][0] == "ok":
                d = timeline_diff(snapshot(res[0][1]), snapshot(res[1][1]), tol=1e-9)
                if d:
                    ctx.violation("param-build-differs", f"{fmt}: build({tag}) of the decoded template differs: {d[:3]}",
                                  f"param-build-differs:{fmt}", case=case)
    # ---- (3) the sequence built from the template is a sequence too: its record holds the *built* values (0-d and
    #      1-d arrays, numpy scalars) where a directly written program holds Python literals -------------------------
    if seqA.is_parametrized() or mapping:
        try:
            with warnings.catch_warnings():
                warnings.simplefilter("ignore")
                builtA = seqA.build(**copy.deepcopy(v1), **({"qubits": mapping} if mapping else {}))
        except Exception:
            builtA = None
        if builtA is not None:
            ctx.count("built_from_template_roundtrips")
            roundtrip_abstract(ctx, builtA, case, "built-from-template")
            roundtrip_legacy(ctx, builtA, case, "built-from-template")
    ctx.sample({k: (v if k not in ("template", "ops") else v[:12]) for k, v in case.items()})
