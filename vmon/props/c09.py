"""C09 — a sequence is exactly the effect of its successful calls."""
from vmon import gen, invalid, prog
from vmon.atomic import AtomicMonitor

LEVEL = "fault_enumeration"
SOAK = True  # thorough tier also runs the repository's own tests with this monitor attached (vmon/pytest_plugin.py)
RULE = ("online-generated valid histories; at every position a sample of the invalid-call catalogue applicable in "
        "that state is injected (plus organically failing calls: over-long sequences, refused targets ...); after every "
        "raising or read-only call the full snapshot must equal the one before; at checkpoints build / switch_register "
        "/ abstract-repr / legacy-JSON replicas must have the original's timeline. non-trivial = distinct "
        "(case, invalid-call kind, op, rejection reason) where the call raised on a sequence with a non-empty timeline")
RULE += " Later additions: every third history declares a second variable whose size and type vary from case to case under one name."
ASSUMPTIONS = ["the snapshot covers slots, EOM blocks, phase trackers, mode flags, measurement, call-log lengths/names, variables",
               "replica checks are skipped after a partial-effect raise in the same history (reported once, at its cause)"]
TIERS = {"quick": dict(cases=500, shards=8, case_timeout=180, shard_timeout=900),
         "thorough": dict(cases=8000, shards=16, case_timeout=180, shard_timeout=3000)}
FLOORS = {"quick": {"raising_calls_checked": 5000, "readonly_calls_checked": 500, "replicas_checked": 500,
                    "raise:slm-dmm-waiting-align": 15},
          "thorough": {"raising_calls_checked": 80000}}
WEIGHTS = {"get_duration": 0.6, "str": 0.3, "sample": 0.4, "current_phase_ref": 0.3, "estimate_added_delay": 0.6,
           "to_abstract_repr": 0.15, "build_copy": 0.15, "queries": 0.3, "is_in_eom_mode": 0.3, "measure": 0.1,
           "target": 3.0, "enable_eom_mode": 1.8, "align": 2.0, "draw": 0.04}


def run_case(ctx, idx, rng, tier):
    mapp = idx % 7 == 3
    dev, reg = gen.header(rng, max_seq=0.5, p_builtin=0.2, **({"kind": "layout", "ids": "str"} if mapp else {}))
    mapping = None
    if mapp:  # the same kind of history on a mappable register (build is then the way to a concrete sequence)
        mapping = dict(zip(reg["ids"], reg["trap_ids"]))
        reg = {"kind": "mappable", "traps": reg["traps"], "ids": reg["ids"]}
    mon = AtomicMonitor(ctx)
    from vmon import objs
    r = prog.Runner(ctx, dev, reg, [mon], env=objs.Env("param"))
    r.mapping = mapping
    own_var = rng.random() < 0.5
    if own_var:  # a declared (still unused) variable: the sequence stays non-parametrized until a call *succeeds* with it
        r.step({"op": "declare_variable", "name": "cv", "dtype": "int"})
    if idx % 3 == 1:
        # a second declared variable whose size and type differ from case to case under ONE name: what the replicas
        # (legacy JSON in particular) make of it must not depend on what this process decoded before
        shape = [(None, "float"), (2, "int"), (3, "float"), (1, "int"), (2, "float")][(idx // 3) % 5]
        r.step({"op": "declare_variable", "name": "aux", "dtype": shape[1], **({"size": shape[0]} if shape[0] else {})})
        ctx.count("histories_with_a_variable_of_varying_shape")
    g = gen.ProgGen(rng, dev, reg, r.chspecs, weights=WEIGHTS, styles=True)
    g.motifs["slm-late"] = 0.5
    n = rng.randint(6, 30)
    k_inject = 6 if tier == "quick" else 10
    for i in range(n):
        op = g.next_op()
        ev = r.step(op)
        g.update(op, ev.exc is None)
        # ---- fault injection at this position --------------------------------------
        ends = {nm: (c["slots"][-1]["tf"] if c["slots"] else 0) for nm, c in ev.post["chans"].items()}
        cat = invalid.invalid_ops(g, rng, ch_ends=ends)
        if own_var and g.chans:
            nm = next(iter(g.chans))
            cat.append(("own-variable-refused", {"op": "delay", "duration": {"e": "var", "name": "cv"}, "ch": "nope"}))
            cat.append(("own-variable-refused", {"op": "add_eom_pulse", "ch": nm if not g.chans[nm]["eom"] else "nope",
                                                 "duration": {"e": "var", "name": "cv"}, "phase": 0.0}))
            cat.append(("own-variable-refused", {"op": "align", "chs": [nm]}))
            # an own variable first, then one of another sequence: refused for the second, after the first was accepted
            b0 = sorted({c["basis"] for c in g.chans.values()})[0]
            cat.append(("own-then-foreign-variable", {"op": "phase_shift", "phi": {"e": "var", "name": "cv"},
                                                      "targets": [{"e": "foreign", "name": "fv"}], "basis": b0}))
            cat.append(("own-then-foreign-variable", {"op": "add_eom_pulse", "ch": nm, "duration": {"e": "var", "name": "cv"},
                                                      "phase": {"e": "foreign", "name": "fv"}}))
        rng.shuffle(cat)
        for kind, bad in cat[:k_inject]:
            bad = dict(bad, _inv=kind)
            e2 = r.step(bad)
            ctx.count("injected")
            if e2.exc is None and e2.stage == "call":
                ctx.count("injected_but_accepted:" + kind)
            g.update(bad, e2.exc is None and e2.stage == "call")
        if i % 7 == 6:
            mon.checkpoint(r)
    mon.checkpoint(r)
    r.finish()
    ctx.sample({k: (v if k != "ops" else v[:25]) for k, v in r.prog.items()})
