"""C02 — channel timelines are gap-free, non-overlapping, clock-aligned, append-only."""
from vmon import gen, prog
from vmon.seqmon import TilingMonitor

LEVEL = "exploration"
SOAK = True  # thorough tier also runs the repository's own tests with this monitor attached (vmon/pytest_plugin.py)
RULE = ("online-generated building histories (all ops, all protocols, failing calls interleaved) on random channel "
        "configurations; invariant checked after every call. non-trivial = history with >= 2 channels, >= 1 "
        "auto-inserted delay and >= 1 clock/min-duration rounding (distinct case indices)")
RULE += " Later additions: the reported pending fall time is also capped independently of Pulse.fall_time (twice the applicable rise time)."
ASSUMPTIONS = ["slot lists are read from Sequence._schedule (anchored state); fall times come from Pulse.fall_time"]
TIERS = {"quick": dict(cases=700, shards=8, case_timeout=120, shard_timeout=900),
         "thorough": dict(cases=12000, shards=16, case_timeout=120, shard_timeout=3000)}
FLOORS = {"quick": {"channel_invariant_evals": 5000, "duration_checks": 3000, "prefix_checks": 5000,
                    "duration_total_fall_set_by_earlier_channel": 50},
          "thorough": {"channel_invariant_evals": 80000, "duration_total_fall_set_by_earlier_channel": 500}}


def run_case(ctx, idx, rng, tier):
    dev, reg = gen.header(rng)
    mon = TilingMonitor(ctx)
    r = prog.Runner(ctx, dev, reg, [mon])
    g = gen.ProgGen(rng, dev, reg, r.chspecs, bad=0.05, big=rng.random() < 0.2)
    g.motifs["idle-twice"] = 0.15
    if idx % 3 == 2:
        g.frac_delay_p = 0.3  # delay(31.4, ch): accepted (castable to int); every boundary still is a whole clock multiple
    if idx % 4 == 1:
        g.odd_names = rng.sample(["", "0", "None", " "], 2)  # names the API accepts but that are falsy / ambiguous
    for _ in range(rng.randint(6, 36)):
        op = g.next_op()
        ev = r.step(op)
        g.update(op, ev.exc is None)
    r.finish()
    ctx.sample(r.prog)
