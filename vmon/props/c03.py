"""C03 — addressing-conflict protocols: no conflict, minimal delay, exact estimate; align."""
from vmon import gen, prog
from vmon.seqmon import ProtocolMonitor

LEVEL = "exploration"
RULE = ("online-generated multi-channel histories (global/local, same/different basis, DMM, EOM; all protocols); every "
        "successful add is compared with the reference start-time rule computed from the pre-call timelines, the "
        "estimate taken immediately before it, and every align with the reference ends. non-trivial = distinct "
        "(case, call) where the start was decided by a cross-channel conflict or the phase-jump bound, or an align "
        "that moved a channel")
ASSUMPTIONS = ["the accounted fall time is the value returned by the public Pulse.fall_time (its adequacy is C14)",
               "EOM detuned delays on other channels and pulses inspected in a different EOM state than scheduled "
               "are gray: the start must lie in the interval spanned by both readings"]
TIERS = {"quick": dict(cases=1500, shards=8, case_timeout=120, shard_timeout=900),
         "thorough": dict(cases=24000, shards=16, case_timeout=120, shard_timeout=3000)}
FLOORS = {"quick": {"adds_checked": 4000, "start_decided_by_conflict": 200, "start_decided_by_phase_jump": 200,
                    "estimates_checked": 4000, "aligns_moved": 100,
                    "barrier_shadow_beyond_channel_end": 100, "conflict_bound_from_pulse_behind_detuned_delay": 10},
          "thorough": {"adds_checked": 60000}}
WEIGHTS = {"add": 12, "align": 2.5, "delay": 2, "declare_channel": 3, "phase_shift": 1.0, "measure": 0.02,
           "sample": 0, "str": 0, "to_abstract_repr": 0, "build_copy": 0, "queries": 0, "get_duration": 0.1}


def run_case(ctx, idx, rng, tier):
    dev, reg = gen.header(rng, p_builtin=0.15, max_seq=0.1, nmin=1, nmax=4)
    mon = ProtocolMonitor(ctx, c03=True, c10=False)
    r = prog.Runner(ctx, dev, reg, [mon])
    g = gen.ProgGen(rng, dev, reg, r.chspecs, weights=WEIGHTS, big=rng.random() < 0.2)
    g.motifs["drift"] = 0.3
    g.motifs["equalize"] = 0.35
    for _ in range(rng.randint(8, 40)):
        op = g.next_op()
        ev = r.step(op)
        g.update(op, ev.exc is None)
    r.finish()
    ctx.sample(r.prog)
