"""C15 — EOM mode: square pulses, physical off-detuning, buffers, drift correction."""
import math
import warnings

import numpy as np

from vmon import gen, prog
from vmon.eommon import EomMonitor

LEVEL = "exploration"
RULE = ("(structure) online-generated histories heavy in enable / modify / pulse / delay / disable on channels over all EOM "
        "configurations (limiting beam x controlled beams x multiple_beam_control x shift coefficients x custom buffer); "
        "after every call the block setpoint, the square pulses, the idle off-detuning (independent light-shift reference: "
        "member of the allowed set and closest to the optimum) and the buffers are checked; (physics) single-atom programs "
        "with correct_phase_drift=True on every EOM operation are run on the emulator and compared with the exact "
        "propagation of their twin (same pulse slots, requested phases, zero detuning in the gaps): populations within "
        "1e-9 for the exactly propagated emulator Hamiltonian (5e-3 for the emulator's ODE solution), with |delta_off| x gap >= pi/4 so that a missing correction is visible. non-trivial = distinct structure "
        "case with >= 2 pulses in a block with non-zero off-detuning, plus distinct physics programs")
RULE += " Later additions: motif: a pulse, delays shorter together than its fall time (the last about one rise time), then enable_eom_mode."
ASSUMPTIONS = ["EOM bandwidth >= channel bandwidth", "the emulator Hamiltonian read at every ns is propagated exactly (1e-9); the emulator ODE solution itself is compared at 5e-3 (edge interpolation of square pulses)"]
TIERS = {"quick": dict(cases=900, shards=8, case_timeout=240, shard_timeout=1200),
         "thorough": dict(cases=14000, shards=16, case_timeout=240, shard_timeout=3400)}
FLOORS = {"quick": {"setpoints_checked": 800, "eom_pulses_checked": 1200, "buffers_checked": 500, "physics_compared": 60,
                    "open_blocks_after_setpoint_change": 100, "physics_pulses_with_post_phase_shift": 60},
          "thorough": {"setpoints_checked": 12000}}
WEIGHTS = {"enable_eom_mode": 5, "modify_eom_setpoint": 3, "add_eom_pulse": 10, "delay": 5, "disable_eom_mode": 3, "add": 5,
           "declare_channel": 3, "align": 0.6, "target": 1, "phase_shift": 0.6, "sample": 0, "str": 0, "to_abstract_repr": 0,
           "build_copy": 0, "queries": 0, "get_duration": 0, "estimate_added_delay": 0, "is_in_eom_mode": 0.2,
           "current_phase_ref": 0, "measure": 0.02, "add_dmm_detuning": 0.3, "config_detuning_map": 0.2, "config_slm_mask": 0.1}


def propagate(amp, det, phase):
    """Exact piecewise-constant single-atom evolution in the (r, g) basis from |g>."""
    psi = np.array([0.0, 1.0], dtype=complex)
    for a, d, p in zip(amp, det, phase):
        H = np.array([[-d, 0.5 * a * np.exp(1j * p)], [0.5 * a * np.exp(-1j * p), 0.0]], dtype=complex)
        w, V = np.linalg.eigh(H)
        psi = V @ (np.exp(-1j * w * 1e-3) * (V.conj().T @ psi))
    return psi


def physics(ctx, rng, k):
    import pulser
    from pulser.channels.eom import RydbergBeam, RydbergEOM
    from pulser_simulation import QutipEmulator

    bw = gen.pick(rng, [4.0, 8.0, 20.0])
    eom = RydbergEOM(mod_bandwidth=gen.pick(rng, [24.0, 40.0]), limiting_beam=gen.pick(rng, [RydbergBeam.RED, RydbergBeam.BLUE]),
                     max_limiting_amp=gen.pick(rng, [30, 40]) * 2 * math.pi, intermediate_detuning=gen.pick(rng, [500, 700]) * 2 * math.pi,
                     controlled_beams=gen.pick(rng, [(RydbergBeam.BLUE,), (RydbergBeam.RED,), tuple(RydbergBeam)]),
                     **({"custom_buffer_time": gen.pick(rng, [40, 240])} if rng.random() < 0.4 else {}))
    ch = pulser.channels.Rydberg.Global(None, None, mod_bandwidth=bw, eom_config=eom, clock_period=gen.pick(rng, [1, 4]),
                                        min_duration=gen.pick(rng, [1, 16]), max_duration=None)
    other = pulser.channels.Raman.Global(None, None, clock_period=1, min_duration=1, max_duration=None)
    dev = pulser.devices.VirtualDevice(name="eomdev", dimensions=2, rydberg_level=60, channel_objects=(ch, other))
    seq = pulser.Sequence(pulser.Register({"q": (0.0, 0.0)}), dev)
    seq.declare_channel("c", "rydberg_global")
    if rng.random() < 0.5:  # an idle channel that is (much) longer than the EOM channel
        seq.declare_channel("idle", "raman_global")
        seq.delay(gen.pick(rng, [1000, 3000, 5000]), "idle")
    req = []  # phases the real pulses must carry in the twin, in order: requested phase + the post-phase-shifts so far
    ops = []
    cum = 0.0  # sum of the post_phase_shifts requested so far (virtual-Z: added to every later pulse)
    if rng.random() < 0.5:
        ph = gen.pick(rng, [0.0, 1.0])
        seq.add(pulser.Pulse.ConstantPulse(gen.pick(rng, [52, 100]), 2.0, 0.0, ph), "c")
        req.append(ph)
        ops.append(("add", ph))
    amp_on = gen.pick(rng, [2 * math.pi, 4.0, 9.0])
    opt = gen.pick(rng, [-30.0, 30.0, -80.0, 0.0, 12.0])
    seq.enable_eom_mode("c", amp_on, gen.pick(rng, [0.0, 0.5, -1.0]), optimal_detuning_off=opt, correct_phase_drift=True)
    ops.append(("enable", amp_on, opt))
    for _ in range(rng.randint(2, 5)):
        x = rng.random()
        if x < 0.6:
            ph = gen.pick(rng, [0.0, 0.0, 1.3, 2.5, -1.0])
            pps = gen.pick(rng, [0.0, 0.0, 0.7, math.pi, -1.9])
            seq.add_eom_pulse("c", gen.pick(rng, [40, 60, 100, 124]), ph, correct_phase_drift=True,
                              protocol=gen.pick(rng, ["min-delay", "no-delay"]), **({"post_phase_shift": pps} if pps else {}))
            req.append(ph + cum)
            cum += pps
            if pps:
                ctx.count("physics_pulses_with_post_phase_shift")
            ops.append(("pulse", ph, pps))
        elif x < 0.85:
            d = gen.pick(rng, [100, 200, 400])
            seq.delay(d, "c")
            ops.append(("delay", d))
        else:
            a2 = gen.pick(rng, [3.0, 2 * math.pi, 7.0])
            seq.modify_eom_setpoint("c", a2, gen.pick(rng, [0.0, 1.0]), optimal_detuning_off=gen.pick(rng, [-30.0, 20.0]),
                                    correct_phase_drift=True)
            ops.append(("modify", a2))
    seq.disable_eom_mode("c", correct_phase_drift=True)
    ph = gen.pick(rng, [0.0, 2.0])
    seq.add(pulser.Pulse.ConstantPulse(gen.pick(rng, [52, 100]), 3.0, 0.0, ph), "c")
    req.append(ph + cum)
    ops.append(("disable+add", ph))
    ctx.case = {"physics": {"bw": bw, "ops": ops, "eom": repr(eom)[:300]}}
    from vmon.snap import pulse_info, snapshot

    snap = snapshot(seq)
    c = snap["chans"]["c"]
    T = c["slots"][-1]["tf"]
    amp, det, phase = np.zeros(T), np.zeros(T), np.zeros(T)
    real = [s for s in c["slots"] if s["kind"] == "pulse"]
    if len(real) != len(req):
        ctx.count("physics_skipped")
        return
    drift = 0.0
    for s, ph in zip(real, req):
        _, a, d, _, _ = pulse_info(s["pulse"])
        amp[s["ti"]:s["tf"]] = a
        det[s["ti"]:s["tf"]] = d
        phase[s["ti"]:s["tf"]] = ph
    gaps = [s for s in c["slots"] if s["kind"] == "ddelay"]
    for s in gaps:
        _, _, d, _, _ = pulse_info(s["pulse"])
        drift += abs(d[0]) * (s["tf"] - s["ti"]) * 1e-3
    want = propagate(amp, det, phase)
    # P itself: the Hamiltonian the emulator uses, read at every ns and propagated by the same exact integrator
    # (the emulator's own ODE solution differs from any exact propagation by its ~1e-3 edge interpolation)
    with warnings.catch_warnings():
        warnings.simplefilter("ignore")
        emu = QutipEmulator.from_sequence(seq)
    psi = np.array([0.0, 1.0], dtype=complex)
    for t in range(T):
        H = np.asarray(emu.get_hamiltonian(t).full())
        w, V = np.linalg.eigh(H)
        psi = V @ (np.exp(-1j * w * 1e-3) * (V.conj().T @ psi))
    got = psi
    pr_want, pr_got = abs(want[0]) ** 2, abs(got[0]) ** 2
    if k % 4 == 0:  # and the emulator's own solution, at its discretisation tolerance
        with warnings.catch_warnings():
            warnings.simplefilter("ignore")
            fin = np.asarray(emu.run().get_final_state().full()).ravel()
        ctx.count("physics_emulator_runs")
        if abs(abs(fin[0]) ** 2 - pr_want) > 5e-3:
            ctx.violation("drift-correction", f"emulator population {abs(fin[0]) ** 2:.6f} vs {pr_want:.6f} for the twin with zero "
                          f"off-detuning", "drift-correction:emulator")
    ctx.count("physics_compared")
    if drift >= math.pi / 4:
        ctx.count("physics_with_significant_drift")
        ctx.mark_nontrivial(("phys", k))
    if abs(pr_want - pr_got) > 1e-9:
        ctx.violation("drift-correction", f"Rydberg population {pr_got:.6f} with phase-drift correction, {pr_want:.6f} for the same "
                      f"pulses with zero off-detuning (accumulated |delta_off| x gap = {drift:.2f} rad)", "drift-correction")


def run_case(ctx, idx, rng, tier):
    if idx % 5 == 0:
        physics(ctx, rng, idx // 5)
        return
    dev = gen.gen_device(rng, p_builtin=0.1, p_physical=0.15, max_seq=0.05, want_eom=1.0, need=("rg", "rl"))
    if dev["kind"] == "builtin":
        dev = {"kind": "builtin", "name": "AnalogDevice"}
    reg = gen.gen_register(rng, dev, nmin=1, nmax=3, kind="reg")
    mon = EomMonitor(ctx)
    r = prog.Runner(ctx, dev, reg, [mon])
    g = gen.ProgGen(rng, dev, reg, r.chspecs, weights=WEIGHTS)
    g.motifs["idle-then-eom"] = 0.25
    for _ in range(rng.randint(8, 36)):
        op = g.next_op()
        ev = r.step(op)
        g.update(op, ev.exc is None and ev.stage == "call")
    r.finish()
    ctx.sample({k: (v if k != "ops" else v[:14]) for k, v in r.prog.items()})
