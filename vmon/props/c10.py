"""C10 — phase-jump time and retarget intervals are honoured."""
from vmon import gen, prog
from vmon.seqmon import ProtocolMonitor

LEVEL = "exploration"
RULE = ("online-generated histories heavy in phase changes and retargeting on channels over the product of "
        "{derived, custom} phase-jump time x bandwidth x clock x min duration x retarget parameters; gaps between "
        "consecutive pulses and target instructions checked against the reference. non-trivial = distinct (case, call) "
        "where the required gap exceeded the gap that would otherwise have occurred, or a retarget had to wait")
RULE += " Later additions: the phase-jump time is taken from the fields the channel was declared with."
ASSUMPTIONS = ["fall time = public Pulse.fall_time", "EOM bandwidth >= channel bandwidth in generated devices"]
TIERS = {"quick": dict(cases=1500, shards=8, case_timeout=120, shard_timeout=900),
         "thorough": dict(cases=24000, shards=16, case_timeout=120, shard_timeout=3000)}
FLOORS = {"quick": {"pulse_pairs_checked": 3000, "gap_enforced": 300, "retargets_checked": 500, "retarget_waited": 100,
                    "phase_differs_only_by_drift_during_wait": 3,
                    "retarget_fall_pending_behind_several_delays": 50},
          "thorough": {"pulse_pairs_checked": 50000}}
WEIGHTS = {"add": 12, "target": 5, "target_index": 1, "align": 0.8, "delay": 2.5, "declare_channel": 3,
           "phase_shift": 0.6, "measure": 0.02, "sample": 0, "str": 0, "to_abstract_repr": 0, "build_copy": 0,
           "queries": 0, "get_duration": 0.1, "add_eom_pulse": 4}


def run_case(ctx, idx, rng, tier):
    dev, reg = gen.header(rng, p_builtin=0.15, max_seq=0.1, nmin=2, nmax=5, need=("rl",))
    mon = ProtocolMonitor(ctx, c03=False, c10=True)
    r = prog.Runner(ctx, dev, reg, [mon])
    g = gen.ProgGen(rng, dev, reg, r.chspecs, weights=WEIGHTS, same_phase=0.3)
    g.motifs["drift"] = 0.5
    g.motifs["retarget"] = 0.3
    g.motifs["fall"] = 0.15
    for _ in range(rng.randint(8, 40)):
        op = g.next_op()
        ev = r.step(op)
        g.update(op, ev.exc is None)
    r.finish()
    ctx.sample(r.prog)
