"""C18 — switching device or register preserves the program."""
import copy
import warnings

import numpy as np

from vmon import gen, objs, prog
from vmon.limitsmon import _weights, spec_of
from vmon.props.c08 import concrete_program
from vmon.ref import limits
from vmon.snap import pulse_info, snapshot, timeline_diff

LEVEL = "exploration"
RULE = ("a generated program is run on device D1; D2 is a copy of D1 with a random subset of channel parameters perturbed "
        "(clock, min/max duration, bandwidth, custom phase-jump time, retarget times, EOM configuration incl. buffer time, "
        "limits, channel order, ids, reusability, extra channels, device maximum duration); switch_device(D2, strict=True) "
        "must raise or return a sequence whose timeline and samples are identical to the original's; strict=False must "
        "raise or return a sequence that satisfies every limit of D2 and the tiling invariant; switch_register to a "
        "register with the same ids (moved atoms) must give the identical timeline. non-trivial = distinct case where "
        "strict returned and >= 1 timing-relevant parameter of a used channel differed")
RULE += " Later additions: directed: a last delay that is not a multiple of the new clock period and a new max_sequence_duration within one clock period above the sequence's end."
ASSUMPTIONS = ["programs contain no deliberately invalid calls; cases tainted by a C09 partial effect are set aside",
               "timeline identity is compared by channel name (ids may change)"]
TIERS = {"quick": dict(cases=2100, shards=8, case_timeout=180, shard_timeout=900),
         "thorough": dict(cases=24000, shards=16, case_timeout=180, shard_timeout=3000)}
FLOORS = {"quick": {"strict_switches": 1800, "strict_returned": 300, "nonstrict_returned": 600, "register_switches": 900,
                    "strict_returned_parametrized_builds_compared": 150},
          "thorough": {"strict_switches": 9000}}
WEIGHTS = {"sample": 0, "str": 0, "to_abstract_repr": 0, "build_copy": 0, "queries": 0, "get_duration": 0,
           "estimate_added_delay": 0, "is_in_eom_mode": 0, "current_phase_ref": 0, "measure": 0.1, "target": 3,
           "enable_eom_mode": 2.0, "disable_eom_mode": 1.2, "modify_eom_setpoint": 0.8, "add_eom_pulse": 4, "delay": 4,
           "align": 2, "config_slm_mask": 1.0, "set_magnetic_field": 0.05}
TIMING = ("clock_period", "min_duration", "mod_bandwidth", "custom_phase_jump_time", "min_retarget_interval",
          "fixed_retarget_t", "eom")


def perturb_one(rng, dev: dict, used_ids: set) -> tuple[dict, dict]:
    """Exactly one timing parameter of exactly one channel the sequence uses differs (everything else identical)."""
    d2 = copy.deepcopy(dev)
    d2["name"] = "GenDev2"
    cands = [c for c in d2["channels"] if c.get("id") in used_ids]
    if not cands:
        return d2, {}
    loc = [c for c in cands if c.get("addr") == "Local"]
    c = gen.pick(rng, loc if loc and rng.random() < 0.5 else cands)
    local = c.get("addr") == "Local"
    p = gen.pick(rng, ["clock_period", "min_duration", "mod_bandwidth", "custom_phase_jump_time"]
                 + (["min_retarget_interval"] * 3 + ["fixed_retarget_t"] if local else [])
                 + (["eom"] * 3 if c.get("eom") else []))
    old = copy.deepcopy(c.get(p))
    if p == "eom":  # only the light-shift side of the EOM configuration (same bandwidth, same buffer time)
        e = c["eom"]
        q = gen.pick(rng, ["blue_shift_coeff", "max_limiting_amp", "controlled_beams", "intermediate_detuning"])
        if q == "blue_shift_coeff":
            e[q] = gen.pick(rng, [0.5, 1.5, 2.0])
        elif q == "controlled_beams":
            e[q] = gen.pick(rng, [["BLUE"], ["RED"], ["BLUE", "RED"]])
        else:
            e[q] = e[q] * gen.pick(rng, [0.5, 2.0])
        return (d2, {c["id"]: {p}}) if c["eom"] != old else (d2, {})
    if p == "clock_period":
        c[p] = gen.pick(rng, gen.CLOCKS)
    elif p == "min_duration":
        c[p] = gen.pick(rng, gen.MIN_DURS)
    elif p == "mod_bandwidth":
        pool = [b for b in gen.BWS if b is not None and (not c.get("eom") or b <= c["eom"]["mod_bandwidth"])]
        if not pool:
            return d2, {}
        c[p] = gen.pick(rng, pool)  # (an EOM's bandwidth is never below its channel's)
    elif p == "custom_phase_jump_time":
        c[p] = gen.pick(rng, [0, 13, 100, 40])
    else:
        c[p] = gen.pick(rng, [0, 0, 13, 30, 50, 220])
    if c.get(p) == old:
        return d2, {}
    return d2, {c["id"]: {p}}


def perturb_device(rng, dev: dict) -> tuple[dict, dict]:
    d2 = copy.deepcopy(dev)
    d2["name"] = "GenDev2"
    changed: dict[str, set] = {}
    chans = d2["channels"]
    for c in chans + d2.get("dmm", []):
        if rng.random() < 0.5:
            continue
        cid = c.get("id", "dmm")
        for _ in range(rng.randint(1, 2)):
            p = gen.pick(rng, ["clock_period", "min_duration", "max_duration", "mod_bandwidth", "custom_phase_jump_time",
                               "min_retarget_interval", "fixed_retarget_t", "max_amp", "max_abs_detuning", "eom",
                               "min_avg_amp", "max_targets", "bottom_detuning"])
            old = copy.deepcopy(c.get(p))
            if p == "bottom_detuning":
                if c.get(p) is None:
                    continue
                c[p] = c[p] * gen.pick(rng, [0.5, 0.25])
                if c.get("total_bottom_detuning") is not None and c[p] < c["total_bottom_detuning"]:
                    c[p] = old
            if p == "clock_period":
                c[p] = gen.pick(rng, gen.CLOCKS)
            elif p == "min_duration":
                c[p] = gen.pick(rng, gen.MIN_DURS)
            elif p == "max_duration":
                c[p] = gen.pick(rng, [2 ** 26, 100000, 2000, 800, 100])
                if c[p] < c.get("min_duration", 1):
                    c[p] = old
            elif p == "mod_bandwidth":
                if c.get("eom"):
                    continue
                c[p] = gen.pick(rng, [b for b in gen.BWS if b is not None])
            elif p == "custom_phase_jump_time":
                c[p] = gen.pick(rng, [None, 0, 13, 100, 40])
                if c[p] is None:
                    c.pop(p)
            elif p in ("min_retarget_interval", "fixed_retarget_t"):
                if c.get("addr") != "Local":
                    continue
                c[p] = gen.pick(rng, [0, 13, 30, 50, 220])
            elif p in ("max_amp", "max_abs_detuning"):
                if c.get("cls") is None or c.get(p) is None:
                    continue
                c[p] = c[p] * gen.pick(rng, [0.5, 0.9, 2.0])
            elif p == "eom":
                if not c.get("eom"):
                    continue
                e = c["eom"]
                q = gen.pick(rng, ["custom_buffer_time", "mod_bandwidth", "blue_shift_coeff", "max_limiting_amp",
                                   "controlled_beams", "intermediate_detuning"])
                if q == "custom_buffer_time":
                    e[q] = gen.pick(rng, [13, 40, 240, 500])
                elif q == "mod_bandwidth":
                    e[q] = gen.pick(rng, [b for b in (20.0, 40.0, 24.0, 100.0) if b >= (c.get("mod_bandwidth") or 0)])
                elif q == "blue_shift_coeff":
                    e[q] = gen.pick(rng, [0.5, 1.5, 2.0])
                elif q == "max_limiting_amp":
                    e[q] = e[q] * gen.pick(rng, [0.5, 2.0])
                elif q == "intermediate_detuning":
                    e[q] = e[q] * gen.pick(rng, [0.5, 2.0])
                else:
                    e[q] = gen.pick(rng, [["BLUE"], ["RED"], ["BLUE", "RED"]])
            elif p == "min_avg_amp":
                if c.get("cls") is None:
                    continue
                c[p] = gen.pick(rng, [0, 0.1, 0.5])
            elif p == "max_targets":
                if c.get("addr") != "Local":
                    continue
                c[p] = gen.pick(rng, [1, 2, 8])
            if c.get(p) != old:
                changed.setdefault(cid, set()).add(p)
    if rng.random() < 0.4:
        rng.shuffle(chans)
    if rng.random() < 0.3:
        for c in chans:
            c["id"] = c["id"] + "_x"
    if rng.random() < 0.25 and d2["kind"] == "virtual":
        d2["reusable_channels"] = not d2.get("reusable_channels", False)
    if rng.random() < 0.3:
        d2["max_sequence_duration"] = gen.pick(rng, [None, 600, 4000, 20000])
        if d2["max_sequence_duration"] is None:
            d2.pop("max_sequence_duration")
    if rng.random() < 0.2:
        extra = gen.gen_channel(rng, "extra", gen.pick(rng, ["Rydberg", "Raman"]), gen.pick(rng, ["Global", "Local"]),
                                d2["kind"] == "physical")
        chans.insert(rng.randrange(len(chans) + 1), extra)
    return d2, changed


def check_against_device(ctx, snap, device, tag, case) -> None:
    """C01 safety + C02 tiling of a whole sequence on `device`."""
    for n, c in snap["chans"].items():
        obj = c["obj"]
        s_ = spec_of(obj)
        w = _weights(c)
        clk, mn = int(obj.clock_period), int(obj.min_duration)
        sl = c["slots"]
        for i, s in enumerate(sl):
            if i and sl[i - 1]["tf"] != s["ti"]:
                ctx.violation("nonstrict-tiling", f"{tag}: {n}[{i}] gap/overlap", "nonstrict:tiling", case=case)
            if s["tf"] % clk:
                ctx.violation("nonstrict-clock", f"{tag}: {n}[{i}] ends at {s['tf']}, clock {clk}", "nonstrict:clock", case=case)
            L = s["tf"] - s["ti"]
            if s["kind"] in ("delay", "ddelay") and L < mn:
                ctx.violation("nonstrict-min-duration", f"{tag}: {n}[{i}] {s['kind']} of {L} < {mn}", "nonstrict:min-duration", case=case)
            if s["pulse"] is None:
                continue
            _, a, d, _, _ = pulse_info(s["pulse"])
            ctx.count("nonstrict_pulses_checked")
            mx = 0.0 if s_["dmm"] else s_["max_amp"]
            if mx is not None and np.max(a, initial=0) > mx:
                ctx.violation("nonstrict-amp", f"{tag}: {n}[{i}] amplitude {np.max(a)} > {mx} of the new device",
                              "nonstrict:amp", case=case)
            if s_["max_abs_detuning"] is not None and np.max(np.abs(d), initial=0) > s_["max_abs_detuning"] + limits.BAND:
                ctx.violation("nonstrict-det", f"{tag}: {n}[{i}] |detuning| {np.max(np.abs(d))} > {s_['max_abs_detuning']}",
                              "nonstrict:det", case=case)
            if s_["min_avg_amp"] and 0 < np.mean(a) < s_["min_avg_amp"] * (1 - 1e-12):
                ctx.violation("nonstrict-avg", f"{tag}: {n}[{i}] average amplitude below the new minimum", "nonstrict:avg", case=case)
            if L < s_["min_duration"] or (s_["max_duration"] is not None and L > s_["max_duration"]) or L % clk:
                ctx.violation("nonstrict-duration", f"{tag}: {n}[{i}] pulse of {L} ns outside the new channel's "
                              f"[{s_['min_duration']},{s_['max_duration']}] / clock {clk}", "nonstrict:duration", case=case)
    ms = device.max_sequence_duration
    if ms is not None:
        end = max([c["slots"][-1]["tf"] for c in snap["chans"].values() if c["slots"]] + [0])
        if end > ms:
            ctx.violation("nonstrict-too-long", f"{tag}: sequence of {end} ns > max_sequence_duration {ms}", "nonstrict:too-long", case=case)


def param_switch(ctx, rng, dev, D2, reg, ops, changed, case) -> None:
    from vmon import param, prog

    t = param.Templ(rng, p=0.5, custom_var=False)
    k0 = rng.randint(0, len(ops))  # a literal prefix (already scheduled at switch time), the rest deferred
    T = []
    for i, o in enumerate(ops):
        t.p = 0.0 if i < k0 else 0.5
        T.append(t.op(o, reg["ids"]))
    if not param.vars_used(T):
        return
    rA = prog.Runner(ctx, dev, reg, [], env=objs.Env("param"))
    for o in t.decls + T:
        ev = rA.step(copy.deepcopy(o))
        if ev.exc is not None:
            ctx.gray("template-call-refused:" + o["op"])
            ctx.case = case
            return
    ctx.case = case
    case["template"] = t.decls + T
    case["values"] = dict(t.values)
    seqA = rA.seq
    if not seqA.is_parametrized():
        return
    ctx.count("strict_switches_parametrized")
    for cid, ps in changed.items():
        if ps == {"min_retarget_interval"}:
            oc = next((c for c in dev["channels"] if c.get("id") == cid), None)
            nc = next((c for c in case["device2"]["channels"] if c.get("id") == cid), None)
            if oc and nc and oc.get("min_retarget_interval", 0) > oc.get("fixed_retarget_t", 0) >= nc.get("min_retarget_interval", 0):
                ctx.count("parametrized_switch_only_old_channel_bound_by_retarget_interval")
    try:
        with warnings.catch_warnings():
            warnings.simplefilter("ignore")
            new = seqA.switch_device(D2, True)
    except Exception:
        ctx.count("strict_raised_parametrized")
        return
    try:
        with warnings.catch_warnings():
            warnings.simplefilter("ignore")
            b1 = seqA.build(**copy.deepcopy(t.values))
    except Exception:
        ctx.count("parametrized_original_does_not_build")
        return
    try:
        with warnings.catch_warnings():
            warnings.simplefilter("ignore")
            b2 = new.build(**copy.deepcopy(t.values))
    except Exception:
        # the deferred calls can only be checked against the new device's limits once their values are known:
        # raising at build time is the parametrized form of 'it raises'
        ctx.gray("strict-param-raises-at-build")
        return
    ctx.count("strict_returned_parametrized_builds_compared")
    d = timeline_diff(snapshot(b1), snapshot(b2), tol=1e-6, by_id=True, eom_off=False)
    if d:
        slm = snapshot(b1)["flags"]["slm_dmm"]
        only_slm = slm is not None and all(x.startswith(f"{slm}[") and "pulse samples differ" in x for x in d)
        mech = "strict-differs:slm-mask-dmm-pulse" if only_slm else \
            "strict-param-differs:" + "+".join(sorted({p for ps in changed.values() for p in ps if p in TIMING}) or ["other"])
        if mech == "strict-param-differs:eom":
            # which part of the EOM configuration differs; the known finding applies when the two builds chose another
            # off-detuning for a block on that channel (everything else in the diff follows from that: idle samples,
            # drift corrections, fall times of the idle slots that 'wait-for-all' waits for)
            s1, s2 = snapshot(b1), snapshot(b2)
            off_differs = {c1["id"] for (n1, c1), (n2, c2) in zip(s1["chans"].items(), s2["chans"].items())
                           if len(c1["eom"]) == len(c2["eom"]) and any(abs(x[4] - y[4]) > 1e-9 for x, y in zip(c1["eom"], c2["eom"]))}
            for cid, ps in changed.items():
                if cid not in off_differs:
                    continue
                oc = next((c for c in dev["channels"] if c.get("id") == cid), None)
                nc = next((c for c in case["device2"]["channels"] if c.get("id") in (cid, cid + "_x")), None)
                if ps == {"eom"} and oc and nc and oc.get("eom") and nc.get("eom"):
                    keys = {k for k in set(oc["eom"]) | set(nc["eom"]) if oc["eom"].get(k) != nc["eom"].get(k)}
                    if keys == {"controlled_beams"} and len(oc["eom"]["controlled_beams"]) == 1 \
                            and set(oc["eom"]["controlled_beams"]) < set(nc["eom"]["controlled_beams"]):
                        mech = "strict-param-differs:eom-controlled-beams-extended"
        ctx.violation("strict-differs", f"switch_device(strict=True) of a parametrized sequence builds to a different timeline "
                      f"(changed parameters {sorted((k, sorted(v)) for k, v in changed.items())}): {d[:2]}", mech, case=case)


def tight_duration_variant(ctx, rng, dev, r):
    """Directed: the sequence gets a last explicit delay whose length is not a multiple of the clock period the same
    channel has on the new device, and the new device's max_sequence_duration lies within one (new) clock period above
    the sequence's present end: after rounding, the switched sequence either still fits or has to be refused."""
    snap = snapshot(r.seq)
    cands = [(n, c) for n, c in snap["chans"].items() if c["detmap"] is None and c["slots"] and not c["eom"]]
    if not cands or dev["kind"] == "builtin":
        return None
    n, c = gen.pick(rng, cands)
    c1 = int(c["obj"].clock_period)
    c2 = gen.pick(rng, [k for k in (4, 5, 8, 16, 20) if k != c1 and k > c1] or [c1 * 3])
    mn = int(c["obj"].min_duration)
    m = -(-max(mn, 16) // c1)
    d = next((c1 * (m + j) for j in range(0, 40) if (c1 * (m + j)) % c2), None)
    if d is None:
        return None
    if r.step({"op": "delay", "duration": d, "ch": n}).exc is not None:
        return None
    end = int(r.seq.get_duration())
    dev2 = copy.deepcopy(dev)
    for ch in dev2.get("channels", []):
        if ch["id"] == c["id"]:
            ch["clock_period"] = c2
            if ch.get("min_duration", 1) % 1:
                return None
    dev2["max_sequence_duration"] = end + rng.randrange(0, c2)
    ctx.count("tight_max_sequence_duration_variants")
    return dev2, {c["id"]: {"clock_period"}}


def run_case(ctx, idx, rng, tier):
    dev = gen.gen_device(rng, p_builtin=0.0, p_physical=0.25, xy=rng.random() < 0.1, max_seq=0.1, want_eom=0.6)
    for c in dev.get("channels", []):
        # (a custom phase-jump time decouples it from the bandwidth, so that a bandwidth can differ on its own)
        if c.get("mod_bandwidth") and "custom_phase_jump_time" not in c and rng.random() < 0.5:
            c["custom_phase_jump_time"] = gen.pick(rng, [0, 40, 100])
    reg = gen.gen_register(rng, dev, nmin=1 if rng.random() < 0.3 else 2, nmax=4, kind="reg")
    ops, r = concrete_program(ctx, rng, dev, reg, weights=WEIGHTS, motifs={"retarget": 0.4, "drift": 0.2, "dmm-twice": 0.7})
    if ops is None:
        ctx.count("discarded_after_C09")
        return
    tight = None
    if idx % 8 == 5:
        tight = tight_duration_variant(ctx, rng, dev, r)
    if tight is not None:
        dev2, changed = tight
        ops = r.prog["ops"]
    elif rng.random() < 0.3:
        dev2, changed = perturb_one(rng, dev, {c["id"] for c in snapshot(r.seq)["chans"].values()})
        ctx.count("single_parameter_perturbations")
    else:
        dev2, changed = perturb_device(rng, dev)
    case = {"device": dev, "device2": dev2, "register": reg, "ops": ops}
    ctx.case = case
    try:
        D2 = objs.build_device(dev2)
    except Exception:
        ctx.count("perturbed_device_invalid")
        return
    seq = r.seq
    base = snapshot(seq)
    used_ids = {c["id"] for c in base["chans"].values()}
    # switch_device tries every assignment of the declared channels to the new device's channels (|new|^|declared|):
    # a performance matter outside this property; such cases are set aside instead of running into the watchdog
    n_new = len(D2.channels) + len(D2.dmm_channels)
    if n_new ** max(1, len(base["chans"])) > 300000:
        ctx.count("switch_skipped_combinatorial_matching")
        return
    timing_changed = any(p in TIMING for cid, ps in changed.items() if cid in used_ids or cid.replace("_x", "") in used_ids
                         for p in ps)
    for strict in (True, False):
        ctx.count("strict_switches" if strict else "nonstrict_switches")
        try:
            with warnings.catch_warnings():
                warnings.simplefilter("ignore")
                new = seq.switch_device(D2, strict)
        except Exception as e:
            ctx.count("strict_raised" if strict else "nonstrict_raised")
            continue
        sn = snapshot(new)
        if strict:
            ctx.count("strict_returned")
            d = timeline_diff(base, sn, tol=1e-6, by_id=True, eom_off=False)
            if timing_changed:
                ctx.mark_nontrivial(("c18", idx))
            if d and all("phase reference" in x for x in d):
                # timeline and samples - what the statement promises - are identical; only the phase references kept for
                # pulses still to come differ (e.g. a drift correction at another off-detuning with no pulse after it)
                ctx.gray("strict:only-phase-references-of-future-pulses-differ")
                d = []
            if d:
                slm = base["flags"]["slm_dmm"]
                only_slm = slm is not None and all(x.startswith(f"{slm}[") and "pulse samples differ" in x for x in d)
                mech = "strict-differs:slm-mask-dmm-pulse" if only_slm else \
                    "strict-differs:" + "+".join(sorted({p for ps in changed.values() for p in ps if p in TIMING}) or ["other"])
                ctx.violation("strict-differs", f"switch_device(strict=True) returned a different sequence "
                              f"(changed parameters {sorted((k, sorted(v)) for k, v in changed.items())}): {d[:2]}",
                              mech, case=case)
        else:
            ctx.count("nonstrict_returned")
            check_against_device(ctx, sn, D2, "switch_device(strict=False)", case)
    # ---- the same program as a parametrized sequence: nothing is scheduled yet when the devices are compared, so
    #      'identical timeline' means: for an assignment of the variables both sequences build to the same timeline ----
    single = len(changed) == 1 and sum(len(v) for v in changed.values()) == 1 and dev2.get("channels") is not None \
        and [c.get("id") for c in dev2["channels"]] == [c.get("id") for c in dev["channels"]]
    if idx % 3 == 0 or single:
        param_switch(ctx, rng, dev, D2, reg, ops, changed, case)
    # ---- switch_register: same ids, atoms moved ---------------------------------------------------
    if not any(c["detmap"] is not None for c in base["chans"].values()) and not base["flags"]["slm_targets"]:
        reg2 = copy.deepcopy(reg)
        f = gen.pick(rng, [1.0, 1.1, 1.5])
        reg2["coords"] = [[x * f for x in c] for c in reg["coords"]]
        try:
            with warnings.catch_warnings():
                warnings.simplefilter("ignore")
                new = seq.switch_register(objs.build_register(reg2))
            ctx.count("register_switches")
            d = timeline_diff(base, snapshot(new), tol=1e-9)
            if d:
                ctx.violation("register-switch-differs", f"switch_register(same ids) changed the timeline: {d[:2]}",
                              "register-switch-differs", case=case)
        except Exception as e:
            # the moved register may legitimately violate the device geometry
            ctx.count("register_switch_raised")
    ctx.sample({k: (v if k != "ops" else v[:12]) for k, v in case.items()})
