"""C20 — observables and results are correct functions of the emulated state."""
import math
import warnings

import numpy as np

from vmon import gen
from vmon.ref import qm

LEVEL = "exploration"
RULE = ("(direct) every default observable's apply() on generated kets and full-rank density matrices (2-4 levels, 1-4 "
        "qudits) with random Hermitian H is compared with the numpy definitions (occupation, correlation, Tr rho H, Tr rho "
        "H^2, variance, fidelity, expectation, bitstring probabilities; sampled bitstrings within 6 sigma); (algebra) "
        "operators/states built from their representation equal the explicit kron construction and +, scalar *, @, "
        "apply_to, expect equal matrix algebra; (run) QutipBackendV2 runs with observables having own / default evaluation "
        "times, pure and dissipative: each observable holds exactly its requested times, ascending, one value each, "
        "retrievable by tag and instance, and every stored value equals the definition recomputed from the stored state "
        "and get_hamiltonian at that time. non-trivial = distinct (workload, dims, state kind, observable/time configuration)")
RULE += " Later additions: runs with state-preparation errors plus dephasing and a unit-trace check of every stored state; sampling with detection errors against the independent-flip distribution."
ASSUMPTIONS = ["tolerance 1e-8 x scale for recomputed values; sampling clauses are seeded 6-sigma tests",
               "H(t) for the recomputation is QutipEmulator.get_hamiltonian(t, noiseless=True), whose correctness is C05"]
TIERS = {"quick": dict(cases=900, shards=8, case_timeout=300, shard_timeout=1500),
         "thorough": dict(cases=9000, shards=16, case_timeout=300, shard_timeout=3400)}
FLOORS = {"quick": {"direct_values_checked": 1200, "mixed_state_values_checked": 600, "algebra_checks": 1000,
                    "run_values_recomputed": 800, "result_time_sets_checked": 400,
                    "off_grid_times_with_full_default": 20,
                    "call_time_sets_checked_long_emulations": 20, "runs_with_stochastic_noise": 10},
          "thorough": {"direct_values_checked": 20000, "off_grid_times_with_full_default": 300}}
EIG = {2: [("r", "g"), ("g", "h"), ("u", "d")], 3: [("r", "g", "h")], 4: [("r", "g", "h", "x")]}
ONE = {("r", "g"): "r", ("g", "h"): "h", ("u", "d"): "d"}


def rand_state(rng, dim, n, kind):
    N = dim ** n
    g = np.random.default_rng(rng.randrange(2 ** 32))
    if kind == "ket":
        v = g.normal(size=N) + 1j * g.normal(size=N)
        return v / np.linalg.norm(v)
    A = g.normal(size=(N, N)) + 1j * g.normal(size=(N, N))
    rho = A @ A.conj().T + 1e-3 * np.eye(N)
    return rho / np.trace(rho).real


def rand_herm(rng, N, scale=5.0):
    g = np.random.default_rng(rng.randrange(2 ** 32))
    A = g.normal(size=(N, N)) + 1j * g.normal(size=(N, N))
    return scale * (A + A.conj().T) / 2


def close(a, b, scale=1.0, tol=1e-8):
    return np.allclose(np.asarray(a, dtype=complex), np.asarray(b, dtype=complex), atol=tol * (1 + scale), rtol=0)


def qobj(x, dim, n):
    import qutip

    x = np.asarray(x)
    if x.ndim == 1:
        return qutip.Qobj(x.reshape(-1, 1), dims=[[dim] * n, [1] * n])
    return qutip.Qobj(x, dims=[[dim] * n, [dim] * n])


# ------------------------------------------------------------------------------------------------ direct
def w_direct(ctx, rng, idx):
    from pulser.backend import default_observables as DO
    from pulser_simulation import QutipConfig, QutipOperator, QutipState

    dim = gen.pick(rng, [2, 2, 3, 4])
    n = rng.randint(1, 4 if dim == 2 else (3 if dim == 3 else 2))
    eig = gen.pick(rng, EIG[dim])
    kind = gen.pick(rng, ["ket", "dm", "dm"])
    st = rand_state(rng, dim, n, kind)
    H = rand_herm(rng, dim ** n)
    one_lbl = ONE.get(eig) or gen.pick(rng, list(eig))
    one = eig.index(one_lbl)
    explicit = eig not in ONE or rng.random() < 0.5
    ctx.case = {"direct": {"dim": dim, "n": n, "eigenstates": eig, "state": kind, "one_state": one_lbl,
                           "np_seed_from_case": idx}}
    S = QutipState(qobj(st, dim, n), eigenstates=eig)
    Hop = QutipOperator(qobj(H, dim, n), eigenstates=eig)
    cfg = QutipConfig(observables=[DO.StateResult()])
    rho = qm.as_rho(st)
    mixed = kind == "dm"

    def chk(name, got, want, scale):
        ctx.count("direct_values_checked")
        if mixed:
            ctx.count("mixed_state_values_checked")
        if not close(got, want, scale):
            ctx.violation("observable-value", f"{name} on a {'density matrix' if mixed else 'ket'} ({n} qudits of dim {dim}, "
                          f"eigenstates {eig}): got {np.asarray(got).ravel()[:4]}, definition gives {np.asarray(want).ravel()[:4]}",
                          f"value:{name}:{'mixed' if mixed else 'pure'}")

    kw = {"one_state": one_lbl} if explicit else {}
    with warnings.catch_warnings():
        warnings.simplefilter("ignore")
        try:
            chk("Occupation", DO.Occupation(**kw).apply(config=cfg, state=S, hamiltonian=Hop), qm.occupation(rho, n, dim, one), 1)
            chk("CorrelationMatrix", DO.CorrelationMatrix(**kw).apply(config=cfg, state=S, hamiltonian=Hop),
                qm.correlation(rho, n, dim, one), 1)
            e = qm.expect(rho, H).real
            e2 = qm.expect(rho, H @ H).real
            chk("Energy", DO.Energy().apply(config=cfg, state=S, hamiltonian=Hop), e, abs(e))
            chk("EnergySecondMoment", DO.EnergySecondMoment().apply(config=cfg, state=S, hamiltonian=Hop), e2, abs(e2))
            chk("EnergyVariance", DO.EnergyVariance().apply(config=cfg, state=S, hamiltonian=Hop), e2 - e * e, abs(e2))
            tk = gen.pick(rng, ["ket", "dm"]) if not mixed else "ket"
            tgt = rand_state(rng, dim, n, tk)
            T = QutipState(qobj(tgt, dim, n), eigenstates=eig)
            chk(f"Fidelity[{tk}-target]", DO.Fidelity(T).apply(config=cfg, state=S, hamiltonian=Hop), qm.fidelity(tgt, st), 1)
            O = rand_herm(rng, dim ** n, 2.0) + (1j * rand_herm(rng, dim ** n, 1.0) if rng.random() < 0.3 else 0)
            Oop = QutipOperator(qobj(O, dim, n), eigenstates=eig)
            chk("Expectation", DO.Expectation(Oop).apply(config=cfg, state=S, hamiltonian=Hop), qm.expect(rho, O),
                np.max(np.abs(O)))
            probs = S.bitstring_probabilities(one_state=one_lbl)
            want = qm.bitstring_probs(rho, n, dim, one)
            for b, p in want.items():
                if abs(probs.get(b, 0.0) - p) > 1e-9:
                    ctx.violation("bitstring-probabilities", f"P({b})={probs.get(b, 0.0)!r}, definition {p!r} "
                                  f"(eigenstates {eig}, one={one_lbl})", "bitstring-probabilities")
                    break
            ctx.count("direct_values_checked")
            if idx % 5 == 0:
                N = 40000
                np.random.seed(idx)
                cnt = DO.BitStrings(num_shots=N, **({"one_state": one_lbl})).apply(config=cfg, state=S, hamiltonian=Hop)
                ctx.count("sampling_checks")
                for b, p in want.items():
                    sig = math.sqrt(max(p * (1 - p) * N, 1e-9))
                    if abs(cnt.get(b, 0) - p * N) > 6 * sig + 3:
                        ctx.violation("bitstring-sampling", f"{cnt.get(b, 0)} x '{b}' in {N} shots, probability {p:.5f}",
                                      "bitstring-sampling")
                        break
                # the same with detection errors: every bit of every shot is flipped independently (0 read as 1 with
                # p_false_pos, 1 read as 0 with p_false_neg); the expected distribution is the convolution of `want`
                pfp, pfn = [(0.3, 0.0), (0.0, 0.25), (0.1, 0.2), (0.5, 0.5)][(idx // 5) % 4]
                werr: dict = {}
                for b, p in want.items():
                    outs = {"": p}
                    for bit in b:
                        stay = 1 - (pfn if bit == "1" else pfp)
                        outs = {k + x: v * (stay if x == bit else 1 - stay) for k, v in outs.items() for x in "01"}
                    for k, v in outs.items():
                        werr[k] = werr.get(k, 0.0) + v
                np.random.seed(idx + 1)
                cnt2 = S.sample(num_shots=N, one_state=one_lbl, p_false_pos=pfp, p_false_neg=pfn)
                ctx.count("sampling_checks_with_detection_errors")
                if n >= 2:
                    ctx.count("sampling_checks_with_detection_errors_on_several_qudits")
                if sum(cnt2.values()) != N:
                    ctx.violation("bitstring-sampling", f"{sum(cnt2.values())} bitstrings for {N} shots", "bitstring-sampling:count")
                for b, p in werr.items():
                    sig = math.sqrt(max(p * (1 - p) * N, 1e-9))
                    if abs(cnt2.get(b, 0) - p * N) > 6 * sig + 3:
                        ctx.violation("bitstring-sampling", f"with p_false_pos={pfp}, p_false_neg={pfn}: {cnt2.get(b, 0)} x '{b}' in "
                                      f"{N} shots, probability with independent flips {p:.5f} ({n} qudits)",
                                      "bitstring-sampling:detection-errors")
                        break
        except Exception as e:
            ctx.violation("observable-raises", f"apply raised {type(e).__name__}: {str(e)[:200]} ({n} qudits dim {dim} "
                          f"{eig} {kind})", f"observable-raises:{type(e).__name__}")
    ctx.mark_nontrivial(("direct", dim, n, eig, kind, explicit))


# ------------------------------------------------------------------------------------------------ algebra
def w_algebra(ctx, rng, idx):
    from pulser_simulation import QutipOperator, QutipState

    dim = gen.pick(rng, [2, 2, 3, 4])
    n = rng.randint(1, 3)
    eig = gen.pick(rng, EIG[dim])
    ctx.case = {"algebra": {"dim": dim, "n": n, "eigenstates": eig}}

    def gen_full():
        ops, M = [], np.zeros((dim ** n, dim ** n), dtype=complex)
        for _ in range(rng.randint(1, 3)):
            coeff = complex(round(rng.uniform(-2, 2), 3), round(rng.uniform(-1, 1), 3) if rng.random() < 0.4 else 0.0)
            tensor, sites = [], {}
            qs = list(range(n))
            rng.shuffle(qs)
            k = rng.randint(0, n)
            groups, i = [], 0
            while i < k:
                sz = rng.randint(1, k - i)
                groups.append(qs[i:i + sz])
                i += sz
            for grp in groups:
                qop, m = {}, np.zeros((dim, dim), dtype=complex)
                for _ in range(rng.randint(1, 3)):
                    a, b = rng.randrange(dim), rng.randrange(dim)
                    c = round(rng.uniform(-1.5, 1.5), 3)
                    qop[eig[a] + eig[b]] = qop.get(eig[a] + eig[b], 0) + c
                    m[a, b] += c
                tensor.append((qop, set(grp)))
                for q in grp:
                    sites[q] = m
            ops.append((coeff, tensor))
            M += coeff * qm.site_op(None, sites, n, dim)
        return ops, M

    with warnings.catch_warnings():
        warnings.simplefilter("ignore")
        try:
            opsA, A = gen_full()
            opsB, B = gen_full()
            QA = QutipOperator.from_operator_repr(eigenstates=eig, n_qudits=n, operations=opsA)
            QB = QutipOperator.from_operator_repr(eigenstates=eig, n_qudits=n, operations=opsB)
            sc = 1 + np.max(np.abs(A)) + np.max(np.abs(B))

            def chk(name, got, want):
                ctx.count("algebra_checks")
                if not close(got, want, sc):
                    ctx.violation("algebra", f"{name}: differs from matrix algebra ({n} qudits dim {dim} {eig})", f"algebra:{name}")
            chk("from_operator_repr", QA.to_qobj().full(), A)
            chk("add", (QA + QB).to_qobj().full(), A + B)
            k = complex(round(rng.uniform(-2, 2), 2), round(rng.uniform(-1, 1), 2))
            chk("rmul", (k * QA).to_qobj().full(), k * A)
            chk("matmul", (QA @ QB).to_qobj().full(), A @ B)
            amps = {}
            for _ in range(rng.randint(1, 4)):
                amps["".join(eig[rng.randrange(dim)] for _ in range(n))] = complex(round(rng.uniform(-1, 1), 3),
                                                                                  round(rng.uniform(-1, 1), 3))
            if all(abs(v) < 1e-9 for v in amps.values()):
                amps[next(iter(amps))] = 1.0
            S = QutipState.from_state_amplitudes(eigenstates=eig, amplitudes=amps)
            v = np.zeros(dim ** n, dtype=complex)
            for s_, a in amps.items():
                ix = 0
                for ch in s_:
                    ix = ix * dim + eig.index(ch)
                v[ix] += a
            chk("from_state_amplitudes", S.to_qobj().full().ravel(), v)
            chk("apply_to(ket)", QA.apply_to(S).to_qobj().full().ravel(), A @ v)
            chk("expect(ket)", QA.expect(S), np.vdot(v, A @ v))
            rho = rand_state(rng, dim, n, "dm")
            R = QutipState(qobj(rho, dim, n), eigenstates=eig)
            chk("apply_to(dm)", QA.apply_to(R).to_qobj().full(), A @ rho @ A.conj().T)
            chk("expect(dm)", QA.expect(R), np.trace(rho @ A))
            ctx.count("algebra_checks")
            if abs(R.overlap(S) - np.vdot(v, rho @ v).real) > 1e-9 or abs(S.overlap(R) - np.vdot(v, rho @ v).real) > 1e-9:
                ctx.violation("algebra", "overlap(ket, dm) != <psi|rho|psi>", "algebra:overlap")
        except Exception as e:
            ctx.violation("algebra-raises", f"{type(e).__name__}: {str(e)[:200]} ({n} qudits dim {dim} {eig})",
                          f"algebra-raises:{type(e).__name__}")
    ctx.mark_nontrivial(("algebra", dim, n, eig, idx % 50))


# ------------------------------------------------------------------------------------------------ run
def w_run(ctx, rng, idx):
    import pulser
    from pulser.backend import default_observables as DO
    from pulser_simulation import QutipBackendV2, QutipConfig, QutipOperator

    n = rng.randint(1, 3)
    modulated = rng.random() < 0.3
    sp = gen.pick(rng, [6.0, 9.0] if modulated else [6.0, 9.0, 40.0])
    reg = pulser.Register({f"q{i}": (i * sp, 0.0) for i in range(n)})
    seq = pulser.Sequence(reg, pulser.AnalogDevice if modulated else pulser.MockDevice)
    basis = "ground-rydberg" if modulated else gen.pick(rng, ["ground-rydberg", "ground-rydberg", "digital"])
    ch = {"ground-rydberg": "rydberg_global", "digital": "raman_global"}[basis]
    seq.declare_channel("ch", ch)
    for _ in range(rng.randint(1, 3)):
        D = gen.pick(rng, [40, 100, 116, 252])
        seq.add(pulser.Pulse.ConstantPulse(D + (12 if modulated else 0), round(rng.uniform(0.5, 6), 3), round(rng.uniform(-4, 4), 3),
                                           round(rng.uniform(0, 6), 3)), "ch")
        if rng.random() < 0.3:
            seq.delay(gen.pick(rng, [16, 60]), "ch")
    noise = gen.pick(rng, [None, None, "dephasing", "relaxation", "depolarizing", "doppler", "amplitude"])
    if noise == "relaxation" and basis != "ground-rydberg":
        noise = "dephasing"
    if noise in ("doppler", "amplitude") and (basis != "ground-rydberg" or modulated):
        noise = "depolarizing"
    if idx % 12 == 8 and not modulated:
        # state-preparation errors with a dissipative channel: the backend averages density matrices over the drawn
        # configurations of badly prepared atoms, each weighted by how often it was drawn
        noise = "spam+dephasing"
    # (doppler / amplitude: the backend averages several randomly perturbed runs; the observables are still defined
    #  with the sequence's own Hamiltonian on the averaged state)
    nm = {None: None, "dephasing": lambda: pulser.NoiseModel(dephasing_rate=0.8, hyperfine_dephasing_rate=0.3),
          "relaxation": lambda: pulser.NoiseModel(relaxation_rate=1.0),
          "depolarizing": lambda: pulser.NoiseModel(depolarizing_rate=0.7),
          "doppler": lambda: pulser.NoiseModel(temperature=300.0, runs=4, samples_per_run=1),
          "amplitude": lambda: pulser.NoiseModel(amp_sigma=0.2, runs=4, samples_per_run=1),
          "spam+dephasing": lambda: pulser.NoiseModel(state_prep_error=0.3, dephasing_rate=0.8, hyperfine_dephasing_rate=0.3,
                                                      runs=12, samples_per_run=1)}[noise]
    nm = nm() if nm is not None else None
    if noise in ("doppler", "amplitude", "spam+dephasing"):
        ctx.count("runs_with_stochastic_noise")
    if noise == "spam+dephasing":
        ctx.count("runs_with_state_preparation_errors_and_dissipation")
    pool = [0.0, 0.1, 0.25, 0.5, 0.77, 1.0, 0.1234, 0.6180339887]  # the last two fall between the nanoseconds of the grid
    defaults = gen.pick(rng, [[1.0], [0.5, 1.0], [0.0, 0.25, 1.0], "Full" if rng.random() < 0.3 else [0.1, 0.77]])
    own = sorted(rng.sample(pool, rng.randint(1, 3)))
    own2 = sorted(rng.sample(pool, rng.randint(1, 2)))
    obs = [DO.StateResult(evaluation_times=sorted(set(own) | set(own2) | (set(defaults) if defaults != "Full" else set()))),
           DO.Occupation(evaluation_times=own), DO.Energy(), DO.EnergyVariance(evaluation_times=own2),
           DO.EnergySecondMoment(), DO.CorrelationMatrix(evaluation_times=own2, tag_suffix="b"),
           DO.Occupation(tag_suffix="default_times")]
    ctx.case = {"run": {"n": n, "basis": basis, "noise": noise, "default_evaluation_times": defaults, "own": own, "own2": own2}}
    kw = {"noise_model": nm} if nm is not None else {}
    if modulated:
        kw["with_modulation"] = True
    rate = gen.pick(rng, [1.0, 1.0, 0.5, 0.2])
    if rate != 1.0:
        kw["sampling_rate"] = rate
    ctx.case["run"]["sampling_rate"] = rate
    with warnings.catch_warnings():
        warnings.simplefilter("ignore")
        try:
            cfg = QutipConfig(observables=obs, default_evaluation_times=defaults, **kw)
            be = QutipBackendV2(seq, config=cfg)
            res = be.run()
        except Exception as e:
            if type(e).__name__ == "IntegratorException":
                # QuTiP's ODE integrator gave up (nsteps): a numerical failure of the solver, no statement about observables
                ctx.gray("solver-integrator-exception")
                return
            ctx.violation("run-raises", f"QutipBackendV2 raised {type(e).__name__}: {str(e)[:200]}", f"run-raises:{type(e).__name__}")
            return
    # the emulated duration, from an independently built emulator (with modulation it exceeds the sequence duration)
    from pulser_simulation import QutipEmulator
    with warnings.catch_warnings():
        warnings.simplefilter("ignore")
        ref_emu = QutipEmulator.from_sequence(seq, with_modulation=modulated, sampling_rate=rate)
    T = ref_emu.total_duration_ns
    ctx.count("runs_with_modulation" if modulated else "runs_without_modulation")
    if res.total_duration != T:
        ctx.violation("total-duration", f"Results.total_duration = {res.total_duration}, emulated duration {T} "
                      f"(sequence {seq.get_duration()} ns, modulation {modulated})", "results-total-duration")
    tol = 1.0 / T
    states = dict(zip([round(float(t), 9) for t in res.get_result_times(obs[0])], res.get_result(obs[0]) if False else res.state))

    def state_at(t):
        k = min(states, key=lambda x: abs(x - t))
        return states[k] if abs(k - t) <= tol else None

    eig = ("r", "g") if basis == "ground-rydberg" else ("g", "h")
    one = 0 if basis == "ground-rydberg" else 1
    for tk, S in states.items():
        m = np.asarray(S.to_qobj().full())
        tr = float(np.real(np.trace(m))) if m.shape[1] > 1 else float(np.real(np.vdot(m, m)))
        ctx.count("stored_state_traces_checked")
        if abs(tr - 1) > 1e-3:  # (the solvers keep the norm to about 1e-6)
            ctx.violation("stored-state", f"the state stored at t={tk:.4f} ({noise or 'no'} noise) has trace / squared norm {tr!r}: "
                          "not a state, and every observable is defined on it", "stored-state-not-normalised:" + str(noise))
            break
    for o in obs:
        want = o.evaluation_times if o.evaluation_times is not None else (None if defaults == "Full" else defaults)
        try:
            times = [float(t) for t in res.get_result_times(o)]
            vals = [res.get_result(o, t) for t in times]
            by_tag = res.get_tagged_results()[o.tag] if hasattr(res, "get_tagged_results") else getattr(res, o.tag)
        except Exception as e:
            ctx.violation("results-access", f"results of {o.tag} not retrievable: {type(e).__name__}: {str(e)[:160]}",
                          f"results-access:{type(e).__name__}")
            continue
        ctx.count("result_time_sets_checked")
        if want is not None:
            want = sorted(float(w) for w in want)
            # (the value is stored under the requested time itself, not under a neighbouring step of the solver grid)
            ok = len(times) == len(want) and all(abs(a - b) <= 1e-9 for a, b in zip(times, want))
            if any(abs(w * T - round(w * T)) > 1e-6 for w in want):
                ctx.count("result_time_sets_with_off_grid_times")
                if defaults == "Full":
                    ctx.count("off_grid_times_with_full_default")
            missing = [w for w in want if not any(abs(w - a) <= 1e-9 for a in times)]
            if missing:
                # (distinct from the known finding below, where the requested times are all there but further ones too)
                kind = "own" if o.evaluation_times is not None else "default"
                ctx.violation("result-times", f"{o.tag} ({kind} evaluation times {want}, defaults {defaults}, sampling rate "
                              f"{rate}): nothing stored at the requested {missing[:4]}; stored at {[round(t, 5) for t in times][:8]}",
                              f"result-times-missing:{kind}")
            elif not ok:
                kind = "own" if o.evaluation_times is not None else "default"
                ctx.violation("result-times", f"{o.tag} ({kind} evaluation times {want}, defaults {defaults}): values stored at "
                              f"{[round(t, 4) for t in times][:8]}", f"result-times:{kind}")
        if times != sorted(times) or len(by_tag) != len(times):
            ctx.violation("result-times", f"{o.tag}: times not ascending / tag access differs", "result-times:order")
        # ---- recompute every stored value from the stored state and H(t) ------------------------------
        for t, v in zip(times, vals):
            S = state_at(t)
            if S is None or isinstance(o, DO.StateResult):
                continue
            st = np.asarray(S.to_qobj().full())
            st = st.ravel() if st.shape[1] == 1 else st
            rho = qm.as_rho(st)
            H = np.asarray(ref_emu.get_hamiltonian(t * T, noiseless=True).full())
            ctx.count("run_values_recomputed")
            e, e2 = qm.expect(rho, H).real, qm.expect(rho, H @ H).real
            ref = {"occupation": lambda: qm.occupation(rho, n, 2, one), "correlation_matrix": lambda: qm.correlation(rho, n, 2, one),
                   "energy": lambda: e, "energy_variance": lambda: e2 - e * e, "energy_second_moment": lambda: e2}[o._base_tag]()
            if not close(v, ref, max(1.0, abs(e2))):
                ctx.violation("stored-value", f"{o.tag} at t={t:.4f} ({'mixed' if noise else 'pure'} state): stored "
                              f"{np.asarray(v).ravel()[:4]}, definition on the stored state gives {np.asarray(ref).ravel()[:4]}",
                              f"stored:{o._base_tag}:{'mixed' if noise else 'pure'}")
    ctx.mark_nontrivial(("run", n, basis, noise, str(defaults), tuple(own), tuple(own2)))


def w_call_times(ctx, rng, idx):
    """Observable.__call__ fed with solver steps one nanosecond apart around requested times, for emulations lasting
    from 1 us to 2 ms: a value is stored for a step only if it lies within half a nanosecond of a requested time."""
    from pulser.backend import default_observables as DO
    from pulser.backend.config import EmulationConfig
    from pulser.backend.results import Results
    from pulser_simulation import QutipOperator, QutipState

    T = gen.pick(rng, [1000, 20_000, 200_000, 200_000, 2_000_000])
    own = sorted(rng.sample([0.1, 0.25, 0.5, 0.6180339887, 0.9, 1.0], rng.randint(1, 3)))
    defaults = gen.pick(rng, [[1.0], [0.5, 1.0], [0.3]])
    obs = gen.pick(rng, [DO.StateResult, DO.Energy, DO.Occupation])(evaluation_times=own)
    cfg = EmulationConfig(observables=(obs,), default_evaluation_times=tuple(defaults))
    state = QutipState.from_state_amplitudes(eigenstates=("r", "g"), amplitudes={"g": 0.6, "r": 0.8})
    ham = QutipOperator.from_operator_repr(eigenstates=("r", "g"), n_qudits=1, operations=[(1.0, [])])
    res = Results(atom_order=("q0",), total_duration=T)
    ctx.case = {"call_times": {"total_duration": T, "own": own, "defaults": defaults, "observable": type(obs).__name__}}
    steps = sorted({min(1.0, max(0.0, t + k / T)) for t in set(own) | set(defaults) for k in range(-3, 4)})
    for t in steps:
        obs(cfg, t, state, ham, res)
    try:
        stored = [float(t) for t in res.get_result_times(obs)]
    except Exception:
        stored = []
    ctx.count("call_time_sets_checked")
    if T >= 100_000:
        ctx.count("call_time_sets_checked_long_emulations")
    requested = sorted(set(own) | set(defaults))  # (own times plus the defaults: known finding 'result-times:own')
    stray = [t for t in stored if min(abs(t - q) for q in requested) > 0.5 / T * (1 + 1e-6)]
    missing = [q for q in own if not any(abs(t - q) <= 0.5 / T * (1 + 1e-6) for t in stored)]
    ctx.mark_nontrivial(("calltimes", T, tuple(own), tuple(defaults), type(obs).__name__))
    if stray:
        ctx.violation("result-times", f"{obs.tag}: with steps 1 ns apart in an emulation of {T} ns, values were stored at "
                      f"{[round((t - min(requested, key=lambda q: abs(q - t))) * T, 2) for t in stray][:5]} ns from the "
                      f"closest requested time (requested {requested})", "result-times-stray:" + ("long" if T >= 100_000 else "short"))
    if missing:
        ctx.violation("result-times", f"{obs.tag}: nothing stored at the requested {missing} (emulation of {T} ns)",
                      "result-times-missing:own")


def run_case(ctx, idx, rng, tier):
    if idx % 9 == 4:
        return w_call_times(ctx, rng, idx)
    w = idx % 3
    if w == 0:
        w_direct(ctx, rng, idx)
    elif w == 1:
        w_algebra(ctx, rng, idx)
    else:
        w_run(ctx, rng, idx)
