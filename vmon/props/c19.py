"""C19 — layouts number traps canonically; registers, mappable registers, detuning maps and layouts agree."""
from __future__ import annotations

import math

import numpy as np

from vmon.gen import pick, wchoice
from vmon.ref import traps as T

LEVEL = "exploration"
RULE = ("a coordinate set (2D/3D, 1..24 points: jittered grids, uniform points, columns with equal x, 3D columns with equal "
        "x and y) into which near-ties at the rounding precision are injected: partners of existing points displaced by "
        "+-4e-7, +-6e-7, 1e-6, 2e-6, 5e-6, 2e-5 in the leading coordinate with a different next coordinate (so that the "
        "order of the raw and of the rounded points differ), coordinates +-1e-7 / +-0.0 (signed zeros), decimal half-way "
        "literals (x.xxxxxx5: gray) and sets whose rounded points collide (outside the domain: gray). For the set and 3 "
        "random permutations of it: RegisterLayout.traps_dict/coords identical, IDs = ascending (x,y,z) of the "
        "exact-decimal-rounded points recomputed by the reference, static_hash / == / hash equal; define_register on "
        "random trap selections puts every qubit exactly on its trap and get_traps_from_coordinates inverts it; "
        "MappableRegister.build_register (mapping given in shuffled order) yields the declared order on the mapped traps; "
        "DetuningMaps built by trap id, from shuffled raw coordinates and from shuffled rounded coordinates give every "
        "qubit (on a trap, 4e-7 beside one, 3e-6 beside one, far away) the weight of the trap at its position. "
        "non-trivial = distinct (case, 'perm') whose set has points tying in the rounded leading coordinate with different "
        "raw values, points within 1e-5 of each other, or a signed/rounded zero")
RULE += " Later additions: every weight map is asked a second time about the same names at rotated positions."
ASSUMPTIONS = ["sets whose 1e-6-rounded points collide (or may collide under either resolution of a decimal half-way case) are "
               "outside the domain: only counted",
               "a trap is 'at the position' of a qubit when its rounded coordinates are within 1e-6 (Euclidean, -0.1%) of it and "
               "'elsewhere' when farther than sqrt(dim)*1e-6 (+0.1%); in between, and when two traps are not clearly "
               "elsewhere, no verdict",
               "weights are compared to 1e-12"]
TIERS = {"quick": dict(cases=4000, shards=8, case_timeout=120, shard_timeout=900),
         "thorough": dict(cases=40000, shards=16, case_timeout=120, shard_timeout=3000)}
FLOORS = {"quick": {"invalid_trap_ids_refused": 5000, "wrong_recorded_trap_ids_sharing_a_coordinate_refused": 300,
                    "permutations_checked": 3000, "canonical_ids_checked": 900, "define_register_checked": 3000,
                    "lookups_checked": 3000, "mappable_checked": 2000, "qubit_weights_checked": 8000,
                    "sets_with_near_ties": 750, "detuning_maps_built": 2500},
          "thorough": {"permutations_checked": 30000, "canonical_ids_checked": 9000, "define_register_checked": 30000,
                       "lookups_checked": 30000, "mappable_checked": 20000, "qubit_weights_checked": 80000,
                       "sets_with_near_ties": 7500, "detuning_maps_built": 25000}}

DELTAS = [4e-7, -4e-7, 6e-7, -6e-7, 1e-6, -1e-6, 2e-6, 5e-6, 2e-5, 3e-7, 1.1e-6]


# --------------------------------------------------------------------------------------------- coordinate sets
def base_points(rng, dim: int, n: int) -> list[list[float]]:
    k = wchoice(rng, {"grid": 3, "uniform": 3, "column": 2, "zcolumn": 1.5 if dim == 3 else 0, "decimal": 2})
    pts: list[list[float]] = []
    if k == "grid":
        s = pick(rng, [1.0, 4.0, 0.5, 5.3, 1e-3])
        m = max(2, math.ceil(n ** (1 / dim)) + 1)
        cells = [(i, j, l) for i in range(-m // 2, m) for j in range(-m // 2, m) for l in (range(m) if dim == 3 else [0])]
        rng.shuffle(cells)
        jit = pick(rng, [0.0, 1e-7, 3e-7])
        for c in cells[:n]:
            pts.append([c[a] * s + rng.uniform(-jit, jit) for a in range(dim)])
    elif k == "uniform":
        R = pick(rng, [1.0, 30.0, 100.0, 1e-4])
        pts = [[rng.uniform(-R, R) for _ in range(dim)] for _ in range(n)]
    elif k == "column":
        x = pick(rng, [0.0, 2.5, -7.0000002, 30.0])
        pts = [[x + pick(rng, [0.0, 0.0, 1e-7, -1e-7, 2e-7, 4e-7])] + [rng.uniform(-20, 20) for _ in range(dim - 1)]
               for _ in range(n)]
    elif k == "zcolumn":
        x, y = pick(rng, [0.0, 1.5]), pick(rng, [0.0, -3.0])
        pts = [[x + pick(rng, [0.0, 1e-7, -1e-7]), y + pick(rng, [0.0, 2e-7, -2e-7]), rng.uniform(-20, 20)]
               for _ in range(n)]
    else:
        pts = [[round(rng.uniform(-40, 40), pick(rng, [6, 7, 7, 5, 3])) for _ in range(dim)] for _ in range(n)]
    return pts


def inject_near_ties(rng, pts: list[list[float]], dim: int) -> list[list[float]]:
    out = [list(p) for p in pts]
    for _ in range(pick(rng, [0, 1, 1, 2, 3, 5])):
        p = list(pick(rng, out))
        kind = wchoice(rng, {"lead": 4, "lead+next": 3, "all": 1, "zero": 2, "half": 0.7, "collide": 0.5, "second": 1.5})
        if kind == "lead":          # same rounded x (maybe), other coordinates far: order decided by y of the rounded points
            p[0] += pick(rng, DELTAS)
            p[1] += pick(rng, [-3.0, 3.0, 0.7, -0.7])
        elif kind == "lead+next":   # close in x and close in y
            p[0] += pick(rng, DELTAS)
            p[1] += pick(rng, DELTAS + [2.0, -2.0])
        elif kind == "all":
            for a in range(dim):
                p[a] += pick(rng, DELTAS)
        elif kind == "second":
            p[1] += pick(rng, DELTAS)
            if dim == 3:
                p[2] += pick(rng, [1.0, -1.0, 4e-7])
        elif kind == "zero":
            a = rng.randrange(dim)
            p[a] = pick(rng, [0.0, -0.0, 1e-7, -1e-7, 4e-7, -4e-7, 6e-7, -6e-7, 5e-324, -5e-324])
            p[(a + 1) % dim] += pick(rng, [0.0, 1.0, -1.0])
        elif kind == "half":        # decimal half-way literal: rounding not determined -> gray
            a = rng.randrange(dim)
            p[a] = round(p[a], 6) + pick(rng, [5e-7, -5e-7, 1.5e-6])
            p[(a + 1) % dim] += pick(rng, [0.0, 1.0])
        else:                       # rounded points collide: outside the domain
            p[rng.randrange(dim)] += pick(rng, [1e-7, -1e-7, 2e-7, 0.0])
        out.append(p)
    rng.shuffle(out)
    return out


def arr(x) -> np.ndarray:
    return np.asarray(x.as_array(detach=True) if hasattr(x, "as_array") else x, dtype=float)


def same(a, b) -> bool:
    a, b = np.asarray(a, dtype=float), np.asarray(b, dtype=float)
    return a.shape == b.shape and bool(np.all(a == b))


# --------------------------------------------------------------------------------------------- the case
def run_case(ctx, idx, rng, tier):
    from pulser.register.mappable_reg import MappableRegister
    from pulser.register.register_layout import RegisterLayout
    from pulser.register.weight_maps import DetuningMap

    dim = pick(rng, [2, 2, 3])
    n0 = pick(rng, [1, 2, 3, 4, 6, 9, 12, 16, 20])
    S = inject_near_ties(rng, base_points(rng, dim, n0), dim)
    n = len(S)
    ctx.case = {"dim": dim, "coords": [list(p) for p in S]}
    ctx.sample(ctx.case)
    ref = T.canonical(S)
    exact_dup = len({tuple(p) for p in S}) < n      # -0.0 == 0.0 -> also duplicates
    perms = [list(range(n))] + [rng.sample(range(n), n) for _ in range(3)]
    layouts, excs = [], []
    for pm in perms:
        try:
            layouts.append(RegisterLayout(np.array([S[i] for i in pm], dtype=float)))
            excs.append(None)
        except Exception as e:
            layouts.append(None)
            excs.append(e)
    ctx.count("layouts_built", sum(l is not None for l in layouts))
    # ---- domain ---------------------------------------------------------------------------------
    if ref["collide"] or ref["may_collide"]:
        ctx.gray("rounded-points-collide" if ref["collide"] else "half-way-rounding-may-collide")
        if any(e is not None for e in excs):
            ctx.count("colliding_sets_rejected")
        if len({e is None for e in excs}) > 1:
            ctx.gray("colliding-set-rejected-for-some-orders-only")
        return
    if any(e is not None for e in excs):
        e = next(e for e in excs if e is not None)
        ctx.violation("canonical", f"a set of {n} traps with distinct rounded coordinates was rejected: "
                      f"{type(e).__name__}: {str(e)[:200]}", "layout-construct-raised")
        return
    L0 = layouts[0]
    near = T.has_near_ties(S, ref["keys"])
    if near:
        ctx.mark_nontrivial((idx, "perm"))
        ctx.count("sets_with_near_ties")
    # ---- permutation invariance -------------------------------------------------------------------
    td0 = L0.traps_dict
    c0 = L0.coords
    if sorted(td0) != list(range(n)) or L0.number_of_traps != n or not same(c0, [td0[i] for i in range(n)]):
        ctx.violation("canonical", f"traps_dict keys {sorted(td0)[:5]}.. / coords inconsistent for {n} traps",
                      "layout-ids-not-0..n-1")
        return
    # ---- what a layout hands out is a snapshot: writing into it (centring, scaling for a plot ...) must not move the traps
    if idx % 2:
        c0 = np.array(c0, dtype=float, copy=True)
        td0 = {k: np.array(v, dtype=float, copy=True) for k, v in td0.items()}
        h0 = L0.static_hash()
        for Lx in layouts:
            outs = [Lx.coords, Lx.sorted_coords, *Lx.traps_dict.values()]
            for a in outs:
                if isinstance(a, np.ndarray) and a.flags.writeable:
                    a *= 1.7
                    a += 3.3
                    ctx.count("handed_out_arrays_scribbled")
        for Lx in layouts:
            if not same(Lx.coords, c0) or any(not same(Lx.traps_dict[i], td0[i]) for i in range(n)) or Lx.static_hash() != h0:
                ctx.violation("canonical", "writing into arrays handed out by a layout (coords / sorted_coords / traps_dict "
                              "values) changed the layout's own traps / hash", "layout-hands-out-internal-array")
                return
    for pm, L in zip(perms[1:], layouts[1:]):
        ctx.count("permutations_checked")
        if not same(L.coords, c0) or any(not same(L.traps_dict[i], td0[i]) for i in range(n)):
            diff = [i for i in range(n) if not same(L.traps_dict[i], td0[i])][:4]
            ctx.violation("canonical", f"traps_dict depends on the order of the coordinates: ids {diff} differ for "
                          f"permutation {pm}", "layout-ids-order-dependent")
        if L.static_hash() != L0.static_hash():
            ctx.violation("hash-eq", f"static_hash differs for permutation {pm}", "layout-hash-order-dependent")
        if not (L == L0 and L0 == L) or L != L0:
            ctx.violation("hash-eq", f"layouts of the same coordinate set compare unequal for permutation {pm}",
                          "layout-eq-order-dependent")
        if hash(L) != hash(L0) or repr(L) != repr(L0):
            ctx.violation("hash-eq", f"hash()/repr differ for permutation {pm}", "layout-hash-order-dependent")
    # ---- canonical numbering recomputed by the reference ------------------------------------------------
    if ref["ambiguous"]:
        ctx.gray("half-way-rounding:ids-not-compared")
    else:
        ctx.count("canonical_ids_checked")
        for tid, src in enumerate(ref["order"]):
            want = [T.rounded_value(k) for k in ref["keys"][src]]
            got = td0[tid]
            if not same(got, want):
                others = [j for j in range(n) if same(got, [T.rounded_value(k) for k in ref["keys"][j]])]
                if others:
                    ctx.violation("canonical", f"trap id {tid} is {list(got)}, but ascending (x,y,z) order of the rounded "
                                  f"coordinates puts {want} (input point {src}: {S[src]}) there", "layout-ids-not-canonical")
                else:
                    ctx.violation("canonical", f"trap id {tid} has coordinates {[repr(float(v)) for v in got]} which are "
                                  f"not the 1e-6 rounding of any input point (expected {want})", "layout-coords-not-rounded")
                break
    # ---- define_register / lookup ---------------------------------------------------------------------
    L = pick(rng, layouts)
    td = L.traps_dict
    for _ in range(3):
        m = rng.randint(1, n)
        sel = rng.sample(range(n), m)
        qids = pick(rng, [[f"q{i}" for i in range(m)], [f"x{m - i}" for i in range(m)], None])
        ctx.case = dict(ctx.case, trap_ids=sel, qubit_ids=qids)
        try:
            reg = L.define_register(*sel, qubit_ids=qids) if qids else L.define_register(*sel)
        except Exception as e:
            ctx.violation("register", f"define_register({sel}) raised {type(e).__name__}: {str(e)[:200]}",
                          "define-register-raised")
            continue
        ctx.count("define_register_checked")
        names = qids or [f"q{i}" for i in range(m)]
        qs = reg.qubits
        if list(qs) != names:
            ctx.violation("register", f"qubit ids {list(qs)[:6]} != requested {names[:6]}", "define-register-wrong-ids")
            continue
        bad = [(q, t) for q, t in zip(names, sel) if not same(arr(qs[q]), td[t])]
        if bad:
            q, t = bad[0]
            ctx.violation("register", f"qubit {q} defined on trap {t} sits at {list(arr(qs[q]))}, the trap at "
                          f"{list(td[t])}", "define-register-off-trap")
        if reg.layout is None or not (reg.layout == L):
            ctx.violation("register", "register defined from a layout does not carry that layout", "define-register-no-layout")
        # inverse lookup, from the register's coordinates and from the original (unrounded) points
        ctx.count("lookups_checked")
        try:
            back = L.get_traps_from_coordinates(*[arr(qs[q]) for q in names])
            if list(back) != list(sel):
                ctx.violation("lookup", f"get_traps_from_coordinates(coords of traps {sel[:6]}) = {list(back)[:6]}",
                              "lookup-not-inverse")
        except Exception as e:
            ctx.violation("lookup", f"get_traps_from_coordinates of the register's own coordinates raised "
                          f"{type(e).__name__}: {str(e)[:200]}", "lookup-raised")
        if not ref["ambiguous"]:
            try:
                raw = [S[ref["order"][t]] for t in sel]
                back = L.get_traps_from_coordinates(*raw)
                if list(back) != list(sel):
                    ctx.violation("lookup", f"get_traps_from_coordinates(original points of traps {sel[:6]}) = "
                                  f"{list(back)[:6]}", "lookup-original-coords-not-inverse")
            except Exception as e:
                ctx.violation("lookup", f"get_traps_from_coordinates of the original points raised {type(e).__name__}: "
                              f"{str(e)[:200]}", "lookup-original-coords-raised")
    # ---- ids that name no trap, and recorded ids that are not where the qubits are (fault injection) ----------------
    for bad in {-1, -n, n, n + 3}:
        good = rng.sample(range(n), rng.randint(0, min(n, 2)))
        ids_ = good + [bad]
        rng.shuffle(ids_)
        for how in ("define_register", "build_register"):
            ctx.case = dict(ctx.case, invalid_trap_ids=ids_, via=how)
            try:
                if how == "define_register":
                    regx = L.define_register(*ids_)
                else:
                    names_ = [f"m{i}" for i in range(len(ids_))]
                    regx = MappableRegister(L, *names_).build_register(dict(zip(names_, ids_)))
            except Exception:
                ctx.count("invalid_trap_ids_refused")
                continue
            ctx.violation("register", f"{how} accepted the trap ids {ids_} of a layout with traps 0..{n - 1}; the qubit "
                          f"recorded on trap {bad} sits at {list(arr(list(regx.qubits.values())[ids_.index(bad)]))}",
                          f"invalid-trap-id-accepted:{'negative' if bad < 0 else 'too-large'}")
    if n >= 2:
        from pulser.register.register import Register
        from pulser.register.register3d import Register3D
        sel = rng.sample(range(n), rng.randint(2, min(n, 5)))
        coords_ = {f"q{i}": td[t] for i, t in enumerate(sel)}
        wrong = sel[1:] + sel[:1]  # every qubit recorded on another qubit's trap
        cls_ = Register3D if dim == 3 else Register
        ctx.case = dict(ctx.case, trap_ids=sel, recorded_trap_ids=wrong)
        try:
            cls_(coords_, layout=L, trap_ids=sel)
            ctx.count("registers_with_recorded_layout_built")
        except Exception as e:
            ctx.violation("register", f"a register whose qubits sit on traps {sel} was refused with layout= and those "
                          f"trap_ids=: {type(e).__name__}: {str(e)[:160]}", "register-with-layout-refused")
        try:
            cls_(coords_, layout=L, trap_ids=wrong)
        except Exception:
            ctx.count("wrong_recorded_trap_ids_refused")
            shares = any(np.any(np.asarray(td[a]) == np.asarray(td[b])) for a, b in zip(sel, wrong))
            if shares:
                ctx.count("wrong_recorded_trap_ids_sharing_a_coordinate_refused")
        else:
            ctx.violation("register", f"a register whose qubits sit on traps {sel} was accepted with the recorded "
                          f"trap_ids {wrong}", "wrong-recorded-trap-ids-accepted")
    # ---- mappable register -------------------------------------------------------------------------------
    for _ in range(2):
        nq = rng.randint(1, n)
        declared = pick(rng, [[f"q{i}" for i in range(nq)], [f"b{nq - i}" for i in range(nq)]])
        m = rng.randint(1, nq)
        chosen = declared[:m]
        traps_for = rng.sample(range(n), m)
        mapping_items = list(zip(chosen, traps_for))
        rng.shuffle(mapping_items)
        ctx.case = dict(ctx.case, declared=declared, mapping=mapping_items)
        try:
            mreg = MappableRegister(L, *declared)
            reg = mreg.build_register(dict(mapping_items))
        except Exception as e:
            ctx.violation("mappable", f"build_register({mapping_items[:5]}) raised {type(e).__name__}: {str(e)[:200]}",
                          "mappable-raised")
            continue
        ctx.count("mappable_checked")
        qs = reg.qubits
        if list(qs) != chosen:
            ctx.violation("mappable", f"built register lists qubits {list(qs)[:6]}, declared order is {chosen[:6]}",
                          "mappable-wrong-order")
            continue
        mp = dict(mapping_items)
        bad = [q for q in chosen if not same(arr(qs[q]), td[mp[q]])]
        if bad:
            ctx.violation("mappable", f"qubit {bad[0]} mapped to trap {mp[bad[0]]} sits at {list(arr(qs[bad[0]]))}, the "
                          f"trap at {list(td[mp[bad[0]]])}", "mappable-off-trap")
        # the same mappable register asked again for the same qubits on other traps: each answer follows its own mapping
        if n > m:
            traps2 = rng.sample(range(n), m)
            if traps2 != traps_for:
                mp2 = dict(zip(chosen, traps2))
                try:
                    reg2 = mreg.build_register(dict(mp2))
                    ctx.count("mappable_rebuilt_with_other_traps")
                    q2 = reg2.qubits
                    bad2 = [q for q in chosen if not same(arr(q2[q]), td[mp2[q]])]
                    if bad2:
                        ctx.violation("mappable", f"second build_register on the same MappableRegister: qubit {bad2[0]} mapped "
                                      f"to trap {mp2[bad2[0]]} sits at {list(arr(q2[bad2[0]]))} (first mapping put it on trap "
                                      f"{mp[bad2[0]]})", "mappable-second-build-follows-first")
                    if any(not same(arr(reg.qubits[q]), td[mp[q]]) for q in chosen):
                        ctx.violation("mappable", "the register of the first build moved when the second was built",
                                      "mappable-first-build-changed")
                except Exception as e:
                    ctx.violation("mappable", f"second build_register({list(mp2.items())[:5]}) raised {type(e).__name__}: "
                                  f"{str(e)[:160]}", "mappable-raised")
    # ---- detuning maps --------------------------------------------------------------------------------------
    if ref["ambiguous"]:
        ctx.gray("half-way-rounding:weights-not-compared")
        return
    mt = rng.randint(1, n)
    wt_ids = rng.sample(range(n), mt)                      # canonical trap ids carrying a weight
    ws = [pick(rng, [0.0, 1.0, 0.5, 0.25, 1e-9, round(rng.random(), 3)]) for _ in wt_ids]
    raw_pts = [S[ref["order"][t]] for t in wt_ids]
    o1, o2 = rng.sample(range(mt), mt), rng.sample(range(mt), mt)
    ctx.case = {"dim": dim, "coords": ctx.case["coords"], "weights": dict(zip(map(str, wt_ids), ws))}
    maps = {}
    builders = {
        "by-id": lambda: L0.define_detuning_map(dict(zip(wt_ids, ws))),
        "raw-shuffled": lambda: DetuningMap(np.array([raw_pts[i] for i in o1], dtype=float), [ws[i] for i in o1]),
        "rounded-shuffled": lambda: DetuningMap(np.array([td0[wt_ids[i]] for i in o2], dtype=float), [ws[i] for i in o2]),
    }
    for name, fn in builders.items():
        try:
            maps[name] = fn()
            ctx.count("detuning_maps_built")
        except Exception as e:
            how = "define_detuning_map" if name == "by-id" else "DetuningMap"
            ctx.violation("weights", f"{how} [{name}] over {mt} of the layout's {n} traps (weights {ws[:5]}) raised "
                          f"{type(e).__name__}: {str(e)[:200]}",
                          f"{how}-raised:" + ("single-trap" if mt == 1 else "several-traps"))
    if not maps:
        return
    # qubits: on traps (with and without weight), beside traps, far away
    qubits: dict[str, np.ndarray] = {}
    for j, t in enumerate(rng.sample(range(n), min(n, 6))):
        qubits[f"on{t}"] = np.array(td0[t], dtype=float)
        if j < 3:
            d = np.zeros(dim)
            d[rng.randrange(dim)] = pick(rng, [4e-7, -4e-7, 3e-6, -3e-6, 5e-6, 2e-7])
            qubits[f"near{t}"] = np.array(td0[t], dtype=float) + d
    qubits["far"] = np.array([977.0 + rng.random()] * dim)
    keys = [ref["keys"][ref["order"][t]] for t in wt_ids]
    ambs = [ref["amb"][ref["order"][t]] for t in wt_ids]
    results = {}
    for name, dm in maps.items():
        try:
            results[name] = dm.get_qubit_weight_map(qubits)
        except Exception as e:
            ctx.violation("weights", f"get_qubit_weight_map raised {type(e).__name__}: {str(e)[:200]}", "weight-map-raised")
            return
    for q, pos in qubits.items():
        iv = T.weight_interval(pos, keys, ambs, ws, dim)
        vals = {name: float(r[q]) for name, r in results.items()}
        ctx.count("qubit_weights_checked")
        if iv is None:
            ctx.gray("weight:two-traps-near-position")
            continue
        lo, hi, n_in, n_gray = iv
        if n_gray:
            ctx.gray("weight:trap-at-distance-1e-6..sqrt(dim)e-6")
        if max(vals.values()) - min(vals.values()) > 1e-12:
            ctx.violation("weights", f"qubit at {list(pos)} gets different weights from maps of the same traps given in "
                          f"different order/rounding: {vals}", "weight-map-order-dependent")
        for name, v in vals.items():
            if v > hi + 1e-12:
                # witness-derived cause: does the excess equal the weight of the clearly-elsewhere traps that
                # numpy.isclose's default *relative* tolerance (1e-5*|q|) on top of the 1e-6 would still match?
                rel = sum(w for key, w in zip(keys, ws)
                          if T.relation(pos, key, (False,) * dim, dim) == T.OUT
                          and all(abs(k * 1e-6 - float(x)) <= 1e-6 + 1e-5 * abs(float(x)) for k, x in zip(key, pos)))
                cause = "relative-tolerance" if rel > 0 and abs(v - hi - rel) <= 1e-9 else "other"
                ctx.violation("weights", f"[{name}] qubit at {[repr(float(x)) for x in pos]} gets weight {v!r}; the trap at "
                              f"its position carries {hi!r} ({n_in} trap within 1e-6): weight of traps farther than "
                              f"sqrt(dim)*1e-6 was added", "weight-includes-distant-trap:" + cause)
                break
            if v < lo - 1e-12:
                ctx.violation("weights", f"[{name}] qubit at {[repr(float(x)) for x in pos]} gets weight {v!r}; the trap "
                              f"within 1e-6 of it carries {lo!r}", "weight-of-trap-missing")
                break
    # ---- the same map objects asked again about the same names sitting at *other* positions (rotated by one): the
    #      weight belongs to the position, so every name now gets what its new position got in the first query
    names = list(qubits)
    if len(names) >= 2:
        rot = {names[i]: qubits[names[(i + 1) % len(names)]] for i in range(len(names))}
        for name, dm in maps.items():
            try:
                again = dm.get_qubit_weight_map(rot)
            except Exception as e:
                ctx.violation("weights", f"second get_qubit_weight_map raised {type(e).__name__}: {str(e)[:200]}", "weight-map-raised")
                return
            ctx.count("weight_maps_queried_again_with_moved_qubits")
            bad = [(names[i], float(again[names[i]]), float(results[name][names[(i + 1) % len(names)]]))
                   for i in range(len(names))
                   if abs(float(again[names[i]]) - float(results[name][names[(i + 1) % len(names)]])) > 1e-12]
            if bad:
                ctx.violation("weights", f"[{name}] asked again with the same qubit names at other positions, the map gives "
                              f"(name, weight, weight of that position in the first query): {bad[:3]}",
                              "weight-map-depends-on-earlier-query")
                break
    if near:
        ctx.count("weight_maps_on_near_tie_sets")
