"""C05 — the emulated Hamiltonian equals the documented formula."""
import numpy as np

from vmon import gen, prog
from vmon.hammon import check_hamiltonian
from vmon.snap import state_key

LEVEL = "exploration"
RULE = ("online-generated small sequences (1-4 atoms, 2D/3D registers with shuffled ids; global + local channels on one "
        "or several bases, two channels on one basis, DMM with weighted maps, SLM mask, XY with random field directions, "
        "several Rydberg levels); QutipEmulator.get_hamiltonian(t) is compared at every ns (stride + all slot boundaries "
        "for long sequences) with a dense numpy.kron reference built from the recorded timeline, the register "
        "coordinates and a frozen copy of the C6 table; hermiticity and state ordering are checked. non-trivial = "
        "distinct case with >= 2 atoms and >= 2 of {local addressing, two bases, DMM, SLM, XY field not along z}")
RULE += " Later additions: directed: one DetuningMap object configured in two sequences whose registers carry the same ids at other traps, both emulated."
ASSUMPTIONS = ["when two channels of one basis drive the same atom the statement defines no combined phase: off-diagonal "
               "entries are gray there (diagonal still compared)",
               "after the end of a channel that is still in EOM mode the per-atom off-detuning is gray",
               "noiseless emulator; cases tainted by a C09 partial effect are set aside"]
TIERS = {"quick": dict(cases=480, shards=8, case_timeout=240, shard_timeout=1200),
         "thorough": dict(cases=4000, shards=16, case_timeout=240, shard_timeout=3400)}
FLOORS = {"quick": {"sequences_compared": 250, "hamiltonians_compared": 30000, "basis_checks": 250, "open_global_eom_blocks_padded": 5, "xy_mask_scripts_compared": 30,
                    "idle_sequences_compared": 15, "shared_detuning_map_pairs_compared": 15},
          "thorough": {"sequences_compared": 2000}}
WEIGHTS = {"sample": 0, "str": 0, "to_abstract_repr": 0, "build_copy": 0, "queries": 0, "get_duration": 0,
           "estimate_added_delay": 0, "is_in_eom_mode": 0, "current_phase_ref": 0, "measure": 0.05, "add": 12,
           "config_detuning_map": 1.5, "add_dmm_detuning": 3, "config_slm_mask": 1.0, "target": 2.5,
           "phase_shift": 1.5, "delay": 1.5, "align": 0.7, "enable_eom_mode": 1.0, "add_eom_pulse": 2,
           "modify_eom_setpoint": 1.5, "disable_eom_mode": 0.3}


def xy_mask_case(ctx, idx, rng):
    """Directed: XY mode, three or four atoms of which at least two are masked by the SLM, one or two global
    microwave channels, optionally a tilted magnetic field; the mask window covers the first pulse."""
    dev = {"kind": "builtin", "name": "MockDevice"}
    reg = gen.gen_register(rng, dev, nmin=3, nmax=4, kind="reg")
    r = prog.Runner(ctx, dev, reg, [])
    spec = r.chspecs["mw_global"]
    ids = list(reg["ids"])
    masked = rng.sample(ids, rng.randint(2, len(ids) - (0 if rng.random() < 0.3 else 1)))
    ops = [{"op": "declare_channel", "name": "mwa", "ch_id": "mw_global"}]
    if rng.random() < 0.5:
        ops.insert(0, {"op": "set_magnetic_field", "b": [gen.pick(rng, [0.0, 10.0, -5.0]), gen.pick(rng, [0.0, 7.0]),
                                                          gen.pick(rng, [30.0, 12.0])]})
    ops.insert(rng.randint(0, len(ops)), {"op": "config_slm_mask", "qubits": masked})
    d1 = gen.pick(rng, [16, 40, 100])
    if idx % 16 == 3:  # the first pulse of the sequence (and with it the mask) starts after t = 0
        ops.append({"op": "delay", "duration": [16, 48, 120][(idx // 16) % 3], "ch": "mwa"})
        ctx.count("xy_mask_scripts_with_a_late_first_pulse")
    ops.append({"op": "add", "pulse": gen.gen_pulse(rng, spec, d=d1, pps_p=0.0, arb=0.0), "ch": "mwa"})
    if rng.random() < 0.5:
        ops.append({"op": "declare_channel", "name": "mwb", "ch_id": "mw_global"})
        ops.append({"op": "delay", "duration": gen.pick(rng, [8, d1 // 2, d1, d1 + 12]), "ch": "mwb"})
        ops.append({"op": "add", "pulse": gen.gen_pulse(rng, spec, d=gen.pick(rng, [16, 60, 120]), pps_p=0.0, arb=0.0),
                    "ch": "mwb", "protocol": "no-delay"})
    for _ in range(rng.randint(0, 2)):
        ops.append({"op": "add", "pulse": gen.gen_pulse(rng, spec, d=gen.pick(rng, [16, 48]), pps_p=0.0, arb=0.0), "ch": "mwa"})
    for op in ops:
        ev = r.step(op)
        if ev.exc is not None:
            ctx.count("xy_script_call_refused")
            return
    ctx.count("xy_mask_scripts")
    if check_hamiltonian(ctx, r.seq, case=r.prog, tour_rng=rng):
        ctx.count("xy_mask_scripts_compared")
        ctx.mark_nontrivial(("c05xy", idx))


def idle_case(ctx, idx, rng):
    """Directed: a sequence that drives nothing (declared channel, delays only); an emulator of it is taken through a
    leakage configuration and back; the emulators built afterwards must be the plain two-level ones again."""
    import warnings

    import qutip
    from pulser_simulation import QutipEmulator, SimConfig

    dev = {"kind": "builtin", "name": "MockDevice"}
    reg = gen.gen_register(rng, dev, nmin=1, nmax=3, kind="reg")
    r = prog.Runner(ctx, dev, reg, [])
    cid = gen.pick(rng, ["mw_global", "rydberg_global", "raman_global"])
    for op in ({"op": "declare_channel", "name": "idle", "ch_id": cid}, {"op": "delay", "duration": gen.pick(rng, [16, 52, 200]), "ch": "idle"}):
        if r.step(op).exc is not None:
            return
    with warnings.catch_warnings():
        warnings.simplefilter("ignore")
        emu = QutipEmulator.from_sequence(r.seq)
        dim = len(emu.basis)
        try:
            emu.set_config(SimConfig(noise=("leakage", "eff_noise"), eff_noise_rates=[0.1],
                                     eff_noise_opers=[qutip.Qobj(np.diag([0.0] * dim + [1.0]))]))
            emu.get_hamiltonian(0)
            (emu.reset_config if rng.random() < 0.5 else (lambda: emu.set_config(SimConfig())))()
        except (NotImplementedError, ValueError, TypeError):
            ctx.count("idle_case_leakage_refused")
    ctx.count("idle_sequences_after_leakage_config")
    r.prog["emulator_config_history_of_an_earlier_emulator"] = ["leakage+eff_noise", "default"]
    if check_hamiltonian(ctx, r.seq, case=r.prog):
        ctx.count("idle_sequences_compared")


def shared_map_case(ctx, idx, rng):
    """Directed: ONE DetuningMap object configured in two sequences whose registers carry the same qubit ids at
    different traps; both are emulated, the second after the first (the weights are per position, not per name)."""
    from vmon import objs

    dev = {"kind": "builtin", "name": "MockDevice"}
    reg1 = gen.gen_register(rng, dev, nmin=2, nmax=4, kind="reg", ids=gen.pick(rng, ["str", "int"]))
    n = len(reg1["ids"])
    perm = gen.pick(rng, [list(range(n))[::-1], list(range(1, n)) + [0]])
    reg2 = {"kind": "reg", "ids": list(reg1["ids"]), "coords": [reg1["coords"][j] for j in perm]}
    ws = rng.sample([0.0, 1.0, 0.5, 0.25, 0.8], n)
    if not any(ws):
        ws[0] = 1.0
    objs.SHARED_MAPS.clear()
    m = {"by": "traps", "traps": [list(c) for c in reg1["coords"]], "weights": ws, "share": "c05-%d" % idx}
    done = 0
    for reg in (reg1, reg2):
        r = prog.Runner(ctx, dev, reg, [])
        ops = [{"op": "config_detuning_map", "map": m, "dmm_id": "dmm_0"}]
        d = gen.pick(rng, [16, 40, 100])
        ops.append({"op": "add_dmm_detuning", "wf": {"k": "const", "d": d, "v": -gen.pick(rng, [1.0, 4.0, 9.5])}, "ch": "dmm_0"})
        if rng.random() < 0.6:
            ops.insert(rng.randint(0, 1), {"op": "declare_channel", "name": "g", "ch_id": "rydberg_global"})
            ops.append({"op": "add", "pulse": gen.gen_pulse(rng, r.chspecs["rydberg_global"], d=gen.pick(rng, [16, 60]), pps_p=0.0, arb=0.0), "ch": "g"})
        for op in ops:
            if r.step(op).exc is not None:
                ctx.count("shared_map_call_refused")
                objs.SHARED_MAPS.clear()
                return
        r.prog["the_same_DetuningMap_object_was_used_before_with_register"] = None if reg is reg1 else reg1
        if check_hamiltonian(ctx, r.seq, case=r.prog):
            done += 1
    objs.SHARED_MAPS.clear()
    if done == 2:
        ctx.count("shared_detuning_map_pairs_compared")
        ctx.mark_nontrivial(("c05shared", idx))


def run_case(ctx, idx, rng, tier):
    if idx % 16 == 13:
        return shared_map_case(ctx, idx, rng)
    if idx % 8 == 3:
        return xy_mask_case(ctx, idx, rng)
    if idx % 16 == 7:
        return idle_case(ctx, idx, rng)
    xy = rng.random() < 0.25
    dev = gen.gen_device(rng, xy=xy, p_builtin=0.2, p_physical=0.1, max_seq=0.0, want_eom=0.45)
    if dev["kind"] == "builtin" and dev["name"] == "AnalogDevice":
        dev = {"kind": "builtin", "name": "MockDevice"}
    reg = gen.gen_register(rng, dev, nmin=1, nmax=4, kind="reg", ids=gen.pick(rng, ["str", "str", "int", "int-permuted"]))
    r = prog.Runner(ctx, dev, reg, [])
    g = gen.ProgGen(rng, dev, reg, r.chspecs, weights=WEIGHTS, max_channels=4)
    feats = set()
    for _ in range(rng.randint(5, 18)):
        op = g.next_op()
        ev = r.step(op)
        ok = ev.exc is None and ev.stage == "call"
        g.update(op, ok)
        if ev.exc is not None and state_key(ev.pre) != state_key(ev.post):
            ctx.count("discarded_after_C09")
            return
        if ok:
            if op["op"] in ("target", "target_index") or (op["op"] == "declare_channel" and op.get("initial_target") is not None):
                feats.add("local")
            if op["op"] in ("config_detuning_map", "add_dmm_detuning"):
                feats.add("dmm")
            if op["op"] == "config_slm_mask":
                feats.add("slm")
            if op["op"] == "set_magnetic_field" and (op["b"][0] or op["b"][1]):
                feats.add("field")
    if len({c["basis"] for c in g.chans.values()}) >= 2:
        feats.add("two-bases")
    done = check_hamiltonian(ctx, r.seq, case=r.prog, tour_rng=rng)
    if done and len(reg["ids"]) >= 2 and len(feats) >= 2:
        ctx.mark_nontrivial(("c05", idx))
    ctx.sample({k: (v if k != "ops" else v[:14]) for k, v in r.prog.items()})
