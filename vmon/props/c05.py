"""C05 — the emulated Hamiltonian equals the documented formula."""
from vmon import gen, prog
from vmon.hammon import check_hamiltonian
from vmon.snap import state_key

LEVEL = "exploration"
RULE = ("online-generated small sequences (1-4 atoms, 2D/3D registers with shuffled ids; global + local channels on one "
        "or several bases, two channels on one basis, DMM with weighted maps, SLM mask, XY with random field directions, "
        "several Rydberg levels); QutipEmulator.get_hamiltonian(t) is compared at every ns (stride + all slot boundaries "
        "for long sequences) with a dense numpy.kron reference built from the recorded timeline, the register "
        "coordinates and a frozen copy of the C6 table; hermiticity and state ordering are checked. non-trivial = "
        "distinct case with >= 2 atoms and >= 2 of {local addressing, two bases, DMM, SLM, XY field not along z}")
ASSUMPTIONS = ["when two channels of one basis drive the same atom the statement defines no combined phase: off-diagonal "
               "entries are gray there (diagonal still compared)",
               "after the end of a channel that is still in EOM mode the per-atom off-detuning is gray",
               "noiseless emulator; cases tainted by a C09 partial effect are set aside"]
TIERS = {"quick": dict(cases=480, shards=8, case_timeout=240, shard_timeout=1200),
         "thorough": dict(cases=4000, shards=16, case_timeout=240, shard_timeout=3400)}
FLOORS = {"quick": {"sequences_compared": 250, "hamiltonians_compared": 30000, "basis_checks": 250, "open_global_eom_blocks_padded": 5},
          "thorough": {"sequences_compared": 2000}}
WEIGHTS = {"sample": 0, "str": 0, "to_abstract_repr": 0, "build_copy": 0, "queries": 0, "get_duration": 0,
           "estimate_added_delay": 0, "is_in_eom_mode": 0, "current_phase_ref": 0, "measure": 0.05, "add": 12,
           "config_detuning_map": 1.5, "add_dmm_detuning": 3, "config_slm_mask": 1.0, "target": 2.5,
           "phase_shift": 1.5, "delay": 1.5, "align": 0.7, "enable_eom_mode": 1.0, "add_eom_pulse": 2,
           "modify_eom_setpoint": 1.5, "disable_eom_mode": 0.3}


def run_case(ctx, idx, rng, tier):
    xy = rng.random() < 0.25
    dev = gen.gen_device(rng, xy=xy, p_builtin=0.2, p_physical=0.1, max_seq=0.0, want_eom=0.45)
    if dev["kind"] == "builtin" and dev["name"] == "AnalogDevice":
        dev = {"kind": "builtin", "name": "MockDevice"}
    reg = gen.gen_register(rng, dev, nmin=1, nmax=4, kind="reg")
    r = prog.Runner(ctx, dev, reg, [])
    g = gen.ProgGen(rng, dev, reg, r.chspecs, weights=WEIGHTS, max_channels=4)
    feats = set()
    for _ in range(rng.randint(5, 18)):
        op = g.next_op()
        ev = r.step(op)
        ok = ev.exc is None and ev.stage == "call"
        g.update(op, ok)
        if ev.exc is not None and state_key(ev.pre) != state_key(ev.post):
            ctx.count("discarded_after_C09")
            return
        if ok:
            if op["op"] in ("target", "target_index") or (op["op"] == "declare_channel" and op.get("initial_target") is not None):
                feats.add("local")
            if op["op"] in ("config_detuning_map", "add_dmm_detuning"):
                feats.add("dmm")
            if op["op"] == "config_slm_mask":
                feats.add("slm")
            if op["op"] == "set_magnetic_field" and (op["b"][0] or op["b"][1]):
                feats.add("field")
    if len({c["basis"] for c in g.chans.values()}) >= 2:
        feats.add("two-bases")
    done = check_hamiltonian(ctx, r.seq, case=r.prog, tour_rng=rng)
    if done and len(reg["ids"]) >= 2 and len(feats) >= 2:
        ctx.mark_nontrivial(("c05", idx))
    ctx.sample({k: (v if k != "ops" else v[:14]) for k, v in r.prog.items()})
