"""C08 — building a parametrized sequence equals direct construction."""
import copy
import warnings

from vmon import gen, objs, param, prog
from vmon.snap import diff, forget_pulses, snapshot, state_key, timeline_diff

LEVEL = "exploration"
RULE = ("a concrete valid program is generated online; every numeric argument position is independently (p=1/2) replaced "
        "by a variable expression (scalars, array items, whole arrays, + - * / // % **, neg/abs/sqrt/exp, nested) to give a "
        "template; (A) the template is run on a parametrized sequence (concrete or mappable register) and built, (B) the "
        "same calls are issued directly with reference-evaluated literals; snapshots must agree (timeline, samples 1e-9, "
        "phases), the template must be unchanged by build, and builds v1, v2, v1 must be independent and reproducible. "
        "non-trivial = distinct case with >= 2 variables, >= 1 composite expression and >= 2 builds compared")
RULE += " Later additions: the sequence built first is read again (fresh samples) after each later build of the template."
ASSUMPTIONS = ["reference evaluation of expressions uses plain Python floats (vmon.objs.ref_eval)",
               "programs contain no deliberately invalid calls; a case tainted by a partial-effect raise is set aside (C09)"]
TIERS = {"quick": dict(cases=1500, shards=8, case_timeout=180, shard_timeout=900),
         "thorough": dict(cases=24000, shards=16, case_timeout=180, shard_timeout=3000)}
FLOORS = {"quick": {"builds_compared": 1200, "template_unchanged_checks": 1200, "rebuilds_compared": 400, "earlier_builds_rechecked": 400},
          "thorough": {"builds_compared": 8000}}
WEIGHTS = {"sample": 0, "str": 0, "to_abstract_repr": 0, "build_copy": 0, "queries": 0, "get_duration": 0,
           "estimate_added_delay": 0, "is_in_eom_mode": 0, "current_phase_ref": 0, "measure": 0.15,
           "target_index": 1.5, "phase_shift_index": 1.0, "set_magnetic_field": 0.05, "config_slm_mask": 0.5,
           "enable_eom_mode": 2.0, "disable_eom_mode": 1.6, "add_eom_pulse": 4.0}


def concrete_program(ctx, rng, dev, reg, nmax=26, weights=None, styles=False, maps_by_traps=False, motifs=None):
    """Run the online generator directly; keep only the successful mutating calls."""
    r = prog.Runner(ctx, dev, reg, [])
    g = gen.ProgGen(rng, dev, reg, r.chspecs, weights=weights or WEIGHTS, styles=styles)
    g.maps_by_traps = maps_by_traps
    g.motifs.update(motifs or {})
    g.cpd_given = 0.8
    ops = []
    for _ in range(rng.randint(5, nmax)):
        op = g.next_op()
        ev = r.step(op)
        ok = ev.exc is None and ev.stage == "call"
        g.update(op, ok)
        if ev.exc is not None and state_key(ev.pre) != state_key(ev.post):
            return None, None
        if ok and not ev.ro:
            ops.append(op)
    return ops, r


def qubits_referenced(ops, ids) -> set:
    """Qubit ids named explicitly by the calls of a program (targets, shifts, initial targets, masks)."""
    out = set()
    for o in ops:
        for key in ("qubits", "targets", "initial_target"):
            v = o.get(key)
            if v is None:
                continue
            for x in (v if isinstance(v, list) else [v]):
                if o["op"] in ("target_index", "phase_shift_index") and isinstance(x, int):
                    out.add(ids[x])
                elif x in ids:
                    out.add(x)
                elif isinstance(x, dict):  # an expression for an index: any qubit may be meant
                    out.update(ids)
        if o["op"] in ("phase_shift", "phase_shift_index") and not o.get("targets"):
            pass  # no target: no atom is shifted
    return out


def run_direct(ctx, dev, reg, ops):
    r = prog.Runner(ctx, dev, reg, [])
    for op in ops:
        ev = r.step(copy.deepcopy(op))
        if ev.exc is not None:
            return r, ev.exc
    return r, None


def run_case(ctx, idx, rng, tier):
    xy = rng.random() < 0.1
    dev = gen.gen_device(rng, xy=xy, max_seq=0.1, p_builtin=0.2)
    mapp = rng.random() < 0.3
    regB = gen.gen_register(rng, dev, nmin=1, nmax=4, kind="layout" if mapp else None)
    ops, _ = concrete_program(ctx, rng, dev, regB, maps_by_traps=mapp, motifs={"dmm-twice": 0.6})
    if ops is None:
        ctx.count("discarded_after_C09")
        return
    t = param.Templ(rng, p=0.5, strided=True)
    qids = regB["ids"]
    # (in about a third of the cases a prefix of the calls stays literal: those calls are executed at once on the
    #  template and *replayed* by build, the others are deferred)
    k0 = rng.randint(1, len(ops)) if ops and rng.random() < 0.35 else 0
    T = []
    for i, o in enumerate(ops):
        t.p = 0.0 if i < k0 else 0.5
        T.append(t.op(o, qids))
    if k0:
        ctx.count("templates_with_literal_prefix")
    if mapp:
        T = [o for o in T if o["op"] != "config_slm_mask"]  # documented: not with a mappable register
        ops = [o for o in ops if o["op"] != "config_slm_mask"]
        regA = {"kind": "mappable", "traps": regB["traps"], "ids": regB["ids"]}
        mapping = {q: tid for q, tid in zip(regB["ids"], regB["trap_ids"])}
    else:
        regA, mapping = regB, None
    used = param.vars_used(T)
    if not used:
        ctx.count("no_variable_used")
    v1 = dict(t.values)
    v2 = param.perturb(rng, t.values, t.kinds)
    case = {"device": dev, "registerA": regA, "registerB": regB, "template": t.decls + T, "v1": v1, "v2": v2}
    ctx.case = case
    # ---- (A) template on a parametrized sequence -------------------------------------------------
    env = objs.Env("param")
    rA = prog.Runner(ctx, dev, regA, [], env=env)
    ctx.case = case
    for d in t.decls:
        ev = rA.step(dict(d))
        if ev.exc is not None:
            raise RuntimeError(f"declare_variable failed: {ev.exc!r}")
    for o in T:
        ev = rA.step(copy.deepcopy(o))
        if ev.exc is not None and ev.stage != "call":
            # the arguments themselves (expressions over the declared variables, waveforms / pulses of them) could not
            # be written down although the reference evaluates them: no call was made yet
            ctx.violation("expression-refused", f"building the arguments of {o['op']} from the variables raised "
                          f"{type(ev.exc).__name__}: {str(ev.exc)[:200]}", f"expression-refused:{type(ev.exc).__name__}", case=case)
            return
        if ev.exc is not None and isinstance(ev.exc, (AssertionError, KeyError, IndexError, AttributeError, UnboundLocalError)):
            # not a refusal with a reason but a crash inside the library, on a call the direct construction accepts
            ctx.violation("template-call-crashes", f"{o['op']} on the parametrized sequence raised {type(ev.exc).__name__}: "
                          f"{str(ev.exc)[:160]} (the same call is accepted when issued directly)",
                          f"template-call-crashes:{o['op']}:{type(ev.exc).__name__}", case=case)
            return
        if ev.exc is not None:
            # A call that succeeds when issued directly may be refused while the sequence is parametrized
            # (deferred DMM declaration, SLM ...): then no such parametrized sequence exists and the statement is
            # silent -> no verdict for this case.
            ctx.gray("template-call-refused:" + o["op"])
            return
    ctx.case = case
    seqA = rA.seq
    if not seqA.is_parametrized() and not mapp:
        ctx.count("not_parametrized")
        return
    builds = 0

    def build(vals):
        kw = {k: v for k, v in vals.items()}
        with warnings.catch_warnings():
            warnings.simplefilter("ignore")
            return seqA.build(**kw, **({"qubits": mapping} if mapping else {}))

    def direct(vals):
        P = [param.concretize(o, vals) for o in T]
        return run_direct(ctx, dev, regB, P)

    # a nearly identical assignment (relative change 3e-6): must not be served from the previous build
    v1eps = {n: ([x * (1 + 3e-6) for x in v] if isinstance(v, list) else v * (1 + 3e-6)) if t.kinds[n] == "float" else v
             for n, v in v1.items()}
    results = {}
    kept: dict = {}
    for tag, vals in (("v1", v1), ("v1eps", v1eps), ("v2", v2), ("v1again", v1)):
        if tag == "v2":
            # between two builds: what the template hands out is the caller's to edit, and a template derived from it
            # (switch_register to the same register) is a sequence of its own
            snap_t = snapshot(seqA)
            try:
                with warnings.catch_warnings():
                    warnings.simplefilter("ignore")
                    handed = seqA.declared_variables
                    if isinstance(handed, dict):
                        handed["not_a_variable"] = None
                        handed.pop(next(iter(handed)), None)
                    if not mapp:
                        other = seqA.switch_register(seqA.register)
                        other.declare_variable("only_on_the_copy")
                ctx.count("template_aliasing_probes")
            except Exception:
                ctx.count("template_aliasing_probe_refused")
            if state_key(snapshot(seqA)) != state_key(snap_t):
                ctx.violation("template-changed", f"editing the dict returned by declared_variables / declaring a variable on "
                              f"a switch_register copy changed the template: {diff(snap_t, snapshot(seqA))[:3]}",
                              "template-changed:shared-variables", case=case)
                return
        before = state_key(snapshot(seqA))
        try:
            built, bexc = build(copy.deepcopy(vals)), None
        except Exception as e:
            built, bexc = None, e
        after = state_key(snapshot(seqA))
        ctx.count("template_unchanged_checks")
        if before != after:
            ctx.violation("template-changed", f"build({tag}) changed the template sequence", "template-changed", case=case)
        rB, dexc = direct(vals)
        ctx.case = case
        if dexc is not None:
            ctx.count("direct_rejects")
            if bexc is None:
                ctx.violation("build-accepts-what-direct-rejects", f"direct construction with {tag} raised "
                              f"{type(dexc).__name__}: {str(dexc)[:120]} but build returned", "build-accepts", case=case)
            continue
        if bexc is not None:
            ctx.violation("build-raises", f"build({tag}) raised {type(bexc).__name__}: {str(bexc)[:200]} although the direct "
                          "construction with the evaluated values succeeds", f"build-raises:{type(bexc).__name__}", case=case)
            continue
        sb = snapshot(built)
        d = timeline_diff(snapshot(rB.seq), sb, tol=1e-9)
        ctx.count("builds_compared")
        builds += 1
        if d:
            ctx.violation("build-differs", f"build({tag}) differs from direct construction: {d[:3]}", "build-differs", case=case)
        if mapping:
            want = [str(q) for q in regB["ids"]]
            got = [str(q) for q in built.register.qubit_ids]
            ctx.count("mappable_registers_checked")
            if got != want:
                ctx.violation("mappable-order", f"built register qubits {got}, declared order {want}", "mappable-order", case=case)
            import numpy as np
            lay = objs.build_layout(regB["traps"])
            for q, tid in mapping.items():
                if not np.allclose(np.asarray(built.register.qubits[q]), lay.traps_dict[tid], atol=1e-9):
                    ctx.violation("mappable-trap", f"qubit {q} not on trap {tid}", "mappable-trap", case=case)
        results[tag] = sb
        kept.setdefault(tag, built)
        if tag in ("v1eps", "v2") and "v1" in kept:
            # the sequence built first is an object of its own: later builds of the template must not reach into it
            ctx.count("earlier_builds_rechecked")
            forget_pulses()  # read the samples of its pulses again, not what was seen when it was built
            d = timeline_diff(results["v1"], snapshot(kept["v1"]), tol=0.0)
            if d:
                ctx.violation("built-changed", f"the sequence returned by build(v1) changed when the template was built "
                              f"again with other values ({tag}): {d[:3]}", "built-changed-by-later-build", case=case)
                return
    if "v1" in results and "v1again" in results:
        ctx.count("rebuilds_compared")
        d = timeline_diff(results["v1"], results["v1again"], tol=0.0)
        if d:
            ctx.violation("rebuild-differs", f"build(v1) before and after build(v2) differ: {d[:3]}", "rebuild-differs", case=case)
    # ---- partial mapping of a mappable register: only the first k qubits get a trap -------------------------
    if mapping and "v1" in results:
        n = len(regB["ids"])
        used_q = qubits_referenced(ops, regB["ids"])
        kmin = max([regB["ids"].index(q) + 1 for q in used_q] + [1])
        if kmin < n and not any(o["op"] in ("config_detuning_map",) for o in ops):
            k = rng.randint(kmin, n - 1)
            part = {q: mapping[q] for q in regB["ids"][:k]}
            regP = dict(regB, ids=regB["ids"][:k], trap_ids=regB["trap_ids"][:k])
            snap0 = snapshot(seqA)
            before = state_key(snap0)
            try:
                with warnings.catch_warnings():
                    warnings.simplefilter("ignore")
                    builtP, pexc = seqA.build(**copy.deepcopy(v1), qubits=part), None
            except Exception as e:
                builtP, pexc = None, e
            ctx.count("partial_mapping_builds")
            if state_key(snapshot(seqA)) != before:
                ctx.violation("template-changed", f"build with a partial mapping ({k} of {n} qubits) changed the template: "
                              f"{diff(snap0, snapshot(seqA))}", "template-changed:partial-mapping", case=case)
            rP, dexc = run_direct(ctx, dev, regP, [param.concretize(o, v1) for o in T])
            ctx.case = case
            if dexc is None and pexc is not None:
                ctx.violation("build-raises", f"build(v1, {k} of {n} qubits mapped) raised {type(pexc).__name__}: "
                              f"{str(pexc)[:200]} although direct construction on that register succeeds",
                              f"build-raises:partial:{type(pexc).__name__}", case=case)
            elif dexc is None:
                sP = snapshot(builtP)
                inreg = {str(q) for q in builtP.register.qubit_ids}
                # (phase trackers the built sequence still carries for declared-but-unmapped ids belong to no atom)
                sP["bref"] = {b: {q: v for q, v in d_.items() if q in inreg} for b, d_ in sP["bref"].items()}
                d = timeline_diff(snapshot(rP.seq), sP, tol=1e-9)
                if d:
                    ctx.violation("build-differs", f"build(v1, {k} of {n} qubits mapped) differs from direct construction: "
                                  f"{d[:3]}", "build-differs:partial-mapping", case=case)
            # ... and the full build afterwards is what it was before
            try:
                again = snapshot(build(copy.deepcopy(v1)))
                d = timeline_diff(results["v1"], again, tol=0.0)
                if d:
                    ctx.violation("rebuild-differs", f"build(v1) before and after a partial-mapping build differ: {d[:3]}",
                                  "rebuild-differs:partial-mapping", case=case)
            except Exception as e:
                ctx.violation("build-raises", f"full build after a partial-mapping build raised {type(e).__name__}: "
                              f"{str(e)[:200]}", f"build-raises:after-partial:{type(e).__name__}", case=case)
    if len(used) >= 2 and t.composite >= 1 and builds >= 2:
        ctx.mark_nontrivial(("c08", idx))
    ctx.sample({k: (v if k != "template" else v[:12]) for k, v in case.items()})
