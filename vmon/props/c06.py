"""C06 — sampling renders the schedule exactly."""
from vmon import gen, prog
from vmon.rendermon import RenderMonitor
from vmon.snap import snapshot

LEVEL = "exploration"
RULE = ("online-generated histories (global/local/multi-target channels, DMM with weighted maps, EOM blocks, SLM mask, "
        "XY); at the end (and once mid-history) sample(seq) is compared at every nanosecond with the reference renderer "
        "(channel arrays, phase over each pulse, per-atom all-local view, global+local view, extension padding). "
        "non-trivial = distinct case with a local retarget, a DMM or an open EOM block")
RULE += " Later additions: directed: registers on a ring (float noise between mirrored sites, optional 1e-9 um jitter) with pairwise different DMM weights."
ASSUMPTIONS = ["timeline read from Sequence._schedule; reference renderer shares no code with pulser",
               "phase is only required over real pulses; nanoseconds where two drives of one basis overlap on an atom are gray for the phase"]
TIERS = {"quick": dict(cases=1200, shards=8, case_timeout=120, shard_timeout=900),
         "thorough": dict(cases=20000, shards=16, case_timeout=120, shard_timeout=3000)}
FLOORS = {"quick": {"channel_arrays_checked": 2000, "atom_views_checked": 2000, "extensions_checked": 2000, "ring_dmm_scripts_rendered": 30, "zero_length_retargets_at_the_end_of_an_eom_block": 10},
          "thorough": {"channel_arrays_checked": 30000}}
WEIGHTS = {"sample": 0, "str": 0, "to_abstract_repr": 0, "build_copy": 0, "queries": 0, "measure": 0.05,
           "config_detuning_map": 1.5, "add_dmm_detuning": 3, "config_slm_mask": 1.0, "target": 3}


def xy_mask_script(ctx, idx, rng):
    """Directed history: XY mode, SLM mask, two or three global microwave channels whose first pulses overlap the
    end of the mask in every way (start with it, start inside it and end after it, start at its end)."""
    dev = {"kind": "builtin", "name": "MockDevice"}
    reg = gen.gen_register(rng, dev, nmin=2, nmax=4, kind="reg")
    mon = RenderMonitor(ctx)
    r = prog.Runner(ctx, dev, reg, [mon])
    spec = r.chspecs["mw_global"]
    ids = list(reg["ids"])
    masked = rng.sample(ids, rng.randint(1, len(ids) - 1))
    names = ["mwa", "mwb", "mwc"][:rng.randint(2, 3)]
    d1 = gen.pick(rng, [40, 100, 128, 250])
    ops = [{"op": "declare_channel", "name": n, "ch_id": "mw_global"} for n in names]
    ops.insert(rng.randint(0, len(ops)), {"op": "config_slm_mask", "qubits": masked})
    ops.append({"op": "add", "pulse": gen.gen_pulse(rng, spec, d=d1, pps_p=0.0, arb=0.0), "ch": names[0]})
    for n in names[1:]:
        s2 = gen.pick(rng, [0, 0, d1 // 2, d1 - 4, d1, d1 + 20])
        if s2:
            ops.append({"op": "delay", "duration": s2, "ch": n})
        d2 = gen.pick(rng, [16, d1 // 2, d1, d1 + 60, 2 * d1])
        ops.append({"op": "add", "pulse": gen.gen_pulse(rng, spec, d=max(4, d2), pps_p=0.0, arb=0.0), "ch": n,
                    "protocol": "no-delay"})
    for _ in range(rng.randint(0, 3)):
        n = gen.pick(rng, names)
        ops.append({"op": "add", "pulse": gen.gen_pulse(rng, spec, pps_p=0.2, arb=0.0), "ch": n,
                    "protocol": gen.pick(rng, ["no-delay", "min-delay"])})
    for op in ops:
        ev = r.step(op)
        if ev.exc is not None:
            ctx.count("xy_script_call_refused")
            break
    else:
        ctx.count("xy_mask_scripts_rendered")
    r.finish()
    ctx.mark_nontrivial(("xyscript", idx))


def ring_dmm_script(ctx, idx, rng):
    """Directed history: atoms on a ring (coordinates r*cos, r*sin: mirrored sites agree in x only up to float noise,
    some with an explicit 1e-9 um jitter), a detuning map over all ring sites with pairwise different weights, a DMM
    pulse and global pulses; every mirrored pair of sites holds atoms."""
    import math

    dev = {"kind": "builtin", "name": "MockDevice"}
    N = gen.pick(rng, [12, 16, 20, 14])
    rad = gen.pick(rng, [10.0, 12.5, 17.3])
    ph = gen.pick(rng, [0.0, 0.0, math.pi / 2])  # pi/2: the mirrored pairs share y, and x decides
    jit = gen.pick(rng, [0.0, 1e-9, 3e-8])
    traps = [[rad * math.cos(2 * math.pi * k / N + ph) + jit * rng.uniform(-1, 1),
              rad * math.sin(2 * math.pi * k / N + ph) + jit * rng.uniform(-1, 1)] for k in range(N)]
    ks = rng.sample(range(1, N // 2), rng.randint(1, 3))
    sites = [k for k0 in ks for k in (k0, N - k0)]
    rng.shuffle(sites)
    reg = {"kind": "reg", "ids": ["q%d" % i for i in range(len(sites))], "coords": [traps[k] for k in sites]}
    mon = RenderMonitor(ctx)
    r = prog.Runner(ctx, dev, reg, [mon])
    ws = [round((j * 7 % N) / N, 3) for j in range(N)]
    rng.shuffle(ws)
    ops = [{"op": "config_detuning_map", "map": {"by": "traps", "traps": traps, "weights": ws}, "dmm_id": "dmm_0"},
           {"op": "declare_channel", "name": "g", "ch_id": "rydberg_global"}]
    rng.shuffle(ops)
    spec = r.chspecs["rydberg_global"]
    tail = [{"op": "add_dmm_detuning", "wf": {"k": "const", "d": gen.pick(rng, [16, 52, 100]), "v": -gen.pick(rng, [1.0, 6.5])}, "ch": "dmm_0"},
            {"op": "add", "pulse": gen.gen_pulse(rng, spec, d=gen.pick(rng, [16, 60]), pps_p=0.0, arb=0.0), "ch": "g"}]
    rng.shuffle(tail)
    for op in ops + tail:
        if r.step(op).exc is not None:
            ctx.count("ring_script_call_refused")
            break
    else:
        ctx.count("ring_dmm_scripts_rendered")
    r.finish()
    ctx.mark_nontrivial(("ringscript", idx))


def eom_end_retarget_script(ctx, idx, rng):
    """Directed history: a local channel whose EOM controls both beams (off-detuning 0: idle periods are plain delays,
    no buffer is due when the mode is left long after the last pulse) leaves EOM mode exactly at its end and is
    retargeted at once with a zero retarget time - a zero-duration slot at the very end of the channel."""
    import math

    bw = gen.pick(rng, [4.0, 8.0, 20.0])
    ch = {"id": "rl", "cls": "Rydberg", "addr": "Local", "max_amp": 15.0, "max_abs_detuning": 40.0, "clock_period": gen.pick(rng, [1, 4]),
          "min_duration": gen.pick(rng, [1, 16]), "max_duration": None, "mod_bandwidth": bw, "min_retarget_interval": 0,
          "fixed_retarget_t": gen.pick(rng, [0, 0, 12]), "max_targets": 2,
          "eom": {"mod_bandwidth": gen.pick(rng, [24.0, 40.0]), "limiting_beam": gen.pick(rng, ["RED", "BLUE"]),
                  "max_limiting_amp": 40 * 2 * math.pi, "intermediate_detuning": 500 * 2 * math.pi,
                  "controlled_beams": ["BLUE", "RED"]}}
    other = {"id": "rg", "cls": "Rydberg", "addr": "Global", "max_amp": 15.0, "max_abs_detuning": 40.0, "clock_period": 1,
             "min_duration": 1, "max_duration": None}
    dev = {"kind": "virtual", "name": "EomEndDev", "dimensions": 2, "rydberg_level": 70, "min_atom_distance": 1,
           "max_atom_num": None, "max_radial_distance": None, "channels": [ch, other], "dmm": []}
    reg = {"kind": "reg", "ids": ["a", "b", "c"], "coords": [[0.0, 0.0], [0.0, 8.0], [8.0, 0.0]]}
    mon = RenderMonitor(ctx)
    r = prog.Runner(ctx, dev, reg, [mon])
    rise = int(0.48 / bw * 1e3)
    ops = [{"op": "declare_channel", "name": "loc", "ch_id": "rl", "initial_target": "a"},
           {"op": "enable_eom_mode", "ch": "loc", "amp_on": gen.pick(rng, [4.5, 9.0]), "detuning_on": gen.pick(rng, [0.0, 0.0]), "opt_off": 0.0},
           {"op": "add_eom_pulse", "ch": "loc", "duration": gen.pick(rng, [40, 100]), "phase": gen.pick(rng, [0.0, 1.0])},
           {"op": "delay", "duration": 4 * (rise // 2 + 10) + gen.pick(rng, [0, 100]), "ch": "loc"},
           {"op": "disable_eom_mode", "ch": "loc"},
           {"op": "target", "qubits": gen.pick(rng, ["b", ["b", "c"]]), "ch": "loc"}]
    if rng.random() < 0.5:
        ops.append({"op": "declare_channel", "name": "glob", "ch_id": "rg"})
        ops.append({"op": "add", "pulse": gen.gen_pulse(rng, other, d=gen.pick(rng, [16, 60]), pps_p=0.0, arb=0.0), "ch": "glob"})
    if rng.random() < 0.5:
        ops.append({"op": "add", "pulse": gen.gen_pulse(rng, ch, d=4 * gen.pick(rng, [4, 13]), pps_p=0.0, arb=0.0), "ch": "loc"})
    for i, op in enumerate(ops):
        if r.step(op).exc is not None:
            ctx.count("eom_end_script_call_refused")
            break
        if op["op"] == "target":
            c = snapshot(r.seq)["chans"]["loc"]
            if c["slots"] and c["slots"][-1]["ti"] == c["slots"][-1]["tf"] and c["eom"] and c["eom"][-1][1] == c["slots"][-1]["ti"]:
                ctx.count("zero_length_retargets_at_the_end_of_an_eom_block")
            mon.check(r)
    else:
        ctx.count("eom_end_scripts_rendered")
    r.finish()
    ctx.mark_nontrivial(("eomendscript", idx))


def run_case(ctx, idx, rng, tier):
    if idx % 24 == 23:
        return eom_end_retarget_script(ctx, idx, rng)
    if idx % 24 == 11:
        return ring_dmm_script(ctx, idx, rng)
    if idx % 12 == 5:
        return xy_mask_script(ctx, idx, rng)
    xy = rng.random() < 0.2
    dev, reg = gen.header(rng, xy=xy, max_seq=0.05)
    mon = RenderMonitor(ctx)
    r = prog.Runner(ctx, dev, reg, [mon])
    g = gen.ProgGen(rng, dev, reg, r.chspecs, weights=WEIGHTS)
    g.motifs["eom-at-zero"] = 0.5
    n = rng.randint(6, 34)
    for i in range(n):
        op = g.next_op()
        ev = r.step(op)
        g.update(op, ev.exc is None)
        if i == n // 2:
            mon.check(r)
    r.finish()
    ctx.sample(r.prog)
