"""C06 — sampling renders the schedule exactly."""
from vmon import gen, prog
from vmon.rendermon import RenderMonitor

LEVEL = "exploration"
RULE = ("online-generated histories (global/local/multi-target channels, DMM with weighted maps, EOM blocks, SLM mask, "
        "XY); at the end (and once mid-history) sample(seq) is compared at every nanosecond with the reference renderer "
        "(channel arrays, phase over each pulse, per-atom all-local view, global+local view, extension padding). "
        "non-trivial = distinct case with a local retarget, a DMM or an open EOM block")
ASSUMPTIONS = ["timeline read from Sequence._schedule; reference renderer shares no code with pulser",
               "phase is only required over real pulses; nanoseconds where two drives of one basis overlap on an atom are gray for the phase"]
TIERS = {"quick": dict(cases=1200, shards=8, case_timeout=120, shard_timeout=900),
         "thorough": dict(cases=20000, shards=16, case_timeout=120, shard_timeout=3000)}
FLOORS = {"quick": {"channel_arrays_checked": 2000, "atom_views_checked": 2000, "extensions_checked": 2000},
          "thorough": {"channel_arrays_checked": 30000}}
WEIGHTS = {"sample": 0, "str": 0, "to_abstract_repr": 0, "build_copy": 0, "queries": 0, "measure": 0.05,
           "config_detuning_map": 1.5, "add_dmm_detuning": 3, "config_slm_mask": 1.0, "target": 3}


def run_case(ctx, idx, rng, tier):
    xy = rng.random() < 0.2
    dev, reg = gen.header(rng, xy=xy, max_seq=0.05)
    mon = RenderMonitor(ctx)
    r = prog.Runner(ctx, dev, reg, [mon])
    g = gen.ProgGen(rng, dev, reg, r.chspecs, weights=WEIGHTS)
    n = rng.randint(6, 34)
    for i in range(n):
        op = g.next_op()
        ev = r.step(op)
        g.update(op, ev.exc is None)
        if i == n // 2:
            mon.check(r)
    r.finish()
    ctx.sample(r.prog)
