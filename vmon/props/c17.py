"""C17 — devices, registers, layouts, noise models, configs, results round-trip; objects never share state."""
import math

from vmon import gen
from vmon import roundtrip as rt
from vmon.ref import roundtrip as ref

LEVEL = "exploration"
RULE = ("a case is a themed, interleaved list of 4-9 object specs (devices physical/virtual/built-in with EOM, DMM, "
        "calibrated layouts, default noise model; channels; DMMs; registers 2D/3D with/without layout; layouts; detuning "
        "maps; noise models; QutipState/StateRepr; QutipOperator/OperatorRepr; QutipConfig/EmulationConfig with the nine "
        "default observables; Results) in which every optional field is drawn default/non-default independently and "
        "sizes differ between neighbours (2 then 3 qudits, operators of other sizes, configs with other observables). "
        "Each object is built, registered (view of public attributes + own serialisation), serialised, validated with "
        "jsonschema against the tree's schema file, decoded, compared field-wise (1e-12) and with ==, legacy-encoded "
        "where offered; noise models are also checked for their active types and through SimConfig and back; after "
        "every construction/decoding all earlier objects are re-snapshotted. Specs whose construction warns about an "
        "unused parameter are outside the domain and dropped. non-trivial = distinct (class, set of non-default "
        "optional fields) with >= 2 non-default optional fields")
RULE += " Later additions: QuTiP state amplitudes are also handed over as numpy scalars or in a dict the caller edits afterwards."
ASSUMPTIONS = [
    "qubit ids are strings (serialising other ids is documented as irreversible)",
    "fields the format documents as not carried are gray, not alarms: Device.short_description (compare=False, not in "
    "the schema), Observable.uuid (instance identity), the given order of a DetuningMap's traps (canonicalised), the "
    "class of numpy arrays / Counters stored in Results (documented), coordinates rounded to COORD_PRECISION",
    "StateResult in a config is refused by a documented AbstractReprError: counted, not an alarm",
    "effective-noise operators given as qutip.Qobj (annotation says ArrayLike) failing to serialise is gray",
    "channels, DMMs, states, operators and detuning maps have no public from_abstract_repr; their round trip uses the "
    "encoder plus the private _deserialize_* helpers named in the property's anchors and the matching sub-schema",
    "when the one-pass validation of a config document crashes inside jsonschema, each schema file is applied in its "
    "own declared dialect (config-schema to the document with an empty noise model, noise-schema to the noise model)",
    "Results values are those the default observables produce (float, complex, Counter, lists, arrays); states stored "
    "by StateResult are not serialisable by design and are not generated",
]
TIERS = {"quick": dict(cases=1200, shards=8, case_timeout=120, shard_timeout=900),
         "thorough": dict(cases=12000, shards=16, case_timeout=120, shard_timeout=3000)}
FLOORS = {
    "quick": {
        "roundtrip:Device": 140, "roundtrip:VirtualDevice": 160, "roundtrip:Rydberg": 85, "roundtrip:Raman": 40,
        "roundtrip:Microwave": 22, "roundtrip:DMM": 55, "roundtrip:Register": 125, "roundtrip:Register3D": 65,
        "roundtrip:RegisterLayout": 160, "roundtrip:DetuningMap": 120, "roundtrip:NoiseModel": 340,
        "roundtrip:QutipState": 150, "roundtrip:StateRepr": 155, "roundtrip:QutipOperator": 140,
        "roundtrip:OperatorRepr": 120, "roundtrip:QutipConfig": 140, "roundtrip:EmulationConfig": 125,
        "roundtrip:Results": 120, "legacy_roundtrip:VirtualDevice": 100, "legacy_roundtrip:Device": 40,
        "legacy_roundtrip:Register": 125, "legacy_roundtrip:RegisterLayout": 160, "legacy_roundtrip:DetuningMap": 150,
        "noise_types_checked": 350, "simconfig_to_checked": 350, "simconfig_first_checked": 100,
        "eq_checked:NoiseModel": 340, "eq_checked:Results": 100,
        "registry_events": 6500, "aliasing_resnapshots": 59000,
    },
}
FLOORS["thorough"] = {k: int(v * 10) for k, v in FLOORS["quick"].items()}

pick, wchoice = gen.pick, gen.wchoice
TWO_PI = 2 * math.pi

# ------------------------------------------------------------------------------------------------ noise models
RATES = [0.01, 0.3, 1e-9, 2.5, 0.05]
PROBS = [0.005, 0.1, 1.0, 1e-12, 0.05]
NOISE_POOLS = {
    "state_prep_error": PROBS, "p_false_pos": PROBS, "p_false_neg": PROBS, "temperature": [50.0, 1e-3, 1000.0, 30, 0.1],
    "laser_waist": [175.0, 50, 1e-3, 1e6], "amp_sigma": [0.05, 1.0, 1e-6], "relaxation_rate": RATES,
    "dephasing_rate": RATES, "hyperfine_dephasing_rate": RATES, "depolarizing_rate": RATES,
}
ENTRIES = [0, 1, -1, 0.5, 2.0, -0.25, 1e-3]


def g_matrix(rng, dim: int, allow_qobj=False) -> dict:
    cplx = rng.random() < 0.4
    ints = not cplx and rng.random() < 0.3
    pool = [0, 1, -1, 2] if ints else ENTRIES
    re = [[pick(rng, pool) for _ in range(dim)] for _ in range(dim)]
    if not any(any(r) for r in re):
        re[0][dim - 1] = 1
    m = {"re": re, "im": None, "as": pick(rng, ["list", "tuple", "ndarray", "ndarray"])}
    if ints:
        m["ints"] = True
    if cplx:
        m["im"] = [[pick(rng, [0, 0, 1, -1, 0.5]) for _ in range(dim)] for _ in range(dim)]
    if allow_qobj and rng.random() < 0.06:
        m["as"] = "qobj"
    return m


def g_noise(rng, *, p=0.28, eff=0.3, for_qutip=False, unused=0.06, qobj=False) -> tuple[dict, set]:
    s: dict = {}
    for k, pool in NOISE_POOLS.items():
        x = rng.random()
        if x < p:
            s[k] = pick(rng, pool)
        elif x < p + 0.07 and k != "laser_waist":  # (a defined laser waist must be > 0)
            s[k] = pick(rng, [0.0, 0])  # explicit zero: "not set"
    if rng.random() < eff:
        leak = rng.random() < 0.3
        dim = pick(rng, [3, 3, 4]) if leak else pick(rng, [2, 2, 3])
        n = pick(rng, [1, 1, 2, 3])
        s["eff_noise_opers"] = [g_matrix(rng, dim, allow_qobj=qobj) for _ in range(n)]
        s["eff_noise_rates"] = [pick(rng, [0.1, 0.0, 1.5, 1e-6, 0.25]) for _ in range(n)]
        s["_as"] = pick(rng, ["tuple", "tuple", "list"])
        if leak:
            s["with_leakage"] = True
    elif rng.random() < 0.1:
        s["with_leakage"] = False
    rel = ref.relevant_params(rt.ref_noise_kwargs(s))
    if "runs" in rel:
        s["runs"] = pick(rng, [1, 15, 100])
        s["samples_per_run"] = 1 if for_qutip else pick(rng, [1, 5])
    elif rng.random() < unused:
        s[pick(rng, ["runs", "samples_per_run"])] = 3  # outside the domain: must warn; dropped by the driver
    nd = {k for k, v in s.items() if not k.startswith("_") and k != "eff_noise_rates" and (v or v is False)}
    return s, nd


SC_POOLS = {"eta": PROBS, "epsilon": PROBS, "epsilon_prime": PROBS, "temperature": [50.0, 1e-3, 1000.0, 30],
            "laser_waist": [175.0, 50, "inf", 1e-3], "amp_sigma": [0.05, 1.0, 1e-6], "relaxation_rate": RATES,
            "dephasing_rate": RATES, "hyperfine_dephasing_rate": RATES, "depolarizing_rate": RATES,
            "runs": [1, 15, 100], "samples_per_run": [1, 5]}


def g_simconfig(rng) -> tuple[dict, set]:
    """A legacy SimConfig: noise types named explicitly, every parameter default (non-zero) or drawn non-zero."""
    types = [t for t in ("doppler", "amplitude", "SPAM", "dephasing", "relaxation", "depolarizing") if rng.random() < 0.3]
    s: dict = {}
    if rng.random() < 0.3:
        leak = rng.random() < 0.35
        types.append("eff_noise")
        dim = 3 if leak else 2
        n = pick(rng, [1, 2])
        s["eff_noise_opers"] = [g_matrix(rng, dim) for _ in range(n)]
        s["eff_noise_rates"] = [pick(rng, [0.1, 0.0, 1.5, 0.25]) for _ in range(n)]
        if leak:
            types.append("leakage")
    rng.shuffle(types)
    s["noise"] = types
    for k, pool in SC_POOLS.items():
        if rng.random() < 0.3:
            s[k] = pick(rng, pool)
    return s, {k for k in s if k != "eff_noise_rates"} | set(types)


# ------------------------------------------------------------------------------------------------ states / operators
EIGS = [["r", "g"], ["r", "g"], ["g", "h"], ["u", "d"], ["0", "1"], ["g", "r"], ["r", "g", "h"], ["r", "g", "x"],
        ["u", "d", "x"], ["1", "0"]]


def g_num(rng, cplx=0.4):
    x = pick(rng, [1.0, 0.5, -0.5, 0.25, 2.0, -1.0, round(rng.uniform(-1, 1), 6), 1, 1e-3])
    if rng.random() < cplx:
        return [float(x) if rng.random() < 0.7 else 0.0, pick(rng, [1.0, -1.0, 0.5, round(rng.uniform(-1, 1), 6), 0.0])]
    return x


def g_state(rng, typ: str, n: int, eig: list, norm: str | None = None) -> tuple[dict, set]:
    dim = len(eig)
    k = min(dim ** n, pick(rng, [1, 2, 2, 3, 4]))
    keys: list[str] = []
    while len(keys) < k:
        bs = "".join(pick(rng, eig) for _ in range(n))
        if bs not in keys:
            keys.append(bs)
    raw = [complex(*a) if isinstance(a, list) else complex(a) for a in (g_num(rng) for _ in keys)]
    if not any(abs(a) > 0 for a in raw):
        raw[0] = 1.0 + 0j
    norm = norm or wchoice(rng, {"unit": 0.8, "rounded": 0.08, "raw": 0.12})
    if norm != "raw":
        nrm = math.sqrt(sum(abs(a) ** 2 for a in raw))
        raw = [a / nrm for a in raw]
        if norm == "rounded":
            raw = [complex(round(a.real, 6), round(a.imag, 6)) for a in raw]
    dev = abs(sum(abs(a) ** 2 for a in raw) ** 2 - 1)
    norm = "unit" if dev < 1e-13 else ("rounded" if norm == "unit" else norm)
    amps = {}
    for bs, a in zip(keys, raw):
        amps[bs] = a.real if (a.imag == 0 and rng.random() < 0.7) else [a.real, a.imag]
    s = {"type": typ, "eig": list(eig), "amps": amps, "norm": norm}
    nd = {f"n={n}", f"dim={dim}"} if (n > 1 and dim > 2) else set()
    if rng.random() < 0.3:
        s["eig_as"] = "list"
        nd.add("eig_as_list")
    if any(isinstance(v, list) for v in amps.values()):
        nd.add("complex")
    if k > 1:
        nd.add("superposition")
    return s, nd


def g_operator(rng, typ: str, n: int, eig: list) -> tuple[dict, set]:
    nd = set()
    ops = []
    for _ in range(pick(rng, [1, 1, 2, 3])):
        w = g_num(rng)
        qudits = list(range(n))
        rng.shuffle(qudits)
        tensor = []
        ngroups = pick(rng, [0, 1, 1, 2]) if n > 1 else pick(rng, [0, 1, 1])
        for _ in range(ngroups):
            if not qudits:
                break
            m = rng.randint(1, max(1, len(qudits) - (1 if ngroups > 1 else 0)))
            inds, qudits = qudits[:m], qudits[m:]
            qop = {}
            for _ in range(pick(rng, [1, 2, 2, 3])):
                qop[pick(rng, eig) + pick(rng, eig)] = g_num(rng)
            if rng.random() < 0.04:
                qop = {}
            tensor.append([qop, inds])
        ops.append([w, tensor])
    s = {"type": typ, "eig": list(eig), "n": n, "ops": ops, "coll": pick(rng, ["list", "list", "set", "tuple"])}
    if len(ops) > 1:
        nd.add("sum")
    if any(isinstance(w, list) for w, _ in ops) or any(isinstance(c, list) for _, t in ops for q, _ in t for c in q.values()):
        nd.add("complex")
    if any(len(t) > 1 for _, t in ops):
        nd.add("multi-group")
    if s["coll"] != "list":
        nd.add("coll=" + s["coll"])
    if len(eig) > 2:
        nd.add("dim=3")
    if rng.random() < 0.3:
        s["eig_as"] = "list"
    return s, nd


def g_times(rng) -> list:
    return pick(rng, [[1.0], [0.5], [0.0, 1.0], [0.1, 0.5, 0.9], [0.25, 0.75, 1.0], [0.0], [1 / 3, 2 / 3], [0, 1]])


OBS_W = {"BitStrings": 3, "Fidelity": 2.5, "Expectation": 2.5, "CorrelationMatrix": 1.5, "Occupation": 1.5, "Energy": 1.5,
         "EnergyVariance": 1.2, "EnergySecondMoment": 0.5, "StateResult": 0.3}


def g_observable(rng, name: str, st_typ: str, op_typ: str, n: int, eig: list, nd: set) -> dict:
    o: dict = {"o": name}
    if rng.random() < 0.4:
        o["evaluation_times"] = g_times(rng)
        nd.add(f"{name}.evaluation_times")
        if rng.random() < 0.3:
            o["et_as"] = "tuple"
    if rng.random() < 0.35:
        o["tag_suffix"] = pick(rng, ["a", "x1", "", "é"])
        nd.add(f"{name}.tag_suffix")
    if name == "BitStrings" and rng.random() < 0.5:
        o["num_shots"] = pick(rng, [1, 10, 100000])
        nd.add("BitStrings.num_shots")
    if name in ("BitStrings", "CorrelationMatrix", "Occupation") and rng.random() < 0.4:
        o["one_state"] = pick(rng, eig)
        nd.add(f"{name}.one_state")
    if name == "Fidelity":
        o["state"] = g_state(rng, st_typ, pick(rng, [n, n, n, max(1, n - 1), n + 1]), eig)[0]
    if name == "Expectation":
        o["operator"] = g_operator(rng, op_typ, pick(rng, [n, n, n, n + 1]), eig)[0]
    return o


def g_config(rng) -> tuple[dict, set]:
    qutip = rng.random() < 0.58
    st_typ, op_typ = ("QutipState", "QutipOperator") if qutip else ("StateRepr", "OperatorRepr")
    n, eig = pick(rng, [1, 2, 2, 3]), pick(rng, EIGS)
    nd: set = set()
    obs, tags = [], set()
    for _ in range(pick(rng, [0, 1, 1, 2, 3, 4, 5]) if rng.random() < 0.97 else 0):
        o = g_observable(rng, wchoice(rng, OBS_W), st_typ, op_typ, n, eig, nd)
        base = {"BitStrings": "bitstrings", "Fidelity": "fidelity", "Expectation": "expectation",
                "CorrelationMatrix": "correlation_matrix", "Occupation": "occupation", "Energy": "energy",
                "EnergyVariance": "energy_variance", "EnergySecondMoment": "energy_second_moment", "StateResult": "state"}[o["o"]]
        tag = base if o.get("tag_suffix") is None else f"{base}_{o['tag_suffix']}"
        k = 0
        while tag in tags:
            k += 1
            o["tag_suffix"] = f"s{k}"
            tag = f"{base}_s{k}"
        tags.add(tag)
        obs.append(o)
    s: dict = {"type": "QutipConfig" if qutip else "EmulationConfig", "observables": obs}
    if rng.random() < 0.5:
        s["default_evaluation_times"] = pick(rng, ["Full", g_times(rng), g_times(rng)])
        nd.add("default_evaluation_times")
    if rng.random() < 0.45:
        s["initial_state"] = g_state(rng, st_typ, n, eig)[0]
        nd.add("initial_state")
    if rng.random() < 0.3:
        s["with_modulation"] = rng.random() < 0.8
        nd.add("with_modulation")
    if rng.random() < 0.3:
        s["prefer_device_noise_model"] = rng.random() < 0.8
        nd.add("prefer_device_noise_model")
    if rng.random() < 0.5:
        s["noise_model"] = g_noise(rng, p=0.2, eff=0.25, for_qutip=qutip, unused=0)[0]
        nd.add("noise_model")
    if qutip and rng.random() < 0.35:
        s["sampling_rate"] = pick(rng, [0.5, 0.1, 1.0, 1e-3])
        nd.add("sampling_rate")
    if not qutip and rng.random() < 0.4:
        m = [[0.0] * n for _ in range(n)]
        for i in range(n):
            for j in range(i + 1, n):
                m[i][j] = m[j][i] = pick(rng, [1.5, 0.0, -2.0, 1e3, 1 / 3])
        s["interaction_matrix"] = m
        nd.add("interaction_matrix")
    if not qutip and rng.random() < 0.15:
        s["extra"] = pick(rng, [{"foo": 3}, {"dt": 10, "precision": 1e-5}, {"label": "x"}])
        nd.add("extra_option")
    return s, nd


def g_value(rng, name: str, n: int) -> dict:
    if name == "BitStrings":
        c = {}
        for _ in range(pick(rng, [1, 2, 3])):
            c["".join(pick(rng, "01") for _ in range(n))] = rng.randint(1, 500)
        return {"k": "counter", "v": c}
    if name == "Expectation":
        return pick(rng, [{"k": "complex", "v": [round(rng.uniform(-1, 1), 6), round(rng.uniform(-1, 1), 6)]},
                          {"k": "float", "v": rng.uniform(-1, 1)}, {"k": "complex", "v": [0.5, 0.0]}])
    if name == "CorrelationMatrix":
        m = [[round(rng.random(), 6) for _ in range(n)] for _ in range(n)]
        return {"k": pick(rng, ["list", "array"]), "v": m}
    if name == "Occupation":
        return {"k": pick(rng, ["list", "list", "array"]), "v": [round(rng.random(), 6) for _ in range(n)]}
    return {"k": pick(rng, ["float", "float", "npfloat", "int"]), "v": pick(rng, [rng.uniform(-5, 5), 0.0, 1.0, 1e-17, 3])}


def g_results(rng) -> tuple[dict, set]:
    n = pick(rng, [1, 2, 3])
    eig = ["r", "g"]
    nd: set = set()
    entries, tags = [], set()
    for _ in range(pick(rng, [0, 1, 2, 3, 4])):
        name = wchoice(rng, {k: v for k, v in OBS_W.items() if k != "StateResult"})
        o = g_observable(rng, name, "QutipState", "QutipOperator", n, eig, set())
        o["tag_suffix"] = f"t{len(entries)}" if (name in tags or rng.random() < 0.3) else None
        if o["tag_suffix"] is None:
            o.pop("tag_suffix")
        tags.add(name)
        times = o.get("evaluation_times") or g_times(rng)
        times = sorted({float(t) for t in times})
        entries.append({"obs": o, "times": times, "values": [g_value(rng, name, n) for _ in times]})
        nd.add(name)
        nd.update(f"value:{v['k']}" for v in entries[-1]["values"] if v["k"] in ("complex", "array", "npfloat", "counter"))
    s = {"atom_order": pick(rng, [["q0", "q1", "q2"], ["b", "a", "c"], ["atom1", "0", "é"]])[:n],
         "total_duration": pick(rng, [100, 1000, 0, 52, 10 ** 7]), "entries": entries}
    return s, nd


# ------------------------------------------------------------------------------------------------ devices & co
def grid(rng, n: int, dim: int, spacing: float, rmax: float | None, jitter=False) -> list:
    pts = [(i, j, k) for i in range(-3, 4) for j in range(-3, 4) for k in (range(-1, 2) if dim == 3 else [0])]
    rng.shuffle(pts)
    out = []
    for p in pts:
        c = [p[0] * spacing, p[1] * spacing] + ([p[2] * spacing] if dim == 3 else [])
        if jitter:
            c = [x + pick(rng, [0.0, 1 / 3, 0.1234567, 1e-7]) * 0.1 for x in c]
        if rmax is not None and math.sqrt(sum(x * x for x in c)) > rmax - 1e-3:
            continue
        out.append(c)
        if len(out) >= n:
            break
    return out


def g_layout(rng, dim=None, nmin=2, nmax=10, spacing=None, rmax=None) -> tuple[dict, set]:
    dim = dim or pick(rng, [2, 2, 3])
    sp = spacing or pick(rng, [4.0, 5, 6.5, 1.0, 10 / 3])
    s = {"traps": grid(rng, rng.randint(nmin, nmax), dim, sp, rmax, jitter=spacing is None and rng.random() < 0.3)}
    nd = {"3d"} if dim == 3 else set()
    if rng.random() < 0.4:
        s["slug"] = pick(rng, ["lay-A", "x", "é-1", "TriangularLatticeLayout(10, 5.0µm)"])
        nd.add("slug")
    if s["traps"] and any(abs(x - round(x)) > 1e-9 and abs(x * 2 - round(x * 2)) > 1e-9 for c in s["traps"] for x in c):
        nd.add("non-round-coords")
    return s, nd


def g_channel_like(rng) -> tuple[str, dict, set]:
    kind = wchoice(rng, {"Rydberg": 4, "Raman": 2, "Microwave": 1, "DMM": 2.5})
    physical = rng.random() < 0.4
    if kind == "DMM":
        d = gen.gen_dmm(rng, physical)
        if rng.random() < 0.2:
            d["min_avg_amp"] = 0
        nd = {k for k in ("bottom_detuning", "total_bottom_detuning", "mod_bandwidth") if d.get(k) is not None}
        return "dmm", d, nd
    addr = "Global" if kind == "Microwave" else pick(rng, ["Global", "Global", "Local"])
    c = gen.gen_channel(rng, pick(rng, ["ch0", "rydberg_global", "x-1"]), kind, addr, physical, want_eom=0.5,
                        limits=pick(rng, ["mixed", "none"]))
    nd = channel_nd(rng, c)
    return "channel", c, nd


def channel_nd(rng, c: dict) -> set:
    if c["addr"] == "Global" and rng.random() < 0.25:
        c["propagation_dir"] = pick(rng, [[1, 0, 0], [0.0, 1.0, 0.0], [1, 1, 0], [0, 0, 1.5], [-1.0, 0.5, 0.25]])
    nd = {k for k in ("min_avg_amp", "mod_bandwidth", "custom_phase_jump_time", "propagation_dir") if c.get(k) is not None}
    if c.get("eom"):
        nd.add("eom")
        nd.update("eom." + k for k in ("multiple_beam_control", "custom_buffer_time", "blue_shift_coeff", "red_shift_coeff")
                  if k in c["eom"])
    if c.get("max_duration") is None:
        nd.add("max_duration=None")
    return nd


def g_device(rng) -> tuple[dict, set]:
    dev = gen.gen_device(rng, p_builtin=0.2, p_physical=0.42, want_eom=0.4, max_seq=0.4, reusable=0.3)
    if dev["kind"] == "builtin":
        return dev, set()
    nd: set = set()
    physical = dev["kind"] == "physical"
    for c in dev["channels"]:
        nd.update(f"{c['id']}.{k}" for k in channel_nd(rng, c))
    if dev.get("dmm"):
        nd.add("dmm")
    has_mw = any(c["cls"] == "Microwave" for c in dev["channels"])
    if not has_mw and rng.random() < 0.5:
        dev.pop("interaction_coeff_xy")
    else:
        nd.add("interaction_coeff_xy")
    for k in ("max_sequence_duration", "reusable_channels"):
        if k in dev:
            nd.add(k)
    if dev.get("supports_slm_mask"):
        nd.add("supports_slm_mask")
    if rng.random() < 0.3:
        dev["max_runs"] = pick(rng, [1, 500, 2000])
        nd.add("max_runs")
    fill = 0.5
    if rng.random() < 0.3:
        fill = dev["max_layout_filling"] = pick(rng, [0.4, 0.8, 1.0])
        nd.add("max_layout_filling")
    if rng.random() < 0.3:
        dev["optimal_layout_filling"] = pick(rng, [0.2, 0.4, fill])
        nd.add("optimal_layout_filling")
    if rng.random() < 0.3:
        dev["min_layout_traps"] = pick(rng, [2, 5])
        nd.add("min_layout_traps")
    if rng.random() < 0.3:
        man = dev.get("max_atom_num")
        mlt = (math.ceil(man / fill) if man else dev.get("min_layout_traps", 1)) + pick(rng, [1, 10, 100])
        while man and int(fill * mlt) < man:
            mlt += 1
        dev["max_layout_traps"] = mlt
        nd.add("max_layout_traps")
    if rng.random() < 0.3:
        dev["requires_layout"] = not physical  # the non-default value of each class
        nd.add("requires_layout")
    if physical and rng.random() < 0.3:
        dev["accepts_new_layouts"] = False
        nd.add("accepts_new_layouts")
    if physical and rng.random() < 0.5:
        lays = []
        for _ in range(pick(rng, [1, 1, 2])):
            dim = 3 if (dev["dimensions"] == 3 and rng.random() < 0.3) else 2
            la, _ = g_layout(rng, dim=dim, nmin=max(dev.get("min_layout_traps", 1), 2), nmax=12,
                             spacing=max(dev["min_atom_distance"], 1) + pick(rng, [0, 0.5, 3]),
                             rmax=dev.get("max_radial_distance"))
            lays.append(la)
        dev["pre_calibrated_layouts"] = lays
        nd.add("pre_calibrated_layouts")
    if rng.random() < 0.4:
        dev["default_noise_model"] = g_noise(rng, p=0.2, eff=0.2, unused=0)[0]
        nd.add("default_noise_model")
    if rng.random() < 0.15:
        dev["short_description"] = "a generated device"
        nd.add("short_description")
    if rng.random() < 0.25:
        dev["channel_ids"] = "default"
        nd.add("default_channel_ids")
    return dev, nd


FAKE_DEV = {"kind": "virtual", "min_atom_distance": 1, "max_radial_distance": None, "dimensions": 3}


def g_register(rng, kind=None) -> tuple[dict, set]:
    r = gen.gen_register(rng, FAKE_DEV, nmin=1, nmax=6, kind=kind or wchoice(rng, {"reg": 0.55, "layout": 0.45}))
    dim = len((r.get("coords") or r["traps"])[0])
    nd = {"3d"} if dim == 3 else set()
    if r["kind"] == "reg" and rng.random() < 0.3:
        r["coords"] = [[x + pick(rng, [1 / 3, 0.1234567891, 1e-7, 0.0]) for x in c] for c in r["coords"]]
        nd.add("non-round-coords")
    if r["kind"] == "layout":
        nd.add("layout")
        if rng.random() < 0.4:
            r["slug"] = pick(rng, ["L1", "é"])
            nd.add("layout.slug")
    return r, nd


def g_detmap(rng) -> tuple[dict, set]:
    via = wchoice(rng, {"traps": 0.5, "register": 0.3, "layout": 0.2})
    nd: set = set()
    if via == "register":
        r, _ = g_register(rng, kind=pick(rng, ["reg", "layout"]))
        ids = rng.sample(r["ids"], rng.randint(1, len(r["ids"])))
        s = {"via": "register", "register": r, "ids": ids, "weights": [pick(rng, [0.0, 1.0, 0.5, gen.r6(rng.random())]) for _ in ids]}
        dim = len((r.get("coords") or r["traps"])[0])
    elif via == "layout":
        la, _ = g_layout(rng, nmin=3)
        k = rng.randint(2, len(la["traps"]))
        s = {"via": "layout", "traps": la["traps"], "trap_ids": rng.sample(range(len(la["traps"])), k),
             "weights": [pick(rng, [0.0, 1.0, 0.5, gen.r6(rng.random())]) for _ in range(k)]}
        dim = len(la["traps"][0])
    else:
        dim = pick(rng, [2, 2, 2, 2, 3])
        tr = grid(rng, rng.randint(1, 8), dim, pick(rng, [4.0, 5, 1.5]), None, jitter=rng.random() < 0.3)
        s = {"traps": tr, "weights": [pick(rng, [0.0, 1.0, 0.5, gen.r6(rng.random()), 1e-9]) for _ in tr]}
    if dim == 3:
        nd.add("3d")
    if rng.random() < 0.4:
        s["slug"] = pick(rng, ["dm", "é-map"])
        nd.add("slug")
    if via != "traps":
        nd.add("via-" + via)
    return s, nd


# ------------------------------------------------------------------------------------------------ cases
def g_step(rng, cls: str, hint: dict) -> dict:
    if cls == "device":
        s, nd = g_device(rng)
    elif cls == "channel":
        cls, s, nd = g_channel_like(rng)
    elif cls == "register":
        s, nd = g_register(rng)
    elif cls == "layout":
        s, nd = g_layout(rng)
    elif cls == "detmap":
        s, nd = g_detmap(rng)
    elif cls == "noise":
        s, nd = g_noise(rng, qobj=True)
    elif cls in ("state", "operator"):
        typ = hint.get("typ") or pick(rng, ["Qutip", "Qutip", "Repr"])
        eig = hint.get("eig") or pick(rng, EIGS)
        # neighbours of the same class get *different* sizes
        n = pick(rng, [x for x in ([1, 2, 3, 4] if len(eig) == 2 else [1, 2, 3]) if x != hint.get("last_n")])
        hint["last_n"] = n
        if cls == "state":
            s, nd = g_state(rng, "QutipState" if typ == "Qutip" else "StateRepr", n, eig)
        else:
            s, nd = g_operator(rng, "QutipOperator" if typ == "Qutip" else "OperatorRepr", n, eig)
    elif cls == "config":
        s, nd = g_config(rng)
    elif cls == "results":
        s, nd = g_results(rng)
    elif cls == "simconfig":
        s, nd = g_simconfig(rng)
    else:
        raise AssertionError(cls)
    return {"cls": cls, "spec": s, "nd": sorted(nd)}


THEMES = {
    "mixed": ({"device": 2, "channel": 2, "register": 2, "layout": 1, "detmap": 1.5, "noise": 2.5, "state": 2.5,
               "operator": 2, "config": 2.5, "results": 1.5, "simconfig": 0.7}, 3),
    "states": ({"state": 5, "operator": 3.5, "config": 1.5}, 2),
    "configs": ({"config": 5, "state": 1, "operator": 1, "noise": 1.5, "results": 2}, 1.8),
    "devices": ({"device": 5, "channel": 3.5, "noise": 1, "layout": 1}, 1.6),
    "geometry": ({"register": 4, "layout": 2.5, "detmap": 3, "device": 0.5}, 1.5),
    "noise": ({"noise": 6, "config": 1.5, "device": 1, "simconfig": 2.5}, 1.5),
}


def make_case(rng) -> dict:
    theme = wchoice(rng, {k: w for k, (_, w) in THEMES.items()})
    weights = THEMES[theme][0]
    hint: dict = {}
    if theme == "states" and rng.random() < 0.6:
        hint["typ"] = pick(rng, ["Qutip", "Repr", "Repr"])
        if rng.random() < 0.5:
            hint["eig"] = pick(rng, EIGS)
    steps = [g_step(rng, wchoice(rng, weights), hint) for _ in range(rng.randint(4, 9))]
    return {"theme": theme, "steps": steps}


def setup(ctx):
    ctx._c17_schemas = rt.Schemas()


def shared_argument_case(ctx, rng) -> None:
    """Two configs built from the same mutable arguments; mutating the argument (or one config) must not change the other."""
    import warnings

    import numpy as np
    from pulser.backend import default_observables as DO
    from pulser.backend.config import EmulationConfig

    n = rng.randint(2, 4)
    buf = np.zeros((n, n))
    for i in range(n):
        for j in range(i + 1, n):
            buf[i, j] = buf[j, i] = round(rng.uniform(0.1, 5.0), 3)
    obs = [DO.BitStrings(num_shots=rng.randint(10, 500)), DO.Occupation(evaluation_times=[0.5, 1.0])]
    ctx.case = {"shared_arguments": {"n": n, "matrix": buf.tolist()}}
    with warnings.catch_warnings():
        warnings.simplefilter("ignore")
        try:
            c1 = EmulationConfig(observables=obs, interaction_matrix=buf, default_evaluation_times=[1.0])
            before = c1.to_abstract_repr()
            m1 = np.array(c1.interaction_matrix, dtype=float).copy()
            buf[0, 1] = buf[1, 0] = 99.0            # the caller reuses its buffer for the next config
            obs[0].num_shots = 7                     # ... and edits an observable it still holds
            c2 = EmulationConfig(observables=obs, interaction_matrix=buf, default_evaluation_times=[1.0])
            after = c1.to_abstract_repr()
        except Exception as e:  # noqa: BLE001
            ctx.gray(f"shared-argument-case-raised:{type(e).__name__}")
            return
    ctx.count("shared_argument_checks")
    if before != after or not np.array_equal(m1, np.array(c1.interaction_matrix, dtype=float)):
        ctx.violation("aliasing", "an EmulationConfig changed when the arguments it was built from were modified / reused for "
                      "another config (serialisation before != after)", "aliasing:config-shares-constructor-arguments")


def run_case(ctx, idx, rng, tier):
    import warnings

    if idx % 10 == 9:
        shared_argument_case(ctx, rng)

    case = make_case(rng)
    ctx.case = case
    ctx.sample(case)
    chk = rt.Checker(ctx, ctx._c17_schemas)
    before_modes = dict(rt.AMP_MODES)
    for i, st in enumerate(case["steps"]):
        cls, spec = st["cls"], st["spec"]
        label = f"#{i}:{cls}"
        with warnings.catch_warnings(record=True) as ws:
            warnings.simplefilter("always")
            try:
                obj = rt.BUILDERS[cls](spec)
            except Exception as e:  # noqa: BLE001 - the spec is believed valid; no clause of C17 covers a refusal
                ctx.gray(f"construct-raised:{cls}:{type(e).__name__}")
                ctx.count("construct_raised")
                chk.reg.event(f"failed construction of {label}", [])
                continue
        warned = any("is not used by any active noise type" in str(w.message) for w in ws)
        if cls == "noise":
            # the domain is decided by the reference, not by the warning of the code under test
            unused = ref.unused_params(rt.ref_noise_kwargs(spec))
            if bool(unused) != warned:
                ctx.gray("unused-parameter-warning-" + ("missing" if unused else "unexpected"))
            if unused:
                ctx.count("outside_domain_unused_parameter")
                continue
        elif warned:
            ctx.count("outside_domain_unused_parameter")
            continue
        chk.reg.event(f"construction of {label}", [(label, obj)])
        ctx.count(f"constructed:{cls}")
        name = type(obj).__name__
        if len(st["nd"]) >= 2:
            ctx.mark_nontrivial(f"{name}|{','.join(st['nd'])}")
        with warnings.catch_warnings():
            warnings.simplefilter("ignore")
            getattr(chk, {"dmm": "channel", "simconfig": "simconfig_first"}.get(cls, cls))(label, spec, obj)
    for k, v in rt.AMP_MODES.items():
        if v > before_modes.get(k, 0):
            ctx.count("qutip_state_amplitudes_handed_over:" + k, v - before_modes.get(k, 0))
