"""C11 — emulation keeps states physical and follows the measurement conventions; legacy == V2."""
import math
import warnings

import numpy as np

from vmon import gen, prog
from vmon.snap import state_key

LEVEL = "exploration"
RULE = ("eight workloads interleaved by case index (incl. V2 runs with stochastic + dissipative noise whose averaged density matrices must stay physical): (norm+agree) generated 1-3 atom sequences run on the legacy emulator and "
        "the V2 backend at several evaluation times: every state normalised, V2 state == legacy state; (dissipative) "
        "dephasing / relaxation / depolarizing / effective noise: unit trace, Hermitian, positive; (rabi) constant resonant "
        "pulse vs the analytic interval; (idle) zero drive leaves the initial state and product basis states sample to "
        "exactly the documented bitstring in 2- and 3-level bases, sampling distributions sum to one; (detect) "
        "detection-error flip frequencies within 6 sigma; (sweep) QutipBackendV2.run() for one-pulse sequences of every "
        "duration x evaluation-time setting x sampling rate must return one state per requested time. non-trivial = "
        "distinct (workload, configuration) tuples")
RULE += " Later additions: directed: hyperfine-only dephasing on a resonantly driven g-h superposition must lose purity."
ASSUMPTIONS = ["tolerances: norm 1e-4 (solver rtol), trace 1e-5, positivity -1e-6, legacy-vs-V2 amplitudes 1e-3 and fidelity 1-1e-6, Rabi interval "
               "widened by 1e-4 (1-ns discretisation)", "statistical clauses are seeded 6-sigma tests"]
TIERS = {"quick": dict(cases=420, shards=8, case_timeout=300, shard_timeout=1500),
         "thorough": dict(cases=4200, shards=16, case_timeout=300, shard_timeout=3400)}
FLOORS = {"quick": {"states_norm_checked": 300, "v1_v2_states_compared": 100, "density_matrices_checked": 100,
                    "rabi_checked": 30, "bitstring_conventions_checked": 60, "detection_error_checks": 20,
                    "sweep_runs": 500, "v2_noisy_density_matrices_checked": 60,
                    "reconfigured_emulators_compared": 30, "v1_v2_density_matrices_compared": 30,
                    "reduced_states_with_eliminated_population": 40,
                    "superposition_bitstring_distributions_checked_three_level": 10,
                    "detection_error_expectations_checked_with_leakage": 20},
          "thorough": {"sweep_runs": 6000}}
WEIGHTS = {"sample": 0, "str": 0, "to_abstract_repr": 0, "build_copy": 0, "queries": 0, "get_duration": 0,
           "estimate_added_delay": 0, "is_in_eom_mode": 0, "current_phase_ref": 0, "measure": 0.0, "add": 12,
           "config_detuning_map": 0.8, "add_dmm_detuning": 1.5, "config_slm_mask": 0.0, "target": 2, "phase_shift": 1.0,
           "delay": 1.5, "align": 0.7, "enable_eom_mode": 0.0, "set_magnetic_field": 0.3}
MOCK = {"kind": "builtin", "name": "MockDevice"}


def small_sequence(ctx, rng, xy=False):
    dev = MOCK
    reg = gen.gen_register(rng, dev, nmin=1, nmax=3, kind="reg")
    reg["coords"] = [[c * 1.0 for c in p] for p in reg["coords"]]
    r = prog.Runner(ctx, dev, reg, [])
    w = dict(WEIGHTS)
    g = gen.ProgGen(rng, dev, reg, r.chspecs, weights=w, max_channels=3)
    if xy:
        g.chspecs = {k: v for k, v in g.chspecs.items() if v["cls"] == "Microwave" or v.get("dmm")}
    else:
        g.chspecs = {k: v for k, v in g.chspecs.items() if v["cls"] != "Microwave"}

    def pf(rr, c, ph):
        d = gen.pick(rr, [16, 40, 100, 52, 200])
        p = gen.gen_pulse(rr, dict(c, max_amp=8.0, max_abs_detuning=10.0), d=d, phase=ph, pps_p=0.1, arb=0.0)
        return p
    g.pulse_fn = pf
    for _ in range(rng.randint(4, 9)):
        op = g.next_op()
        if op["op"] == "delay":
            op["duration"] = min(int(op["duration"]) if isinstance(op["duration"], int) else 16, 100)
        ev = r.step(op)
        g.update(op, ev.exc is None and ev.stage == "call")
        if ev.exc is not None and state_key(ev.pre) != state_key(ev.post):
            return None
    if r.seq.get_duration() < 16 if r.seq.declared_channels else True:
        return None
    return r


def one_pulse(D, omega=2.0, det=0.0, channel="rydberg_global", n=1, phase=0.0):
    import pulser

    reg = pulser.Register({f"q{i}": (i * 50.0, 0.0) for i in range(n)})
    seq = pulser.Sequence(reg, pulser.MockDevice)
    local = "local" in channel
    seq.declare_channel("ch", channel, **({"initial_target": "q0"} if local else {}))
    seq.add(pulser.Pulse.ConstantPulse(D, omega, det, phase), "ch")
    return seq


# ------------------------------------------------------------------------------------------------
def w_norm_agree(ctx, rng, idx):
    from pulser.backend.default_observables import StateResult
    from pulser_simulation import QutipBackendV2, QutipConfig, QutipEmulator

    r = small_sequence(ctx, rng, xy=rng.random() < 0.2)
    if r is None:
        ctx.count("sequence_unusable")
        return
    seq = r.seq
    ctx.case = r.prog
    rel = sorted({round(x, 3) for x in [rng.random() for _ in range(rng.randint(1, 4))] + [1.0]})
    rate = gen.pick(rng, [1.0, 1.0, 0.5])
    try:
        with warnings.catch_warnings():
            warnings.simplefilter("ignore")
            emu = QutipEmulator.from_sequence(seq, sampling_rate=rate)
            T = emu.total_duration_ns
            emu.set_evaluation_times([t * T / 1000 for t in rel])
            res = emu.run()
    except Exception as e:
        ctx.violation("legacy-raises", f"legacy emulator raised {type(e).__name__}: {str(e)[:200]}",
                      f"legacy-raises:{type(e).__name__}")
        return
    legacy = {}
    for st, t in zip(res.states, res._sim_times):
        v = np.asarray(st.full()).ravel()
        ctx.count("states_norm_checked")
        if abs(np.linalg.norm(v) - 1) > 1e-4:
            ctx.violation("norm", f"legacy state at t={t} has norm {np.linalg.norm(v)!r}", "norm:legacy")
        legacy[round(float(t) * 1000 / T, 6)] = v
    try:
        with warnings.catch_warnings():
            warnings.simplefilter("ignore")
            cfg = QutipConfig(observables=[StateResult(evaluation_times=rel)], sampling_rate=rate)
            res2 = QutipBackendV2(seq, config=cfg).run()
    except Exception as e:
        ctx.violation("v2-raises", f"QutipBackendV2 raised {type(e).__name__}: {str(e)[:200]} (evaluation times {rel}, "
                      f"duration {T})", f"v2-raises:{type(e).__name__}")
        return
    times = res2.get_result_times("state")
    vals = res2.get_tagged_results()["state"] if hasattr(res2, "get_tagged_results") else res2.state
    for t, s in zip(times, vals):
        v2 = np.asarray(s.to_qobj().full()).ravel()
        ctx.count("states_norm_checked")
        if abs(np.linalg.norm(v2) - 1) > 1e-4:
            ctx.violation("norm", f"V2 state at t={t} has norm {np.linalg.norm(v2)!r}", "norm:v2")
        key = min(legacy, key=lambda k: abs(k - t)) if legacy else None
        if key is None or abs(key - t) > 1.5 / T:
            continue
        v1 = legacy[key]
        ctx.count("v1_v2_states_compared")
        fid = abs(np.vdot(v1, v2)) ** 2 / (np.vdot(v1, v1).real * np.vdot(v2, v2).real)
        if fid < 1 - 1e-6 or np.max(np.abs(v1 - v2)) > 1e-3:
            ctx.violation("backends-differ", f"legacy and V2 states differ at relative time {t}: fidelity {fid!r}, "
                          f"max amplitude difference {np.max(np.abs(v1 - v2))!r}", "backends-differ")
    ctx.mark_nontrivial(("agree", idx))
    ctx.sample({k: (v if k != "ops" else v[:10]) for k, v in r.prog.items()})


def w_dissipative(ctx, rng, idx):
    import pulser
    from pulser_simulation import QutipEmulator, SimConfig

    kind = ["dephasing", "relaxation", "depolarizing", "eff_noise", "dephasing+relaxation"][idx // 7 % 5]
    n = 1 + (idx // 35) % 2
    ch = gen.pick(rng, ["rydberg_global", "raman_local"]) if "relaxation" not in kind else "rydberg_global"
    hyperfine_only = kind == "dephasing" and (idx // 35) % 2 == 1  # dephasing of the hyperfine state alone (rate of r: 0)
    if hyperfine_only:
        ch = "raman_local"
    D = gen.pick(rng, [100, 300, 520])
    om, de = gen.pick(rng, [2.0, 6.0]), gen.pick(rng, [0.0, 1.5])
    seq = one_pulse(D, omega=6.0 if hyperfine_only else om, det=0.0 if hyperfine_only else de, channel=ch, n=n)
    kw = {}
    if "dephasing" in kind:
        kw.update(dephasing_rate=gen.pick(rng, [0.05, 1.0, 5.0]), hyperfine_dephasing_rate=gen.pick(rng, [1e-3, 0.5]))
        if hyperfine_only:
            kw.pop("dephasing_rate")
            kw["hyperfine_dephasing_rate"] = gen.pick(rng, [0.2, 0.5, 2.0])
            ctx.count("dissipative_cases_with_hyperfine_dephasing_only")
    if "relaxation" in kind:
        kw.update(relaxation_rate=gen.pick(rng, [0.01, 1.0, 4.0]))
    if kind == "depolarizing":
        kw.update(depolarizing_rate=gen.pick(rng, [0.05, 1.0, 3.0]))
    if kind == "eff_noise":
        a = np.array([[0, 1], [0, 0]], dtype=complex)
        z = np.array([[1, 0], [0, -1]], dtype=complex)
        kw.update(eff_noise_rates=(gen.pick(rng, [0.1, 2.0]), 0.3), eff_noise_opers=(a, z))
    ctx.case = {"dissipative": kind, "n": n, "channel": ch, "D": D, "params": {k: (v if not isinstance(v, tuple) else "ops")
                                                                                 for k, v in kw.items()}}
    try:
        with warnings.catch_warnings():
            warnings.simplefilter("ignore")
            nm = pulser.NoiseModel(**kw)
            emu = QutipEmulator.from_sequence(seq, config=SimConfig.from_noise_model(nm))
            emu.set_evaluation_times([D * f / 1000 for f in (0.25, 0.5, 1.0)])
            res = emu.run()
    except Exception as e:
        ctx.violation("dissipative-raises", f"{kind}: emulator raised {type(e).__name__}: {str(e)[:200]}",
                      f"dissipative-raises:{kind}:{type(e).__name__}")
        return
    for st in res.states:
        rho = np.asarray(st.full())
        if rho.shape[1] == 1:
            rho = rho @ rho.conj().T
        ctx.count("density_matrices_checked")
        tr = np.trace(rho)
        if abs(tr - 1) > 1e-5:
            ctx.violation("trace", f"{kind}: Tr rho = {tr!r}", "trace")
        if np.max(np.abs(rho - rho.conj().T)) > 1e-8:
            ctx.violation("hermitian", f"{kind}: rho not Hermitian", "rho-not-hermitian")
        lam = np.linalg.eigvalsh((rho + rho.conj().T) / 2)
        if lam.min() < -1e-6:
            ctx.violation("positive", f"{kind}: smallest eigenvalue of rho is {lam.min()!r}", "rho-not-positive")
    # an atom driven into a superposition of g and h, with a dephasing rate on h only (the rate of r is 0), cannot stay
    # pure: "the density matrix" of the statement is the one evolved under the configured noise. (Checked for this
    # configuration only: resonant drive of 6 rad/us for >= 100 ns, rates >= 0.2/us; drops observed >= 1e-3. A
    # general "must be mixed" rule has no safe threshold: weak relaxation of a barely excited atom changes the purity
    # by 1e-7 - a first, general version of this check raised a false alarm on exactly that.)
    if hyperfine_only:
        last = np.asarray(res.states[-1].full())
        if last.shape[1] == 1:
            last = last @ last.conj().T
        purity = float(np.real(np.trace(last @ last)))
        ctx.count("purity_checks_under_hyperfine_dephasing")
        ctx.case["final_purity"] = purity
        if 1 - purity < 1e-4:
            ctx.violation("dissipation-ignored", f"hyperfine dephasing {kw} on {ch}: the final state is pure "
                          f"(1 - Tr rho^2 = {1 - purity:.3g}) although g and h are in superposition for {D} ns",
                          "dissipation-ignored:hyperfine-only")
    ctx.mark_nontrivial(("diss", kind, n, ch, D, tuple(sorted((k, str(v)[:12]) for k, v in kw.items()))))
    # ---- same sequence and configuration => same states: a fresh legacy emulator, one that went through another
    #      configuration first, and the V2 backend -------------------------------------------------------------
    from pulser.backend.default_observables import StateResult
    from pulser_simulation import QutipBackendV2, QutipConfig

    def rhos(states):
        out = []
        for st in states:
            m = np.asarray((st.to_qobj() if hasattr(st, "to_qobj") else st).full())
            out.append(m @ m.conj().T if m.shape[1] == 1 else m)
        return out

    fresh = rhos(res.states)
    other = [dict(dephasing_rate=0.7, hyperfine_dephasing_rate=0.2), dict(depolarizing_rate=0.6),
             dict(relaxation_rate=0.8) if ch == "rydberg_global" else dict(depolarizing_rate=1.1)][idx // 5 % 3]
    how = ["set_config", "add_config+set_config", "run+set_config"][idx // 3 % 3]
    ctx.case["config_history"] = [how, {k: v for k, v in other.items()}]
    try:
        with warnings.catch_warnings():
            warnings.simplefilter("ignore")
            emu2 = QutipEmulator.from_sequence(seq, config=SimConfig.from_noise_model(pulser.NoiseModel(**other)))
            if how.startswith("add_config"):
                emu2.add_config(SimConfig.from_noise_model(nm))
            if how.startswith("run"):
                emu2.run()
            emu2.set_config(SimConfig.from_noise_model(nm))
            emu2.set_evaluation_times([D * f / 1000 for f in (0.25, 0.5, 1.0)])
            again = rhos(emu2.run().states)
    except Exception as e:
        ctx.violation("dissipative-raises", f"{kind}: re-configured emulator raised {type(e).__name__}: {str(e)[:200]}",
                      f"dissipative-raises:reconfigured:{type(e).__name__}")
        return
    ctx.count("reconfigured_emulators_compared")
    dmax = max(float(np.max(np.abs(a - b))) for a, b in zip(fresh, again))
    if len(fresh) != len(again) or dmax > 1e-6:
        ctx.violation("config-history", f"{kind}: an emulator configured with {sorted(other)} first and then set to the same "
                      f"configuration gives states differing by {dmax:.3g} from a fresh emulator", "reconfigured-emulator-differs")
    try:
        with warnings.catch_warnings():
            warnings.simplefilter("ignore")
            cfg = QutipConfig(observables=[StateResult(evaluation_times=[0.25, 0.5, 1.0])], noise_model=nm)
            v2 = rhos(QutipBackendV2(seq, config=cfg).run().state)
    except Exception as e:
        ctx.violation("v2-raises", f"V2 with {kind} raised {type(e).__name__}: {str(e)[:200]}",
                      f"v2-raises:dissipative:{type(e).__name__}")
        return
    leg = fresh[1:] if len(fresh) == len(v2) + 1 else fresh  # (the legacy results also hold the initial state)
    if len(v2) == len(leg):
        ctx.count("v1_v2_density_matrices_compared")
        dmax = max(float(np.max(np.abs(a - b))) for a, b in zip(leg, v2))
        if dmax > 2e-3:
            ctx.violation("backends-differ", f"{kind}: legacy and V2 density matrices differ by {dmax:.3g}",
                          "backends-differ:dissipative")


def w_reduce(ctx, rng, idx):
    """Three-level noiseless run; the state handed out in a two-level sub-basis is still a normalised state."""
    import pulser
    from pulser_simulation import QutipEmulator

    small = [0.02, 0.05, 0.09, 0.12][idx // 14 % 4]      # rotation angle on the level to be eliminated
    which = ["digital-small", "rydberg-small"][idx // 56 % 2]
    n = 1 + (idx // 112) % 2
    reg = pulser.Register({f"q{i}": (i * 60.0, 0.0) for i in range(n)})
    seq = pulser.Sequence(reg, pulser.MockDevice)
    seq.declare_channel("ryd", "rydberg_global")
    seq.declare_channel("ram", "raman_global")
    D = 200
    big = pulser.Pulse.ConstantPulse(D, (math.pi / 2) / (D * 1e-3), 0.0, 0.3)
    tiny = pulser.Pulse.ConstantPulse(D, small / (D * 1e-3), 0.0, 0.0)
    seq.add(tiny if which == "digital-small" else big, "ram")
    seq.add(big if which == "digital-small" else tiny, "ryd")
    keep = "ground-rydberg" if which == "digital-small" else "digital"
    ctx.case = {"reduce": {"eliminated_rotation": small, "which": which, "n": n, "reduce_to_basis": keep}}
    with warnings.catch_warnings():
        warnings.simplefilter("ignore")
        res = QutipEmulator.from_sequence(seq).run()
    for tol in (1e-2, 0.2):
        for getter, label in ((lambda **kw: res.get_final_state(**kw), "final"),
                              (lambda **kw: res.get_state(res._sim_times[len(res._sim_times) // 2 + 1], **kw), "middle")):
            try:
                st = getter(reduce_to_basis=keep, tol=tol)
                raw = getter(reduce_to_basis=keep, tol=tol, normalize=False)
            except TypeError:
                ctx.count("reduce_refused_population_above_tol")
                continue
            v, w = np.asarray(st.full()).ravel(), np.asarray(raw.full()).ravel()
            ctx.count("reduced_states_checked")
            if 1 - np.linalg.norm(w) > 1e-5:
                ctx.count("reduced_states_with_eliminated_population")
            if len(v) != 2 ** n:
                ctx.violation("reduce", f"reduced state has dimension {len(v)} for {n} atoms", "reduce-dim")
            if abs(np.linalg.norm(v) - 1) > 1e-6:
                ctx.violation("norm", f"{label} state reduced to {keep} (tol={tol}) has norm {np.linalg.norm(v)!r} "
                              f"(unnormalised {np.linalg.norm(w)!r})", "norm:reduced")
            elif np.linalg.norm(w) > 0 and np.max(np.abs(v - w / np.linalg.norm(w))) > 1e-6:
                ctx.violation("reduce", "normalised and unnormalised reduced states are not proportional", "reduce-proportional")
    ctx.mark_nontrivial(("reduce", small, which, n))


def w_rabi(ctx, rng, idx):
    from pulser_simulation import QutipEmulator

    omega = [0.5, 1.0, 2.0, math.pi, 6.0, 9.0][idx // 7 % 6]
    T = [100, 250, 333, 500, 1000][idx // 42 % 5]
    ch = ["rydberg_global", "raman_local", "rydberg_local"][idx // 210 % 3]
    ctx.case = {"rabi": {"omega": omega, "T": T, "channel": ch}}
    with warnings.catch_warnings():
        warnings.simplefilter("ignore")
        res = QutipEmulator.from_sequence(one_pulse(T, omega, channel=ch)).run()
    psi = np.asarray(res.get_final_state().full()).ravel()
    g_index = 0 if "raman" in ch else 1
    p = 1 - abs(psi[g_index]) ** 2
    th = np.linspace(omega * (T - 1) * 1e-3, omega * T * 1e-3, 201)
    vals = np.sin(th / 2) ** 2
    lo, hi = vals.min() - 1e-4, vals.max() + 1e-4
    ctx.count("rabi_checked")
    ctx.mark_nontrivial(("rabi", omega, T, ch))
    if not (lo <= p <= hi):
        ctx.violation("rabi", f"{ch} Omega={omega} T={T}: excitation {p:.6f} outside analytic interval [{lo:.6f}, {hi:.6f}]",
                      "rabi")


def w_idle(ctx, rng, idx):
    import pulser
    import qutip
    from pulser.backend.default_observables import BitStrings, StateResult
    from pulser_simulation import QutipBackendV2, QutipConfig, QutipEmulator, QutipState

    mode = ["ground-rydberg", "digital", "XY", "all:ground-rydberg", "all:digital"][idx // 7 % 5]
    n = 1 + (idx // 35) % 3
    ids = ["b", "a", "c"][:n]
    rng.shuffle(ids)
    # atoms far apart: the always-on interaction (vdW phases, XY exchange) is below 1e-12 rad over the sequence
    reg = pulser.Register({q: (i * 4.0e5, (i % 2) * 3.0e5) for i, q in enumerate(ids)})
    seq = pulser.Sequence(reg, pulser.MockDevice)
    D = gen.pick(rng, [64, 100, 212])
    tiny = pulser.Pulse.ConstantPulse(D, 0.0, -1.0, 0.0)
    # (with no drive at all the emulator works in its default basis, so a pure delay is only meaningful there)
    idle = mode in ("ground-rydberg", "XY") and rng.random() < 0.5
    if mode.startswith("all"):
        seq.declare_channel("r", "rydberg_global")
        seq.declare_channel("d", "raman_global")
        seq.add(tiny, "r")
        seq.add(tiny, "d")
        states, meas = ["r", "g", "h"], mode.split(":")[1]
        seq.measure(meas)
    else:
        chn = {"ground-rydberg": "rydberg_global", "digital": "raman_global", "XY": "mw_global"}[mode]
        seq.declare_channel("c", chn)
        if idle:
            seq.delay(D, "c")
        else:
            seq.add(tiny, "c")
        states = {"ground-rydberg": ["r", "g"], "digital": ["g", "h"], "XY": ["u", "d"]}[mode]
        meas = mode
    one = {"ground-rydberg": "r", "digital": "h", "XY": "d"}[meas]
    config = [gen.pick(rng, states) for _ in range(n)]
    expected = "".join("1" if s == one else "0" for s in config)
    ctx.case = {"idle": {"mode": mode, "ids": ids, "product_state": config, "D": D, "pure_delay": idle}}
    with warnings.catch_warnings():
        warnings.simplefilter("ignore")
        emu = QutipEmulator.from_sequence(seq)
    if list(emu.basis.keys()) != states:
        ctx.violation("basis-order", f"{mode}: emulator basis {list(emu.basis.keys())} != {states}", "basis-order")
        return
    psi0 = qutip.tensor([qutip.basis(len(states), states.index(s)) for s in config])
    emu.set_initial_state(psi0)
    with warnings.catch_warnings():
        warnings.simplefilter("ignore")
        res = emu.run()
    fin = np.asarray(res.get_final_state().full()).ravel()
    ini = np.asarray(psi0.full()).ravel()
    ctx.count("idle_checked")
    if idle:
        if np.max(np.abs(fin - ini)) > 1e-9:
            ctx.violation("zero-drive", f"{mode}: all-zero drive changed the state by {np.max(np.abs(fin - ini))!r}", "zero-drive")
    elif abs(abs(np.vdot(ini, fin)) - 1) > 1e-6:
        ctx.violation("zero-drive", f"{mode}: detuning-only drive moved population out of the product state", "zero-drive-population")
    np.random.seed(idx)
    cnt = res.sample_final_state(N_samples=200)
    ctx.count("bitstring_conventions_checked")
    if set(cnt) != {expected}:
        ctx.violation("bitstring-convention", f"{mode}: product state {''.join(config)} (register order {ids}) sampled as "
                      f"{dict(cnt)}, documented convention gives {expected}", f"bitstring:{meas}:legacy")
    dist = res.sampling_dist if hasattr(res, "sampling_dist") else None
    # ---- V2: BitStrings on the same product state ------------------------------------------------
    if not mode.startswith("all"):
        amps = {"".join(config): 1.0}
        st = QutipState.from_state_amplitudes(eigenstates=tuple(states), amplitudes=amps)
        cfg = QutipConfig(observables=[BitStrings(num_shots=100), StateResult()], initial_state=st)
        try:
            with warnings.catch_warnings():
                warnings.simplefilter("ignore")
                r2 = QutipBackendV2(seq, config=cfg).run()
            bs = r2.bitstrings[-1]
            ctx.count("bitstring_conventions_checked")
            if set(bs) != {expected}:
                ctx.violation("bitstring-convention", f"{mode}: V2 BitStrings of product state {''.join(config)} gave {dict(bs)}, "
                              f"convention gives {expected}", f"bitstring:{meas}:v2")
            probs = r2.state[-1].bitstring_probabilities()
            if abs(sum(probs.values()) - 1) > 1e-12:
                ctx.violation("distribution-sum", f"bitstring probabilities sum to {sum(probs.values())!r}", "distribution-sum")
        except Exception as e:
            ctx.violation("v2-raises", f"V2 with initial product state raised {type(e).__name__}: {str(e)[:200]}",
                          f"v2-raises:initial-state:{type(e).__name__}")
    # ---- V2 state object: a superposition over all product states of the basis in use (two or three levels per atom):
    #      every basis state goes to its bitstring (the measured state -> 1, every other state -> 0), weights add up --------
    import itertools
    labels = ["".join(p) for p in itertools.product(states, repeat=n)]
    raw = np.array([complex(rng.gauss(0, 1), rng.gauss(0, 1)) if rng.random() < 0.8 else 0j for _ in labels])
    if not np.any(raw):
        raw[0] = 1.0
    raw = raw / np.linalg.norm(raw)
    amps = {lb: complex(a) for lb, a in zip(labels, raw) if a != 0}
    want: dict = {}
    for lb, a in amps.items():
        bsx = "".join("1" if ch == one else "0" for ch in lb)
        want[bsx] = want.get(bsx, 0.0) + abs(a) ** 2
    try:
        stx = QutipState.from_state_amplitudes(eigenstates=tuple(states), amplitudes=amps)
        probs = dict(stx.bitstring_probabilities(one_state=one, cutoff=0.0))
        ctx.count("superposition_bitstring_distributions_checked")
        if len(states) > 2:
            ctx.count("superposition_bitstring_distributions_checked_three_level")
        if abs(sum(float(v) for v in probs.values()) - 1) > 1e-9 or set(k for k, v in probs.items() if v > 1e-14) != set(
                k for k, v in want.items() if v > 1e-14) or any(abs(float(probs.get(k, 0.0)) - v) > 1e-9 for k, v in want.items()):
            ctx.violation("bitstring-convention", f"{mode} (measured state {one}): bitstring probabilities of a superposition "
                          f"over {states}^{n} are {dict(sorted((k, round(float(v), 6)) for k, v in probs.items()))}, the "
                          f"convention gives {dict(sorted((k, round(v, 6)) for k, v in want.items()))}",
                          f"bitstring-distribution:{'three-level' if len(states) > 2 else 'two-level'}")
        np.random.seed(idx + 5)
        shots = stx.sample(num_shots=300, one_state=one)
        if sum(shots.values()) != 300 or not set(shots) <= set(want):
            ctx.violation("bitstring-convention", f"{mode}: sample() returned {dict(shots)} for a state whose bitstrings are "
                          f"{sorted(want)}", "bitstring-sample")
    except Exception as e:
        ctx.violation("v2-raises", f"bitstring probabilities / sampling of a V2 state raised {type(e).__name__}: {str(e)[:200]}",
                      f"v2-raises:bitstrings:{type(e).__name__}")
    ctx.mark_nontrivial(("idle", mode, n, tuple(config), idle))


def w_detect(ctx, rng, idx):
    import pulser
    import qutip
    from pulser_simulation import QutipEmulator, SimConfig

    eps = [0.0, 0.01, 0.1, 0.3][idx // 7 % 4]
    epsp = [0.05, 0.0, 0.2, 0.5][idx // 28 % 4]
    n = 1 + (idx // 112) % 2
    excited = (idx // 7) % 2 == 1
    ctx.case = {"detect": {"epsilon": eps, "epsilon_prime": epsp, "n": n, "all_rydberg": excited}}
    seq = one_pulse(100, omega=0.0, det=-1.0, n=n)
    N = 200000
    with warnings.catch_warnings():
        warnings.simplefilter("ignore")
        cfg = SimConfig(noise="SPAM", eta=0.0, epsilon=eps, epsilon_prime=epsp, runs=1, samples_per_run=1)
        emu = QutipEmulator.from_sequence(seq, config=cfg)
        if excited:
            emu.set_initial_state(qutip.tensor([qutip.basis(2, 0) for _ in range(n)]))
        res = emu.run()
        np.random.seed(1000 + idx)
        cnt = res.sample_final_state(N_samples=N)
    ones = sum(b.count("1") * c for b, c in cnt.items())
    tot = N * n
    p = epsp if excited else eps        # probability that a bit is flipped
    flipped = (tot - ones) if excited else ones
    sigma = math.sqrt(max(p * (1 - p) * tot, 1e-12))
    ctx.count("detection_error_checks")
    ctx.mark_nontrivial(("detect", eps, epsp, n, excited))
    if abs(flipped - p * tot) > 6 * sigma + 1e-9:
        ctx.violation("detection-errors", f"{'1->0' if excited else '0->1'} flips: {flipped}/{tot} observed, rate "
                      f"{p} configured (6 sigma = {6 * sigma:.1f})", "detection-errors:" + ("false-neg" if excited else "false-pos"))
    if sum(cnt.values()) != N:
        ctx.violation("detection-errors", f"{sum(cnt.values())} samples returned for {N} requested", "sample-count")
    # ---- expectation values under detection errors: <n_r> of an atom in g is epsilon, of an atom in r it is
    #      1 - epsilon', also when the basis carries the leakage state ----------------------------------------------
    for leak in ((False, True) if (eps or epsp) else ()):  # (without detection errors expect() works on the full basis)
        sq1 = one_pulse(200, omega=math.pi / 0.2, det=0.0, n=1)
        kwl = dict(noise=("SPAM", "leakage", "eff_noise") if leak else "SPAM", eta=0.0, epsilon=eps, epsilon_prime=epsp,
                   runs=1, samples_per_run=1)
        if leak:
            kwl.update(eff_noise_rates=[1e-9], eff_noise_opers=[qutip.Qobj(np.diag([0.0, 0.0, 1.0]))])
        try:
            with warnings.catch_warnings():
                warnings.simplefilter("ignore")
                e1 = QutipEmulator.from_sequence(sq1, config=SimConfig(**kwl))
                e1.set_evaluation_times([0.0, 0.2])
                r1 = e1.run()
                nr = np.asarray(r1.expect([qutip.basis(2, 0).proj()])[0], dtype=float)
        except Exception as e:
            ctx.violation("detection-errors", f"expect() under detection errors ({'with' if leak else 'without'} leakage) raised "
                          f"{type(e).__name__}: {str(e)[:160]}", f"detection-expect-raises:{type(e).__name__}")
            continue
        ctx.count("detection_error_expectations_checked")
        if leak:
            ctx.count("detection_error_expectations_checked_with_leakage")
        if abs(nr[0] - eps) > 1e-6 or abs(nr[-1] - (1 - epsp)) > 2e-3:
            ctx.violation("detection-errors", f"<n_r> under detection errors (epsilon={eps}, epsilon'={epsp}, "
                          f"{'with' if leak else 'without'} leakage state): {nr[0]:.4f} for an atom in g (want {eps}), "
                          f"{nr[-1]:.4f} after a pi pulse (want {1 - epsp})",
                          "detection-expect:" + ("leakage-basis" if leak else "two-level"))
    # ---- same sequence + same configuration (detection errors only) on an emulator that drew badly prepared atoms
    #      under an earlier configuration: the states must be those of a fresh emulator (blockaded pair) -------------
    reg = pulser.Register({"a": (0.0, 0.0), "b": (5.0, 0.0)})
    sq = pulser.Sequence(reg, pulser.MockDevice)
    sq.declare_channel("ch", "rydberg_global")
    sq.add(pulser.Pulse.ConstantPulse(300, 6.0, 0.0, 0.0), "ch")
    with warnings.catch_warnings():
        warnings.simplefilter("ignore")
        fresh = np.asarray(QutipEmulator.from_sequence(sq, config=cfg).run().get_final_state().full()).ravel()
        np.random.seed(7 + idx)
        e2 = QutipEmulator.from_sequence(sq, config=SimConfig(noise="SPAM", eta=0.97, epsilon=0.0, epsilon_prime=0.0,
                                                              runs=2, samples_per_run=1))
        how = ["set_config", "run+set_config", "add_config+set_config"][idx // 7 % 3]
        if how.startswith("run"):
            e2.run()
        if how.startswith("add"):
            e2.add_config(SimConfig(noise="dephasing", dephasing_rate=0.1))
            e2.set_config(SimConfig(noise="SPAM", eta=0.97, runs=2, samples_per_run=1))
        e2.set_config(cfg)
        again = np.asarray(e2.run().get_final_state().full()).ravel()
    ctx.count("spam_reconfigured_emulators_compared")
    if fresh.shape != again.shape or np.max(np.abs(np.abs(fresh) ** 2 - np.abs(again) ** 2)) > 1e-6:
        ctx.violation("config-history", f"after {how} from a configuration with state-preparation errors to one with "
                      f"detection errors only, populations {np.round(np.abs(again) ** 2, 4)} differ from a fresh emulator's "
                      f"{np.round(np.abs(fresh) ** 2, 4)} (two atoms 5 um apart)", "reconfigured-emulator-differs:spam")


def w_sweep(ctx, rng, idx, tier):
    from pulser.backend.default_observables import Occupation, StateResult
    from pulser_simulation import QutipBackendV2, QutipConfig

    k = idx // 7
    per = 24 if tier == "quick" else 40
    base = 16 + (k * per) % 1485
    durs = [16 + ((base - 16 + j) % 1485) for j in range(per)] + [102, 104, 118, 18, 26]
    settings = ["default", "[1.0]", "[0.5,1.0]", "Full", "own", "[0.0,0.3,1.0]"]
    for D in durs[: per if idx % 3 else None]:
        s = settings[(D + k) % len(settings)]
        rate = 1.0 if (D + k) % 4 else 0.5
        ctx.case = {"sweep": {"D": D, "eval": s, "sampling_rate": rate}}
        seq = one_pulse(D, omega=1.0)
        obs = [StateResult()]
        kw = {}
        want = None
        if s == "[1.0]":
            kw["default_evaluation_times"] = [1.0]
            want = [1.0]
        elif s == "[0.5,1.0]":
            kw["default_evaluation_times"] = [0.5, 1.0]
            want = [0.5, 1.0]
        elif s == "[0.0,0.3,1.0]":
            kw["default_evaluation_times"] = [0.0, 0.3, 1.0]
            want = [0.0, 0.3, 1.0]
        elif s == "Full":
            kw["default_evaluation_times"] = "Full"
        elif s == "own":
            obs = [StateResult(evaluation_times=[0.25, 1.0]), Occupation()]
            want = [0.25, 1.0]
        else:
            want = [1.0]
        ctx.count("sweep_runs")
        ctx.mark_nontrivial(("sweep", D, s, rate))
        try:
            with warnings.catch_warnings():
                warnings.simplefilter("ignore")
                res = QutipBackendV2(seq, config=QutipConfig(observables=obs, sampling_rate=rate, **kw)).run()
        except Exception as e:
            ctx.violation("v2-raises", f"QutipBackendV2.run() raised for duration {D}, evaluation times {s}, sampling rate "
                          f"{rate}: {type(e).__name__}: {str(e)[:160]}", f"v2-raises:sweep:{s}:{type(e).__name__}")
            continue
        times = [float(t) for t in res.get_result_times("state")]
        if want is not None:
            tol = 1.0 / D
            ok = len(times) == len(want) and all(abs(a - b) <= tol for a, b in zip(times, want))
            if not ok:
                ctx.violation("eval-times", f"duration {D}, evaluation times {s}: states stored at {times[:8]}, requested {want}",
                              f"eval-times:{s}")
        elif len(times) < 4 or times != sorted(times) or abs(times[-1] - 1.0) > 2.0 / D:
            ctx.violation("eval-times", f"duration {D}, 'Full': {len(times)} states, last at {times[-1] if times else None}",
                          "eval-times:Full")
        if len(res.state) != len(times):
            ctx.violation("eval-times", "number of stored states differs from the number of times", "eval-times:count")


def w_v2_noisy(ctx, rng, idx):
    """V2 backend with stochastic (state preparation / doppler / amplitude) and dissipative noise: averaged density matrices."""
    import pulser
    from pulser.backend.default_observables import StateResult
    from pulser_simulation import QutipBackendV2, QutipConfig

    k = idx // 8
    stoch = ["spam", "spam", "doppler", "amplitude", "spam+doppler"][k % 5]
    diss = [None, "dephasing", "relaxation", "depolarizing"][(k // 5) % 4]
    n = 1 + (k // 20) % 2
    kw = {"runs": gen.pick(rng, [6, 12]), "samples_per_run": 1}
    if "spam" in stoch:
        kw.update(state_prep_error=gen.pick(rng, [0.1, 0.3, 0.5]), p_false_pos=0.0, p_false_neg=0.0)
    if "doppler" in stoch:
        kw.update(temperature=gen.pick(rng, [20.0, 50.0]))
    if stoch == "amplitude":
        kw.update(amp_sigma=0.05, laser_waist=gen.pick(rng, [None, 150.0]))
        if kw["laser_waist"] is None:
            kw.pop("laser_waist")
    if diss == "dephasing":
        kw.update(dephasing_rate=gen.pick(rng, [0.2, 1.5]), hyperfine_dephasing_rate=1e-3)
    elif diss == "relaxation":
        kw.update(relaxation_rate=gen.pick(rng, [0.1, 1.0]))
    elif diss == "depolarizing":
        kw.update(depolarizing_rate=gen.pick(rng, [0.2, 1.0]))
    D = gen.pick(rng, [100, 252])
    ctx.case = {"v2_noisy": {"stochastic": stoch, "dissipative": diss, "n": n, "D": D, "params": {a: b for a, b in kw.items()}}}
    seq = one_pulse(D, omega=gen.pick(rng, [2.0, 5.0]), det=gen.pick(rng, [0.0, 1.0]), n=n)
    try:
        with warnings.catch_warnings():
            warnings.simplefilter("ignore")
            np.random.seed(idx)
            nm = pulser.NoiseModel(**kw)
            res = QutipBackendV2(seq, config=QutipConfig(observables=[StateResult(evaluation_times=[0.5, 1.0])],
                                                         noise_model=nm)).run()
    except Exception as e:
        ctx.violation("v2-raises", f"V2 with {stoch}+{diss} raised {type(e).__name__}: {str(e)[:200]}",
                      f"v2-raises:noisy:{type(e).__name__}")
        return
    for st in res.state:
        rho = np.asarray(st.to_qobj().full())
        if rho.shape[1] == 1:
            rho = rho @ rho.conj().T
        ctx.count("v2_noisy_density_matrices_checked")
        tr = np.trace(rho)
        if abs(tr - 1) > 1e-5:
            ctx.violation("trace", f"V2 {stoch}+{diss}: Tr rho = {tr!r}", "trace:v2-averaged")
        if np.max(np.abs(rho - rho.conj().T)) > 1e-8:
            ctx.violation("hermitian", f"V2 {stoch}+{diss}: rho not Hermitian", "rho-not-hermitian:v2")
        if np.linalg.eigvalsh((rho + rho.conj().T) / 2).min() < -1e-6:
            ctx.violation("positive", f"V2 {stoch}+{diss}: rho not positive", "rho-not-positive:v2")
    ctx.mark_nontrivial(("v2noisy", stoch, diss, n, D))


def run_case(ctx, idx, rng, tier):
    if idx % 8 == 7:
        return w_v2_noisy(ctx, rng, idx)
    w = idx % 7
    if idx % 14 == 6:
        return w_reduce(ctx, rng, idx)
    if w == 0:
        w_norm_agree(ctx, rng, idx)
    elif w == 1:
        w_dissipative(ctx, rng, idx)
    elif w == 2:
        w_rabi(ctx, rng, idx)
    elif w == 3:
        w_idle(ctx, rng, idx)
    elif w == 4:
        w_detect(ctx, rng, idx)
    else:
        w_sweep(ctx, rng, idx, tier)
