"""C12 — a device accepts exactly the registers and layouts that fit its geometry; device-aware constructors are
closed under validation; every valid parameter combination constructs."""
from __future__ import annotations

import contextlib
import io
import math

import numpy as np

from vmon import objs
from vmon.gen import pick, wchoice
from vmon.ref import geometry as G

LEVEL = "exploration"
RULE = ("five case kinds. register: a device (three built-ins or generated: d_min in {0,.5,1,2.5,4,4.3,5}, integer r_max "
        "with many lattice points, max_atom_num 1..25, 2D/3D, virtual with undefined limits) and a register built FROM its "
        "limits: a pair at d_min*(1+k ulp), d_min+-1e-7, d_min-1e-6+-{1e-9,1e-7}, d_min-2e-6 (duplicates / 1e-6+-1e-7 when "
        "d_min=0), along an axis, a 3-4-5 diagonal or a random direction; atoms exactly on the circle/sphere r_max (integer "
        "Pythagorean points), binary64-rounded rational points, r_max+-1e-7 and one ulp beside it; n in {1,2,max-1,max,"
        "max+1}; 2D and 3D; exact-arithmetic 3-valued oracle decides validate_register and Sequence(register, device) and "
        "the culprit sets of the exceptions. layout: layouts with min-1/min/max/max+1 traps and traps at the geometric "
        "limits, registers and mappable registers filling them up to floor(traps*max_filling), +1. maxconn / autolayout: "
        "every register RETURNED by Register.max_connectivity(n, device[, spacing]) / register.with_automatic_layout("
        "device) (input register accepted by the device) must validate and start a Sequence. construct: Device / "
        "VirtualDevice parameter grid (every optional limit of device, channels and DMM independently defined or not) "
        "that the documentation-derived reference deems valid must construct and render specs/print_specs/__doc__. "
        "non-trivial = distinct (case, kind) with an atom/pair/trap within 1e-5 of a limit, a count exactly at or one "
        "above a limit, or a device with at least one undefined optional limit")
RULE += " Later additions: build(qubits=...) of a sequence on a mappable register is judged like sequence creation; with_automatic_layout of an exactly valid register may only fail with the documented RuntimeError."
ASSUMPTIONS = ["pairs with d_min-1e-6 <= d < d_min (documented 1e-6 precision) give no verdict; neither do pairs within 1e-10 of "
               "the edges of that band, radii within 1e-9 (relative) of r_max unless all coordinates are integers, and "
               "fillings whose exact product traps*max_filling is within 1e-9 of an integer",
               "closure is claimed for returned registers only (a raising constructor makes no register); for "
               "with_automatic_layout the input register must itself be accepted by the device",
               "the coordinates judged are those the objects expose (register.qubits, layout.traps_dict)"]
TIERS = {"quick": dict(cases=6000, shards=8, case_timeout=120, shard_timeout=900),
         "thorough": dict(cases=60000, shards=16, case_timeout=120, shard_timeout=3000)}
FLOORS = {"quick": {"must_accept_checked": 2400, "must_reject_checked": 3000, "culprit_sets_checked": 900,
                    "layout_calls_checked": 2400, "sequence_creations_checked": 900, "registers_at_a_limit": 700,
                    "closure_registers_checked": 230, "devices_constructed": 290, "devices_with_undefined_limits": 120},
          "thorough": {"must_accept_checked": 24000, "must_reject_checked": 30000, "culprit_sets_checked": 9000,
                       "layout_calls_checked": 24000, "sequence_creations_checked": 9000, "registers_at_a_limit": 7000,
                       "closure_registers_checked": 2300, "devices_constructed": 2900,
                       "devices_with_undefined_limits": 1200}}

REASON_KEY = {"count": "too-many-atoms", "distance": "too-close", "radius": "too-far", "dimension": "dimension",
              "filling": "overfilled"}
TWO_PI = 2 * math.pi
RMAX_POOL = [5, 10, 13, 25, 35, 50, 65, 38, 7]
DMIN_POOL = [0, 0.5, 1, 2.5, 4, 4.3, 5, 5.0, 4.0]
FILL_POOL = [0.5, 0.5, 0.3, 0.7, 1.0, 0.29, 0.57, 1 / 3, 0.45, 0.07]


def up(x: float, k: int = 1) -> float:
    for _ in range(abs(k)):
        x = math.nextafter(x, math.inf if k > 0 else -math.inf)
    return x


# --------------------------------------------------------------------------------------------- devices
def simple_channel() -> dict:
    return {"id": "rg", "cls": "Rydberg", "addr": "Global", "max_abs_detuning": 40.0, "max_amp": 12.0,
            "max_duration": 100000}


def gen_geo_device(rng, *, physical: bool | None = None, dims: int | None = None) -> dict:
    if physical is None:
        physical = rng.random() < 0.6
    f = pick(rng, FILL_POOL)
    nmax = pick(rng, [1, 2, 3, 5, 8, 12, 20, 25])
    s = {"kind": "physical" if physical else "virtual", "name": "GeoDev",
         "dimensions": dims or pick(rng, [2, 2, 3]), "rydberg_level": 70,
         "min_atom_distance": pick(rng, DMIN_POOL),
         "max_atom_num": nmax if physical or rng.random() < 0.7 else None,
         "max_radial_distance": pick(rng, RMAX_POOL) if physical or rng.random() < 0.7 else None,
         "max_layout_filling": f, "min_layout_traps": pick(rng, [1, 1, 3, 5]),
         "channels": [simple_channel()], "dmm": [], "supports_slm_mask": False}
    if rng.random() < 0.5:
        base = s["max_atom_num"] or 8
        need = max(s["min_layout_traps"], math.ceil(base / f) + 1)
        s["max_layout_traps"] = need + pick(rng, [0, 1, 3, 10])
    if rng.random() < 0.4:
        s["optimal_layout_filling"] = pick(rng, [f, f / 2, f * 0.9])
    return s


def build_any_device(s: dict):
    """Spec -> device (all parameters of the spec are passed; absent ones keep their defaults)."""
    import pulser
    from pulser.devices import Device, VirtualDevice

    if s["kind"] == "builtin":
        return getattr(pulser, s["name"])
    kw = {k: s[k] for k in ("name", "dimensions", "rydberg_level", "min_atom_distance", "max_atom_num",
                            "max_radial_distance", "interaction_coeff_xy", "supports_slm_mask", "max_layout_filling",
                            "optimal_layout_filling", "min_layout_traps", "max_layout_traps", "max_sequence_duration",
                            "max_runs", "requires_layout", "short_description") if k in s}
    kw["channel_objects"] = tuple(objs.build_channel(c) for c in s.get("channels", []))
    if s.get("channel_ids") is not None:
        kw["channel_ids"] = tuple(s["channel_ids"])
    if "dmm" in s:
        kw["dmm_objects"] = tuple(objs.build_dmm(d) for d in s["dmm"])
    if s["kind"] == "virtual":
        if "reusable_channels" in s:
            kw["reusable_channels"] = s["reusable_channels"]
        return VirtualDevice(**kw)
    if "accepts_new_layouts" in s:
        kw["accepts_new_layouts"] = s["accepts_new_layouts"]
    if s.get("pre_calibrated_layouts"):
        kw["pre_calibrated_layouts"] = tuple(objs.build_layout(t) for t in s["pre_calibrated_layouts"])
    return Device(**kw)


def dev_params(dev) -> dict:
    return {"dimensions": dev.dimensions, "min_atom_distance": float(dev.min_atom_distance),
            "max_atom_num": dev.max_atom_num, "max_radial_distance": dev.max_radial_distance,
            "max_layout_filling": dev.max_layout_filling, "min_layout_traps": dev.min_layout_traps,
            "max_layout_traps": dev.max_layout_traps}


def pick_device(rng, *, physical=None, dims=None) -> dict:
    if dims is None and rng.random() < 0.25:
        pool = ["AnalogDevice", "DigitalAnalogDevice"] + ([] if physical else ["MockDevice"])
        return {"kind": "builtin", "name": pick(rng, pool)}
    return gen_geo_device(rng, physical=physical, dims=dims)


# --------------------------------------------------------------------------------------------- registers from the limits
def unit_dir(rng, dim: int) -> tuple[float, ...]:
    k = wchoice(rng, {"axis": 3, "diag": 2, "rand": 2})
    if k == "axis":
        v = [0.0] * dim
        v[rng.randrange(dim)] = pick(rng, [1.0, -1.0])
        return tuple(v)
    if k == "diag":
        base = pick(rng, [(0.6, 0.8), (0.8, 0.6), (-0.6, 0.8), (5 / 13, 12 / 13)])
        v = list(base) + [0.0] * (dim - 2)
        if dim == 3 and rng.random() < 0.5:
            v = [2 / 3, 1 / 3, 2 / 3]
        return tuple(v)
    v = [rng.gauss(0, 1) for _ in range(dim)]
    nrm = math.sqrt(sum(x * x for x in v)) or 1.0
    return tuple(x / nrm for x in v)


def pair_distance(rng, dmin: float) -> float:
    if dmin == 0:
        return pick(rng, [0.0, 1e-6, 1e-6 + 1e-7, 1e-6 - 1e-7, 5e-7, 2e-6, up(1e-6), up(1e-6, -1), 1e-9, 0.3])
    return pick(rng, [dmin, dmin, up(dmin), up(dmin, -1), up(dmin, 2), up(dmin, -2), up(dmin, 8), up(dmin, -8),
                      dmin + 1e-7, dmin - 1e-7, dmin - 1e-6, dmin - 1e-6 - 1e-9, dmin - 1e-6 + 1e-9,
                      dmin - 1e-6 - 1e-7, dmin - 1e-6 + 1e-7, dmin - 2e-6, dmin + 2e-6, dmin - 5e-7,
                      dmin * 0.5, dmin * (1 - 1e-12), dmin * (1 + 1e-12)])


_LATTICE: dict = {}


def circle_point(rng, rmax: int, dim: int) -> tuple[float, ...]:
    k = wchoice(rng, {"lattice": 4, "rational": 2, "eps": 3, "ulp": 2})
    if k == "lattice":
        key = (rmax, dim)
        if key not in _LATTICE:
            _LATTICE[key] = G.circle_points(rmax) if dim == 2 else G.sphere_points(rmax, 4000)
        p = pick(rng, _LATTICE[key])
        return tuple(float(x) for x in p)
    if k == "rational":
        m, n = pick(rng, [(2, 1), (3, 2), (4, 1), (4, 3), (5, 2), (7, 3), (9, 4), (11, 5)])
        x, y = G.rational_circle_point(rmax, m, n)
        sx, sy = pick(rng, [1, -1]), pick(rng, [1, -1])
        p = (sx * x, sy * y) if rng.random() < 0.5 else (sy * y, sx * x)
        return p + (0.0,) * (dim - 2)
    u = unit_dir(rng, dim)
    if k == "eps":
        r = rmax + pick(rng, [1e-7, -1e-7, 1e-6, -1e-6, 2e-9, -2e-9, 1e-5, -1e-5])
    else:
        r = up(float(rmax), pick(rng, [1, -1, 2, -2, 16, -16]))
    return tuple(r * x for x in u)


def fill_atoms(rng, pts: list, n: int, dmin: float, rmax, dim: int) -> list:
    """Adds clearly valid atoms (>= d_min*1.02+0.01 from everything, <= 0.9 r_max) until there are n."""
    if len(pts) >= n:
        return pts
    step = max(dmin, 0.5) * pick(rng, [1.05, 1.3, 2.0])
    R = (rmax if rmax is not None else max(20.0, 6 * step)) * 0.9
    m = min(int(R // step), 9 if dim == 3 else 14)
    cand = [(i, j, k) for i in range(-m, m + 1) for j in range(-m, m + 1)
            for k in (range(-min(m, 2), min(m, 2) + 1) if dim == 3 else [0])]
    rng.shuffle(cand)
    off = [rng.uniform(-0.01, 0.01) for _ in range(dim)]
    need = dmin * 1.02 + 0.01
    arr = np.array(pts, dtype=float).reshape(-1, dim)
    for c in cand[:4000]:
        p = np.array([c[a] * step + off[a] for a in range(dim)])
        if math.sqrt(float(p @ p)) > R:
            continue
        if len(arr) and np.min(np.linalg.norm(arr - p, axis=1)) < need:
            continue
        arr = np.vstack([arr, p])
        if len(arr) >= n:
            break
    return [tuple(float(x) for x in r) for r in arr]


def boundary_points(rng, dp: dict, dim: int, n: int) -> tuple[list, str]:
    """Points built from the limits of the device parameters dp; returns (coords, motif)."""
    dmin, rmax = dp["min_atom_distance"], dp["max_radial_distance"]
    motif = wchoice(rng, {"pair": 4, "circle": 3 if rmax is not None else 0, "both": 2 if rmax is not None else 0,
                          "plain": 1.5, "multi-pair": 1})
    pts: list = []
    if motif in ("circle", "both"):
        for _ in range(pick(rng, [1, 1, 2, 3])):
            pts.append(circle_point(rng, rmax, dim))
    if motif in ("pair", "both", "multi-pair") and n >= 2:
        for _ in range(1 if motif != "multi-pair" else pick(rng, [2, 3])):
            R = (rmax if rmax is not None else 20.0)
            if rng.random() < 0.4 and not pts:
                p0 = (0.0,) * dim
            else:
                p0 = tuple(rng.uniform(-R / 3, R / 3) if rng.random() < 0.7 else float(rng.randint(-3, 3))
                           for _ in range(dim))
            d = pair_distance(rng, dmin)
            u = unit_dir(rng, dim)
            pts += [p0, tuple(a + d * b for a, b in zip(p0, u))]
    rng.shuffle(pts)
    pts = fill_atoms(rng, pts, n, dmin, rmax, dim)
    return pts, motif


def strict_edge_points(rng, dp: dict, n: int) -> tuple[list, str]:
    """2D points that are valid in exact arithmetic but closer to a limit than the 1e-6 coordinate precision: atoms
    at r_max - {5e-8,1e-7,2e-7,4e-7} in arbitrary directions, a pair d_min*(1+1e-15) apart in an arbitrary direction."""
    dmin, rmax = dp["min_atom_distance"], dp["max_radial_distance"]
    pts: list = []
    t0 = rng.uniform(0, TWO_PI)
    sep = TWO_PI / 3 if dmin < 1.5 * rmax else 0
    for k in range(pick(rng, [1, 2, 3]) if sep else 1):
        t = t0 + k * sep + rng.uniform(-0.2, 0.2)
        r = rmax - pick(rng, [5e-8, 1e-7, 2e-7, 4e-7])
        pts.append((r * math.cos(t), r * math.sin(t)))
    if n >= 2 and dmin > 0 and rng.random() < 0.7 and rmax > 2 * dmin:
        t = rng.uniform(0, TWO_PI)
        a = (rng.uniform(-rmax / 4, rmax / 4), rng.uniform(-rmax / 4, rmax / 4))
        d = dmin * (1 + 1e-15)
        pts += [a, (a[0] + d * math.cos(t), a[1] + d * math.sin(t))]
    return fill_atoms(rng, pts, n, dmin, rmax, 2), "strict-edge"


def choose_n(rng, nmax, cap=26) -> int:
    if nmax is None:
        return pick(rng, [1, 2, 3, 5, 9])
    return max(1, min(cap, pick(rng, [1, 2, 3, nmax - 1, nmax, nmax, nmax + 1, nmax + 1, max(1, nmax // 2)])))


def make_ids(rng, n: int) -> list[str]:
    k = pick(rng, ["q", "q", "atom", "rev"])
    if k == "rev":
        return [f"a{n - i}" for i in range(n)]
    return [f"{k}{i}" for i in range(n)]


def build_plain_register(coords, ids):
    from pulser import Register, Register3D

    arr = np.array(coords, dtype=float)
    cls = Register if arr.shape[1] == 2 else Register3D
    return cls(dict(zip(ids, arr)))


def qubit_coords(reg) -> tuple[list[str], list[tuple[float, ...]]]:
    ids, cs = [], []
    for q, v in reg.qubits.items():
        ids.append(str(q))
        cs.append(tuple(float(x) for x in np.asarray(v.as_array(detach=True), dtype=float)))
    return ids, cs


def trap_coords(layout) -> list[tuple[float, ...]]:
    return [tuple(float(x) for x in layout.traps_dict[i]) for i in range(layout.number_of_traps)]


def call(fn, *a):
    try:
        fn(*a)
        return None
    except Exception as e:  # the code under test decides; the monitor turns it into a verdict
        return e


# --------------------------------------------------------------------------------------------- the monitor
def _pairs(idx_pairs, ids):
    return {frozenset((ids[i], ids[j])) for i, j in idx_pairs}


def check_culprits(ctx, what: str, exc, cls: dict, ids: list[str], kind: str) -> None:
    """exc is a DistanceError or RadiusError; cls the exact classification of the same coordinates."""
    name = type(exc).__name__
    if getattr(exc, "kind", kind) != kind:
        ctx.violation("culprits", f"{what}: {name}.kind={exc.kind!r}, expected {kind!r}", "culprits-wrong-kind")
    if name == "DistanceError":
        ctx.count("culprit_sets_checked")
        try:
            rep = {frozenset(map(str, p)) for p in exc.invalid}
        except Exception:
            ctx.violation("culprits", f"{what}: unreadable DistanceError payload {exc.invalid!r}", "culprits-unreadable")
            return
        V, Gr = _pairs(cls["V"], ids), _pairs(cls["G"], ids)
        if not V and not Gr:
            ctx.violation("culprits", f"{what}: DistanceError although every pair is at least d_min apart: {exc}",
                          "spurious-DistanceError")
            return
        missing, extra = V - rep, rep - V - Gr
        if missing:
            ctx.violation("culprits", f"{what}: violating pairs not reported: {sorted(map(sorted, missing))[:4]}; "
                          f"reported {sorted(map(sorted, rep))[:6]}", "culprits-differ:distance:missing")
        if extra:
            ctx.violation("culprits", f"{what}: reported pairs that do not violate: {sorted(map(sorted, extra))[:4]}",
                          "culprits-differ:distance:extra")
        if not V:
            ctx.gray("culprits:only-gray-pairs")
    elif name == "RadiusError":
        ctx.count("culprit_sets_checked")
        rep = {str(x) for x in exc.invalid}
        F, GF = {ids[i] for i in cls["F"]}, {ids[i] for i in cls["GF"]}
        if not F and not GF:
            ctx.violation("culprits", f"{what}: RadiusError although every atom is within r_max: {exc}",
                          "spurious-RadiusError")
            return
        missing, extra = F - rep, rep - F - GF
        if missing:
            ctx.violation("culprits", f"{what}: atoms beyond r_max not reported: {sorted(missing)[:5]}; reported "
                          f"{sorted(rep)[:8]}", "culprits-differ:radius:missing")
        if extra:
            ctx.violation("culprits", f"{what}: reported atoms that are within r_max: {sorted(extra)[:5]}",
                          "culprits-differ:radius:extra")
        if not F:
            ctx.gray("culprits:only-gray-atoms")


def check_kind(ctx, what: str, exc, res: dict, n: int, ntraps: int | None, dp: dict) -> None:
    """The exception raised must name a condition that really (or within gray) fails."""
    name = type(exc).__name__
    a = res.get("atoms")
    lay = res.get("layout")
    ok = True
    if name == "AtomsNumberError":
        ok = a is not None and a["count"] == G.BAD and exc.invalid == n
    elif name in ("DimensionPositionsTooHighError", "DimensionTooHighError"):
        ok = any("dimension" in r for r in res["reasons"])
    elif name == "QubitsNumberError":
        lo, hi = G.max_filling_bounds(ntraps, dp["max_layout_filling"])
        ok = res.get("filling") in (G.BAD, G.GRAY) and exc.invalid == n and lo <= exc.max <= hi
    elif name == "TrapsNumberTooLowError":
        ok = ntraps is not None and ntraps < dp["min_layout_traps"] and exc.invalid == ntraps
    elif name == "TrapsNumberTooHighError":
        ok = ntraps is not None and dp["max_layout_traps"] is not None and ntraps > dp["max_layout_traps"] \
            and exc.invalid == ntraps
    else:
        return
    ctx.count("error_kinds_checked")
    if not ok:
        ctx.violation("culprits", f"{what}: {name} ({exc}) does not describe a failing condition; reference: "
                      f"{res['verdict']} {res['reasons']}", "spurious-" + name)


def judge(ctx, what: str, exc, res: dict, *, ids, trap_ids=None, n=0, ntraps=None, dp=None, family="register"):
    """Compare one accept/raise outcome with the 3-valued reference `res`."""
    v = res["verdict"]
    ctx.count(f"{family}_calls_checked")
    if v == G.ACCEPT:
        ctx.count("must_accept_checked")
        if exc is not None:
            ctx.violation("iff", f"{what} raised {type(exc).__name__}: {str(exc)[:300]} although the {family} fits "
                          "the device (exact arithmetic)", f"{family}-rejected-valid:{type(exc).__name__}")
    elif v == G.REJECT:
        ctx.count("must_reject_checked")
        if exc is None:
            r0 = res["reasons"][0]
            key = REASON_KEY.get(r0) or ("bad-layout" if r0.startswith(("layout:", "trap")) else r0)
            ctx.violation("iff", f"{what} accepted a {family} that does not fit: {res['reasons']}",
                          f"{family}-accepted-{key}")
    else:
        ctx.gray(f"{family}:" + "+".join(sorted(set(res["reasons"])))[:60])
    if exc is None:
        return
    inner = exc
    if type(exc).__name__ == "PulserValueError" and exc.__cause__ is not None:
        inner = exc.__cause__   # layout errors are wrapped by validate_register
    if not isinstance(exc, ValueError):
        ctx.count("non_valueerror_rejections")
        if v != G.REJECT:
            return
    nm = type(inner).__name__
    if nm in ("DistanceError", "RadiusError"):
        kind = getattr(inner, "kind", "atoms")
        tcls = res["layout"][2] if res.get("layout") is not None else res.get("coords")
        if kind == "traps" and tcls is not None and trap_ids is not None:
            check_culprits(ctx, what, inner, tcls, trap_ids, "traps")
        elif kind != "traps" and res.get("atoms") is not None:
            check_culprits(ctx, what, inner, res["atoms"], ids, "atoms")
        else:
            ctx.violation("culprits", f"{what}: {nm} of kind {kind!r} raised where no {kind} were validated",
                          "culprits-wrong-kind")
    else:
        check_kind(ctx, what, inner, res, n, ntraps, dp)


def near_limit(cls: dict | None) -> bool:
    return cls is not None and cls.get("min_margin") is not None and cls["min_margin"] <= 1e-5


# --------------------------------------------------------------------------------------------- case kinds
def case_register(ctx, idx, rng):
    from pulser import Sequence

    dspec = pick_device(rng)
    dev = build_any_device(dspec)
    dp = dev_params(dev)
    dim = 2 if dp["dimensions"] == 2 and rng.random() < 0.85 else pick(rng, [2, 3, 3])
    n = choose_n(rng, dp["max_atom_num"])
    pts, motif = boundary_points(rng, dp, dim, n)
    if dp["max_atom_num"] is not None and n > dp["max_atom_num"] and len(pts) < n:
        # could not place that many clearly valid atoms: pad on a far grid inside the disk anyway
        pts = fill_atoms(rng, pts, n, 0.05, dp["max_radial_distance"], dim)
    ids = make_ids(rng, len(pts))
    ctx.case = {"kind": "register", "device": dspec, "motif": motif, "ids": ids, "coords": [list(p) for p in pts]}
    ctx.sample(ctx.case)
    try:
        reg = build_plain_register(pts, ids)
    except Exception as e:
        ctx.gray("register-construction-raised:" + type(e).__name__)
        return
    rids, coords = qubit_coords(reg)
    res = G.classify_register(coords, reg.dimensionality, dp)
    e1 = call(dev.validate_register, reg)
    judge(ctx, "validate_register", e1, res, ids=rids, n=len(coords), dp=dp)
    e2 = call(Sequence, reg, dev)
    judge(ctx, "Sequence(register, device)", e2, res, ids=rids, n=len(coords), dp=dp)
    ctx.count("sequence_creations_checked")
    if (e1 is None) != (e2 is None):
        ctx.violation("iff", f"validate_register and Sequence() disagree: {e1!r} vs {e2!r}", "validate-vs-sequence-differ")
    nm = dp["max_atom_num"]
    if near_limit(res["atoms"]) or (nm is not None and len(coords) in (nm, nm + 1)) or "dimension" in res["reasons"]:
        ctx.mark_nontrivial((idx, "register"))
        ctx.count("registers_at_a_limit")


def grid_traps(rng, T: int, dp: dict, dim: int) -> tuple[list, str]:
    pts, motif = boundary_points(rng, dp, dim, T) if rng.random() < 0.6 else ([], "plain")
    pts = fill_atoms(rng, pts, T, dp["min_atom_distance"], dp["max_radial_distance"], dim)
    return pts[:max(T, 1)] if len(pts) >= T else pts, motif


def case_layout(ctx, idx, rng):
    from pulser import Sequence
    from pulser.register.mappable_reg import MappableRegister
    from pulser.register.register_layout import RegisterLayout

    dspec = pick_device(rng)
    dev = build_any_device(dspec)
    dp = dev_params(dev)
    dim = 2 if dp["dimensions"] == 2 and rng.random() < 0.85 else pick(rng, [2, 3])
    mn, mx, f, nmax = dp["min_layout_traps"], dp["max_layout_traps"], dp["max_layout_filling"], dp["max_atom_num"]
    opts = [mn - 1, mn, mn + 1, 4, 7, 10]
    if mx is not None and mx <= 70:
        opts += [mx - 1, mx, mx, mx + 1, mx + 1]
    if nmax is not None:
        opts += [math.ceil(nmax / f), math.ceil(nmax / f) + 1]
        if idx % 3 == 0:  # layouts whose filling limit admits one atom more than the device does
            opts = [math.ceil((nmax + 1) / f), math.ceil((nmax + 1) / f) + 2]
    T = max(1, min(70, pick(rng, opts)))
    traps, motif = grid_traps(rng, T, dp, dim)
    ctx.case = {"kind": "layout", "device": dspec, "motif": motif, "traps": [list(p) for p in traps]}
    ctx.sample(ctx.case)
    try:
        layout = RegisterLayout(np.array(traps, dtype=float))
    except Exception as e:
        ctx.gray("layout-construction-raised:" + type(e).__name__)
        return
    tc = trap_coords(layout)
    T = len(tc)
    tids = [str(i) for i in range(T)]
    lv, lr, lc = G.classify_layout(tc, layout.dimensionality, dp)
    lres = {"verdict": lv, "reasons": lr, "coords": lc, "atoms": None, "layout": None}
    e = call(dev.validate_layout, layout)
    judge(ctx, "validate_layout", e, lres, ids=tids, trap_ids=tids, ntraps=T, dp=dp, family="layout")
    at_limit = near_limit(lc) or T in (mn - 1, mn) or (mx is not None and T in (mx, mx + 1))
    # ---- registers filling the layout --------------------------------------------------------
    lo, hi = G.max_filling_bounds(T, f)
    for n in sorted({max(1, min(T, k)) for k in (lo, lo + 1, hi + 1, 1, pick(rng, [2, lo - 1, T]))}):
        sel = rng.sample(range(T), n)
        ids = make_ids(rng, n)
        ctx.case = dict(ctx.case, trap_ids=sel, ids=ids)
        try:
            reg = layout.define_register(*sel, qubit_ids=ids)
        except Exception as ex:
            ctx.gray("define_register-raised:" + type(ex).__name__)
            continue
        rids, coords = qubit_coords(reg)
        fres = {"verdict": {G.FINE: G.ACCEPT, G.BAD: G.REJECT, G.GRAY: G.GRAY}[G.classify_filling(n, T, f)],
                "reasons": ["filling"], "filling": G.classify_filling(n, T, f), "atoms": None, "layout": None}
        ef = call(dev.validate_layout_filling, reg)
        judge(ctx, "validate_layout_filling", ef, fres, ids=rids, n=n, ntraps=T, dp=dp, family="layout")
        res = G.classify_register(coords, reg.dimensionality, dp, layout={"traps": tc, "dim": layout.dimensionality})
        er = call(dev.validate_register, reg)
        judge(ctx, "validate_register(layout register)", er, res, ids=rids, trap_ids=tids, n=n, ntraps=T, dp=dp)
        es = call(Sequence, reg, dev)
        judge(ctx, "Sequence(layout register, device)", es, res, ids=rids, trap_ids=tids, n=n, ntraps=T, dp=dp)
        # mappable register: layout + filling only (no atoms yet)
        reasons = (["layout:" + x for x in lr] if lv == G.REJECT else []) + (["filling"] if fres["filling"] == G.BAD else [])
        gray = (lv == G.GRAY) or fres["filling"] == G.GRAY
        mres = {"verdict": G.REJECT if reasons else (G.GRAY if gray else G.ACCEPT), "reasons": reasons or ["gray"],
                "filling": fres["filling"], "atoms": None, "layout": (lv, lr, lc)}
        em = call(Sequence, MappableRegister(layout, *ids), dev)
        judge(ctx, "Sequence(mappable register, device)", em, mres, ids=rids, trap_ids=tids, n=n, ntraps=T, dp=dp,
              family="layout")
        if em is None:
            # the concrete register only exists at build: that is when "sequence creation" decides about its atoms
            # (their number in particular - a layout may hold more atoms within its filling than the device allows)
            mseq = Sequence(MappableRegister(layout, *ids), dev)
            eb = call(lambda: mseq.build(qubits=dict(zip(ids, sel))))
            ctx.count("mappable_builds_judged")
            judge(ctx, "Sequence(mappable register, device).build(qubits=...)", eb, res, ids=rids, trap_ids=tids, n=n,
                  ntraps=T, dp=dp)
        if n in (lo, lo + 1, hi, hi + 1):
            at_limit = True
    if at_limit:
        ctx.mark_nontrivial((idx, "layout"))
        ctx.count("layouts_at_a_limit")


def case_maxconn(ctx, idx, rng):
    from pulser import Register, Sequence

    dspec = pick_device(rng)
    dev = build_any_device(dspec)
    dp = dev_params(dev)
    dmin, nmax, rmax = dp["min_atom_distance"], dp["max_atom_num"], dp["max_radial_distance"]
    # (7, 19, 37, 61, 91 atoms fill whole hexagonal layers; one fewer / one more are the boundaries of the pattern)
    n = max(1, min(120, pick(rng, [1, 2, 3, 6, 7, 8, 18, 19, 20, 36, 37, 60, 61, 90] + ([nmax - 1, nmax, nmax, nmax + 1] if nmax else [50]))))
    sp_pool = [None, None, dmin, up(dmin), up(dmin, -1), dmin + 1e-7, dmin - 1e-7, dmin * 1.5, dmin + 1.0, 2 * dmin + 0.3]
    if rmax is not None:
        layers = max(1, math.ceil((-3 + math.sqrt(9 + 12 * max(n - 1, 1))) / 6))
        sp_pool += [rmax / layers, up(rmax / layers), rmax / layers - 1e-7, rmax / layers + 1e-7, float(rmax)]
    spacing = pick(rng, sp_pool)
    ctx.case = {"kind": "maxconn", "device": dspec, "n": n, "spacing": spacing}
    ctx.sample(ctx.case)
    ctx.count("max_connectivity_calls")
    try:
        if spacing is None:
            reg = Register.max_connectivity(n, dev, prefix="q")
        else:
            reg = Register.max_connectivity(n, dev, spacing=spacing, prefix="q")
    except Exception as e:
        ctx.gray("max_connectivity-raised:" + type(e).__name__)
        return
    rids, coords = qubit_coords(reg)
    res = G.classify_register(coords, reg.dimensionality, dp)
    ctx.count("closure_registers_checked")
    if len(coords) != n:
        ctx.violation("closure", f"Register.max_connectivity({n}, {dev.name}, spacing={spacing!r}) returned {len(coords)} atoms",
                      "max-connectivity-atom-count")
        return
    e1 = call(dev.validate_register, reg)
    e2 = call(Sequence, reg, dev)
    for what, e in (("validate_register", e1), ("Sequence", e2)):
        if e is not None:
            why = "+".join(res["reasons"]) if res["verdict"] != G.ACCEPT else "valid"
            ctx.violation("closure", f"Register.max_connectivity({n}, {dev.name}, spacing={spacing!r}) returned a "
                          f"register that {what} of the same device rejects: {type(e).__name__}: {str(e)[:300]} "
                          f"(reference: {res['verdict']} {res['reasons']})",
                          f"max-connectivity-rejected:{type(e).__name__}")
            break
    # the returned register is also an ordinary input of the iff monitor
    judge(ctx, "validate_register(max_connectivity)", e1, res, ids=rids, n=len(coords), dp=dp)
    if near_limit(res["atoms"]) or (nmax is not None and n == nmax):
        ctx.mark_nontrivial((idx, "maxconn"))


def case_autolayout(ctx, idx, rng):
    from pulser import Sequence

    dspec = pick_device(rng, physical=True, dims=None if rng.random() < 0.4 else 2)
    dev = build_any_device(dspec)
    dp = dev_params(dev)
    nmax = dp["max_atom_num"]
    n = max(1, min(30, pick(rng, [1, 2, 3, 5, nmax, nmax, nmax - 1, max(1, nmax // 2)])))
    pts, motif = boundary_points(rng, dp, 2, n) if rng.random() < 0.55 else strict_edge_points(rng, dp, n)
    pts = pts[:nmax] if rng.random() < 0.8 else pts
    ids = make_ids(rng, len(pts))
    ctx.case = {"kind": "autolayout", "device": dspec, "motif": motif, "ids": ids, "coords": [list(p) for p in pts]}
    ctx.sample(ctx.case)
    try:
        reg = build_plain_register(pts, ids)
    except Exception as e:
        ctx.gray("register-construction-raised:" + type(e).__name__)
        return
    rids, coords = qubit_coords(reg)
    res0 = G.classify_register(coords, 2, dp)
    e0 = call(dev.validate_register, reg)
    judge(ctx, "validate_register", e0, res0, ids=rids, n=len(coords), dp=dp)
    if e0 is not None or res0["verdict"] == G.REJECT:
        ctx.count("autolayout_input_not_accepted")
        return
    ctx.count("automatic_layout_calls")
    try:
        reg2 = reg.with_automatic_layout(dev)
    except RuntimeError:
        ctx.gray("with_automatic_layout:RuntimeError(documented)")
        return
    except Exception as e:
        # only "no site found" (RuntimeError) is a documented way not to produce a register
        if res0["verdict"] == G.ACCEPT:
            ctx.violation("closure", f"with_automatic_layout({dev.name}) of a register that fits the device raised "
                          f"{type(e).__name__}: {str(e)[:300]}", f"auto-layout-raises:{type(e).__name__}")
        else:
            ctx.gray("with_automatic_layout-raised:" + type(e).__name__)
        return
    ctx.count("closure_registers_checked")
    rids2, coords2 = qubit_coords(reg2)
    lay = reg2.layout
    tc = trap_coords(lay) if lay is not None else None
    res = G.classify_register(coords2, reg2.dimensionality, dp,
                              layout={"traps": tc, "dim": lay.dimensionality} if lay is not None else None)
    e1 = call(dev.validate_register, reg2)
    e2 = call(Sequence, reg2, dev)
    for what, e in (("validate_register", e1), ("Sequence", e2)):
        if e is not None:
            inner = e.__cause__ if type(e).__name__ == "PulserValueError" and e.__cause__ is not None else e
            ctx.violation("closure", f"with_automatic_layout({dev.name}) of a register the device accepts returned a "
                          f"register that {what} rejects: {type(inner).__name__}: {str(inner)[:300]} (reference: "
                          f"{res['verdict']} {res['reasons']}; input register: {res0['verdict']} {res0['reasons']})",
                          f"auto-layout-rejected:{type(inner).__name__}:input-"
                          + ("valid" if res0["verdict"] == G.ACCEPT else "in-tolerance-band"))
            break
    judge(ctx, "validate_register(auto layout)", e1, res, ids=rids2, trap_ids=[str(i) for i in range(len(tc or []))],
          n=len(coords2), ntraps=len(tc or []), dp=dp)
    if lay is None:
        ctx.violation("closure", "with_automatic_layout returned a register without layout", "auto-layout-missing")
    if near_limit(res0["atoms"]) or len(coords) == nmax or (tc and near_limit(res["layout"][2])):
        ctx.mark_nontrivial((idx, "autolayout"))


# --------------------------------------------------------------------------------------------- constructibility

def gen_channel_params(rng, cid: str, virtual: bool) -> dict:
    cls = pick(rng, ["Rydberg", "Rydberg", "Raman", "Microwave"])
    addr = pick(rng, ["Global", "Local"])
    c: dict = {"id": cid, "cls": cls, "addr": addr}
    und = (lambda p: virtual and rng.random() < p)
    c["max_amp"] = None if und(0.4) else pick(rng, [0.0, 10.0, TWO_PI * 2.5, 1e-3, 1234.5678])
    c["max_abs_detuning"] = None if und(0.4) else pick(rng, [0.0, 40.0, TWO_PI * 20, 1e-3, 98765.4])
    c["max_duration"] = None if und(0.35) else pick(rng, [1, 16, 2000, 2 ** 26, 10 ** 8])
    c["min_duration"] = pick(rng, [1, 1, 4, 16])
    if c["max_duration"] is not None and c["max_duration"] < c["min_duration"]:
        c["min_duration"] = 1
    c["clock_period"] = pick(rng, [1, 4, 5])
    if rng.random() < 0.3:
        c["min_avg_amp"] = pick(rng, [0, 0.1, 1.0])
    if rng.random() < 0.4:
        c["mod_bandwidth"] = pick(rng, [0.5, 4.0, 40.0])
    if rng.random() < 0.3:
        c["custom_phase_jump_time"] = pick(rng, [0, 13, 100])
    if addr == "Local":
        c["min_retarget_interval"] = pick(rng, [0, 30, 220])
        c["fixed_retarget_t"] = pick(rng, [0, 13])
        c["max_targets"] = None if und(0.5) else pick(rng, [1, 2, 100])
    elif rng.random() < 0.2:
        c["propagation_dir"] = pick(rng, [(1, 0, 0), (0, 1, 0), (0.0, 1.0, 1.0)])
    if cls == "Rydberg" and c.get("mod_bandwidth") and rng.random() < 0.3:
        c["eom"] = {"mod_bandwidth": 40.0, "limiting_beam": "RED", "max_limiting_amp": 30 * TWO_PI,
                    "intermediate_detuning": 500 * TWO_PI, "controlled_beams": pick(rng, [["BLUE"], ["BLUE", "RED"]])}
    return c


def gen_dmm_params(rng, virtual: bool) -> dict:
    d: dict = {"clock_period": pick(rng, [1, 4]), "min_duration": pick(rng, [1, 16])}
    und = (lambda p: virtual and rng.random() < p)
    d["max_duration"] = None if und(0.4) else pick(rng, [2000, 2 ** 26])
    bd = None if und(0.5) else pick(rng, [-TWO_PI * 20, -30.0, -1e-3, 0.0])
    if bd is not None:
        d["bottom_detuning"] = bd
    if not und(0.5):
        d["total_bottom_detuning"] = pick(rng, [(bd or -30.0) * k for k in (1, 2, 100)])
    if rng.random() < 0.3:
        d["mod_bandwidth"] = pick(rng, [0.5, 8.0])
    return d


def gen_device_params(rng) -> dict:
    virtual = rng.random() < 0.6
    p: dict = {"kind": "virtual" if virtual else "physical", "name": pick(rng, ["D", "Gen Dev 1", "x" * 40]),
               "dimensions": pick(rng, [2, 3]), "rydberg_level": pick(rng, [50, 60, 70, 100]),
               "min_atom_distance": pick(rng, [0, 0.0, 0.5, 4, 5.0, 1e-3])}
    und = (lambda q: virtual and rng.random() < q)
    p["max_atom_num"] = None if und(0.5) else pick(rng, [1, 10, 100, 2000])
    p["max_radial_distance"] = None if und(0.5) else pick(rng, [1, 35, 50, 1000])
    nch = pick(rng, [0, 1, 1, 2, 3, 4])
    p["channels"] = [gen_channel_params(rng, f"ch{i}", virtual) for i in range(nch)]
    if any(c["cls"] == "Microwave" for c in p["channels"]) or rng.random() < 0.3:
        p["interaction_coeff_xy"] = pick(rng, [3700.0, 1.0])
    ndmm = pick(rng, [0, 1, 1, 2])
    if not (virtual and rng.random() < 0.2):      # else: keep VirtualDevice's default (DMM(),)
        p["dmm"] = [gen_dmm_params(rng, virtual) for _ in range(ndmm)]
        p["supports_slm_mask"] = ndmm > 0 and rng.random() < 0.6
    f = pick(rng, FILL_POOL + [0.01, 1.0])
    if rng.random() < 0.7:
        p["max_layout_filling"] = f
    else:
        f = 0.5
    if rng.random() < 0.4:
        p["optimal_layout_filling"] = pick(rng, [f, f / 2, f * 0.99])
    if rng.random() < 0.4:
        p["min_layout_traps"] = pick(rng, [1, 5, 60])
    if rng.random() < 0.5:
        base = p["max_atom_num"] or 10
        need = max(p.get("min_layout_traps", 1), math.ceil(base / f) + 1)
        p["max_layout_traps"] = need + pick(rng, [0, 1, 50])
    if rng.random() < 0.4:
        p["max_sequence_duration"] = pick(rng, [1, 4000, 10 ** 8])
    if rng.random() < 0.4:
        p["max_runs"] = pick(rng, [1, 2000])
    if rng.random() < 0.4:
        p["requires_layout"] = rng.random() < 0.5
    if rng.random() < 0.3:
        p["short_description"] = pick(rng, ["a device", "µm — unicode\nsecond line"])
    if virtual and rng.random() < 0.5:
        p["reusable_channels"] = rng.random() < 0.5
    if not virtual and rng.random() < 0.4:
        p["accepts_new_layouts"] = rng.random() < 0.5
    if nch and rng.random() < 0.3:
        p["channel_ids"] = [f"my_{i}" for i in range(nch)]
    if not virtual and rng.random() < 0.35:
        # a calibrated layout built from the device's own limits: min_layout_traps (or max) traps on a line through the
        # origin, neighbours exactly d_min apart (or 1 um when d_min < 1e-3), the outermost within r_max
        T_ = pick(rng, [p.get("min_layout_traps", 1), p.get("max_layout_traps") or 3, 2])
        step = p["min_atom_distance"] if p["min_atom_distance"] >= 1e-3 else 1.0
        xs = [(i - (T_ - 1) // 2) * step for i in range(T_)]
        if T_ <= 80 and max(abs(xs[0]), abs(xs[-1])) <= p["max_radial_distance"]:
            p["pre_calibrated_layouts"] = [[[x, 0.0] for x in xs]]
    return p


def case_construct(ctx, idx, rng):
    p = gen_device_params(rng)
    ctx.case = {"kind": "construct", "params": p}
    ctx.sample(ctx.case)
    valid, why = G.device_params_valid(dict(p, channels=p["channels"], dmm=p.get("dmm", [{}] if p["kind"] == "virtual" else [])))
    if valid is None:
        ctx.gray("construct:" + why)
        return
    if not valid:
        ctx.count("generated_invalid_params")
        ctx.gray("construct:generator-produced-invalid:" + why)
        return
    chans = p["channels"] + [dict(d, cls="DMM", addr="Global") for d in p.get("dmm", [])]
    amp_und_det_def = any(c.get("cls") != "DMM" and c.get("max_amp") is None and c.get("max_abs_detuning") is not None
                          for c in chans)
    undefined = [k for k in ("max_atom_num", "max_radial_distance") if p.get(k) is None] + \
        [f"{c.get('id', 'dmm')}.{k}" for c in chans
         for k in ("max_amp", "max_abs_detuning", "max_duration", "max_targets", "bottom_detuning", "total_bottom_detuning")
         if (k in c or k in ("max_amp", "max_abs_detuning")) and c.get(k) is None and not (c.get("cls") == "DMM" and k in ("max_amp", "max_abs_detuning"))]
    stage = "construct"
    try:
        dev = build_any_device(p)
        stage = "specs"
        s = dev.specs
        stage = "print_specs"
        buf = io.StringIO()
        with contextlib.redirect_stdout(buf):
            dev.print_specs()
        stage = "__doc__"
        doc = dev.__doc__
        stage = "repr"
        repr(dev)
        list(dev.channels.items())
        if not (isinstance(s, str) and s and isinstance(doc, str) and doc and p["name"] in buf.getvalue()):
            ctx.violation("construct", f"specs/doc of {p['kind']} device did not render to non-empty text",
                          "device-specs-empty")
        if p["kind"] == "physical":
            stage = "to_virtual"
            dev.to_virtual()
            if p.get("pre_calibrated_layouts"):
                ctx.count("devices_with_calibrated_layouts")
                stage = "calibrated_register_layouts"
                if len(dev.calibrated_register_layouts) != len(p["pre_calibrated_layouts"]):
                    ctx.violation("construct", "calibrated_register_layouts lost a layout", "device-calibrated-layouts-lost")
    except Exception as e:
        flag = ":amp-undefined-detuning-defined" if amp_und_det_def and isinstance(e, TypeError) else ""
        ctx.violation("construct", f"valid {p['kind']} device parameters could not be constructed/rendered (stage "
                      f"{stage}): {type(e).__name__}: {str(e)[:300]}; undefined limits: {undefined}",
                      f"device-construct-raised:{type(e).__name__}{flag}")
        ctx.count("devices_construct_failed")
        return
    ctx.count("devices_constructed")
    if undefined:
        ctx.count("devices_with_undefined_limits")
        ctx.mark_nontrivial((idx, "construct"))


KINDS = {"register": 45, "layout": 18, "maxconn": 10, "autolayout": 9, "construct": 18}
CASE_FN = {"register": case_register, "layout": case_layout, "maxconn": case_maxconn,
           "autolayout": case_autolayout, "construct": case_construct}


def run_case(ctx, idx, rng, tier):
    kind = wchoice(rng, KINDS)
    ctx.count("cases:" + kind)
    CASE_FN[kind](ctx, idx, rng)
