"""C16 — waveforms and pulses honour their defining contracts."""
from __future__ import annotations

import math

import numpy as np

from vmon import gen, objs
from vmon.ref import wave as W
from vmon.snap import arr

LEVEL = "exploration"
RULE = ("object factory, four families per case: wf (one waveform of a class drawn from Constant / Ramp / Blackman / Kaiser "
        "(beta 0..100) / Custom / Interpolated (PCHIP and interp1d, with and without times) / Composite; duration 1..5 (35%), "
        "a boundary pool 6..2000 (35%) or uniform in 6..2000; defining parameters from {0, +-1e-12, +-1, +-1e6, 2.5, -7.3, "
        "uniform(-50, 50)}; every monitor below is evaluated on it: length/finiteness, closed form, accessors, *k, -w, /k, /0 "
        "with k in {2, -1, -0.5, 0, 1e-12, 1e6, 3.7}, equality against equal / perturbed / longer twins, all indices in "
        "[-d-1, d] (<= 40 of them) and 12 slices incl. None / negative / out-of-range bounds, change_duration to a second "
        "duration of the same distribution), maxval (Blackman/Kaiser.from_max_val with area chosen so that the duration lands "
        "on a target 1..2000, both signs, area within 3% of a duration step or exactly on it), pulse (Pulse and its "
        "constructors with phases / post_phase_shifts from {0, 2pi, -x, > 2pi, 2pi-1e-12, -1e-17, +-1e6}; 15% deliberately "
        "invalid: a negative amplitude sample or unequal durations), arbphase (Pulse.ArbitraryPhase with phase waveforms of "
        "every class, duration 1..2000, sampled through a one-pulse MockDevice sequence). "
        "non-trivial = distinct (class, duration bucket {1,2,3,4,5,6-15,16-99,100-999,1000+}, sign pattern of the defining "
        "parameters) on which the closed-form / from_max_val / pulse / phase monitor decided")
ASSUMPTIONS = [
    "closed forms are demanded to 1e-9 * max(1, |parameters|) (InterpolatedWaveform rounds its samples to <= 9 decimals)",
    "interpolation points that round to the same nanosecond (e.g. any InterpolatedWaveform of duration 1) define nothing: gray",
    "equality: the expected answer is numpy.allclose with default tolerances; where allclose(a, b) != allclose(b, a) the case is gray",
    "from_max_val minimality is not demanded for Kaiser results <= 15 ns, Blackman results <= 3 ns (the shorter window has no "
    "area) and odd Blackman results whose even predecessor stays below max_val (documented odd/even exception)",
    "a phase / post_phase_shift equal to the float 2*pi (x % 2pi rounded up for |x| < 1e-16, x < 0) is gray, not a violation",
    "ArbitraryPhase is observed with an amplitude that is not the constant 0 (zero-amplitude constant-detuning pulses are "
    "sampled as detuned delays whose phase is ignored by design)",
    "ArbitraryPhase: 1e-9 is demanded unless 4*duration*eps*(max|phi| + max|dphi|) is larger (phase waveforms reaching "
    "1e6..1e9 rad, e.g. short Kaiser windows); differences between the two are gray",
    "numpy arrays only (torch is not installed)",
]
TIERS = {"quick": dict(cases=20000, shards=8, case_timeout=120, shard_timeout=900),
         "thorough": dict(cases=200000, shards=16, case_timeout=120, shard_timeout=3000)}
_Q = {"length_finite_checked": 7800, "closed_form_checked": 4800, "area_checked": 3500, "accessors_checked": 3900,
      "scaling_checked": 18000, "div_zero_checked": 3900, "equality_checked": 31000, "index_checked": 100000,
      "slice_checked": 47000, "change_duration_checked": 2800, "max_val_checked": 790, "max_val_minimal_checked": 530,
      "pulse_invariants_checked": 590, "pulse_invalid_rejected": 100, "arbitrary_phase_checked": 700,
      "built:ConstantWaveform": 500, "built:RampWaveform": 750, "built:BlackmanWaveform": 730, "built:KaiserWaveform": 600,
      "built:CustomWaveform": 500, "built:InterpolatedWaveform": 570, "built:CompositeWaveform": 400}
FLOORS = {"quick": _Q, "thorough": {k: 10 * v for k, v in _Q.items()}}

TWO_PI = 2 * math.pi
VALS = [0.0, 1e-12, -1e-12, 1.0, -1.0, 2.5, -7.3, 1e6, -1e6, 12.566371, 0.3]
KS = [2.0, -1.0, -0.5, 0.0, 1e-12, 1e6, 3.7]
DPOOL = [6, 7, 8, 9, 10, 11, 12, 13, 14, 15, 16, 17, 31, 32, 33, 64, 100, 101, 250, 999, 1000, 1001, 1999, 2000]
BETAS = [14.0, 14.0, 0.0, 0.5, 2.0, 25.0, 100.0]
PHASES = gen.PHASES + [-1e-17, 1e6, -1e6, 4 * math.pi, -TWO_PI, 1e-17, -1e-9]
FAMILIES = {"wf": 64, "maxval": 12, "pulse": 12, "arbphase": 12}
CLS = {"const": "ConstantWaveform", "ramp": "RampWaveform", "blackman": "BlackmanWaveform", "kaiser": "KaiserWaveform",
       "custom": "CustomWaveform", "interp": "InterpolatedWaveform", "composite": "CompositeWaveform",
       "blackman_max": "BlackmanWaveform", "kaiser_max": "KaiserWaveform"}


# ------------------------------------------------------------------------------------------ generators
def val(rng) -> float:
    return gen.pick(rng, VALS) if rng.random() < 0.7 else gen.r6(rng.uniform(-50, 50))


def duration(rng) -> int:
    x = rng.random()
    if x < 0.35:
        return rng.randint(1, 5)
    return gen.pick(rng, DPOOL) if x < 0.7 else rng.randint(6, 2000)


def gen_spec(rng, d: int, kinds: dict | None = None, small: bool = False) -> dict:
    """Waveform spec of duration d.  `small`: parameters of ordinary magnitude only (used for phase waveforms)."""
    v = (lambda: gen.r6(rng.uniform(-20, 20)) if rng.random() < 0.8 else gen.pick(rng, [0.0, 1.0, -1.0])) if small \
        else (lambda: val(rng))
    k = gen.wchoice(rng, kinds or {"const": 2, "ramp": 3, "blackman": 3, "kaiser": 2.5, "custom": 2, "interp": 3, "composite": 2})
    if k == "const":
        return {"k": k, "d": d, "v": v()}
    if k == "ramp":
        return {"k": k, "d": d, "a": v(), "b": v()}
    if k == "blackman":
        return {"k": k, "d": d, "area": v()}
    if k == "kaiser":
        return {"k": k, "d": d, "area": v(), "beta": gen.pick(rng, BETAS)}
    if k == "custom":
        if d <= 8:
            return {"k": k, "samples": [v() for _ in range(d)]}
        return {"k": "customseed", "n": d, "seed": rng.getrandbits(31), "scale": abs(v()) or 1.0,
                "smooth": rng.random() < 0.5}
    if k == "interp":
        n = rng.randint(2, 6)
        s = {"k": k, "d": d, "values": [v() for _ in range(n)]}
        if rng.random() < 0.4:
            inner = sorted({round(rng.random(), 3) for _ in range(n - 2)} - {0.0, 1.0})
            t = [0.0] + inner + [1.0]
            if rng.random() < 0.25 and len(t) > 2:
                t = t[1:] if rng.random() < 0.5 else t[:-1]     # not covering [0, 1]: extrapolated by PCHIP
            s["times"] = t
            s["values"] = s["values"][: len(t)]
            while len(s["values"]) < len(t):
                s["values"].append(v())
        if rng.random() < 0.2 and (s.get("times") is None or (s["times"][0] == 0.0 and s["times"][-1] == 1.0)):
            s["interpolator"] = "interp1d"
            npts = len(s["values"])
            kinds = ["linear", "nearest", "previous", "next"] + (["quadratic"] if npts >= 3 else []) + (["cubic"] if npts >= 4 else [])
            if rng.random() < 0.6:
                s["kwargs"] = {"kind": kinds[rng.randrange(len(kinds))]}
        return s
    n = rng.randint(2, 3) if d >= 3 else 2
    if d < 2:
        return gen_spec(rng, d, {"const": 1, "custom": 1, "blackman": 1, "kaiser": 1, "ramp": 1}, small)
    cuts = sorted(rng.sample(range(1, d), n - 1))
    ds = [b - a for a, b in zip([0] + cuts, cuts + [d])]
    sub = {"const": 2, "ramp": 2, "blackman": 1, "kaiser": 1, "custom": 1, "interp": 1}
    return {"k": "composite", "parts": [gen_spec(rng, x, sub, small) for x in ds]}


def expand(s: dict) -> dict:
    """customseed -> custom with explicit samples (keeps witnesses small)."""
    if s["k"] == "customseed":
        r = np.random.RandomState(s["seed"])
        x = r.uniform(-1, 1, s["n"])
        if s.get("smooth"):
            x = np.cumsum(x) / math.sqrt(s["n"])
        if s.get("sign"):
            x = s["sign"] * np.abs(x)
        return {"k": "custom", "samples": [float(y) for y in x * s["scale"]]}
    if s["k"] == "composite":
        return {"k": "composite", "parts": [expand(p) for p in s["parts"]]}
    return s


def signed(s: dict, sign: int) -> dict:
    """The same waveform with every defining value made non-negative (sign=+1) or non-positive (sign=-1)."""
    f = lambda v: sign * abs(v)  # noqa: E731
    k = s["k"]
    if k == "const":
        return dict(s, v=f(s["v"]))
    if k == "ramp":
        return dict(s, a=f(s["a"]), b=f(s["b"]))
    if k in ("blackman", "kaiser"):
        return dict(s, area=f(s["area"]))
    if k == "custom":
        return dict(s, samples=[f(v) for v in s["samples"]])
    if k == "customseed":
        return dict(s, sign=sign)
    if k == "interp":
        return dict(s, values=[f(v) for v in s["values"]])
    return dict(s, parts=[signed(p, sign) for p in s["parts"]])


def spec_duration(s: dict) -> int:
    return s["n"] if s["k"] == "customseed" else objs.wf_duration(expand(s)) if s["k"] == "composite" else \
        (len(s["samples"]) if s["k"] == "custom" else s["d"])


def params(s: dict) -> list:
    k = s["k"]
    if k == "const":
        return [s["v"]]
    if k == "ramp":
        return [s["a"], s["b"]]
    if k in ("blackman", "kaiser", "blackman_max", "kaiser_max"):
        return [s["area"]]
    if k == "custom":
        return [min(s["samples"]), max(s["samples"])]
    if k == "customseed":
        return [-1.0, 1.0]
    if k == "interp":
        return [min(s["values"]), max(s["values"])]
    return [x for p in s["parts"] for x in params(p)][:4]


def interp_collides(s: dict) -> bool:
    pos, _ = W.interp_points(s["d"], s["values"], s.get("times"))
    return len(set(pos.tolist())) != len(pos)


def has_collision(s: dict) -> bool:
    if s["k"] == "interp":
        return interp_collides(s)
    if s["k"] == "composite":
        return any(has_collision(p) for p in s["parts"])
    return False


def build(s: dict):
    return objs.build_wf(expand(s))


def samples_of(w) -> np.ndarray:
    return arr(w.samples)


# ------------------------------------------------------------------------------------------ monitors on one waveform
def nonfinite_culprit(s: dict) -> tuple[str, int]:
    """(class, duration) of the innermost part whose own samples are non-finite."""
    if s["k"] == "composite":
        for p in s["parts"]:
            try:
                if not np.all(np.isfinite(samples_of(build(p)))):
                    return nonfinite_culprit(p)
            except Exception:
                pass
    return CLS.get(s["k"], "CustomWaveform"), spec_duration(s)


def check_basic(ctx, s: dict, w, where: str = "") -> np.ndarray | None:
    """len(samples) == duration and all finite; returns the samples if the waveform is usable."""
    cls = type(w).__name__
    try:
        x = samples_of(w)
        d = int(w.duration)
    except Exception as e:
        ctx.violation("samples-raise", f"{where}{cls}.samples raised {type(e).__name__}: {str(e)[:200]}",
                      f"samples-raise:{cls}:{type(e).__name__}")
        return None
    ctx.count("length_finite_checked")
    if len(x) != d or d != spec_duration(s):
        ctx.violation("length", f"{where}{cls}: len(samples) = {len(x)}, duration = {d}, requested {spec_duration(s)}",
                      f"length:{cls}")
        return None
    if not np.all(np.isfinite(x)):
        c, dd = nonfinite_culprit(s)
        ctx.violation("non-finite", f"{where}{cls} of duration {d} has non-finite samples {x[:4]} (spec {str(s)[:160]})",
                      f"nonfinite:{c}:{W.dur_class(dd)}")
        return None
    return x


def scale_of(s: dict, x: np.ndarray) -> float:
    return max([1.0, float(np.max(np.abs(x), initial=0.0))] + [abs(p) for p in params(s)])


def check_closed_form(ctx, s: dict, w, x: np.ndarray) -> bool:
    """Documented values at the documented points.  Returns True when a deciding comparison was made."""
    k, cls = s["k"], type(w).__name__
    tol = 1e-9 * scale_of(s, x)
    d = len(x)

    def bad(which: str, msg: str) -> None:
        ctx.violation("closed-form", f"{cls} (duration {d}): {msg}", f"closed-form:{cls}:{which}")

    if k == "const":
        ctx.count("closed_form_checked")
        if not np.array_equal(x, W.constant(d, s["v"])):
            bad("value", f"samples {x[:3]}.. differ from the value {s['v']!r}")
        return True
    if k == "ramp":
        ref = W.ramp(d, s["a"], s["b"])
        if ref is None:
            ctx.gray("ramp-one-sample")
            return False
        ctx.count("closed_form_checked")
        if abs(x[0] - s["a"]) > 1e-12 * scale_of(s, x) or abs(x[-1] - s["b"]) > 1e-12 * scale_of(s, x):
            bad("ends", f"first/last sample {x[0]!r}/{x[-1]!r}, start/stop {s['a']!r}/{s['b']!r}")
        elif float(np.max(np.abs(x - ref))) > tol:
            i = int(np.argmax(np.abs(x - ref)))
            bad("linear", f"sample[{i}] = {x[i]!r}, straight line gives {ref[i]!r}")
        return True
    if k in ("custom", "customseed"):
        ctx.count("closed_form_checked")
        if not np.array_equal(x, np.asarray(expand(s)["samples"], dtype=float)):
            bad("input", "samples differ from the input array")
        return True
    if k == "interp":
        if interp_collides(s):
            ctx.gray("interp-colliding-points")
            return False
        pos, v = W.interp_points(d, s["values"], s.get("times"))
        ctx.count("closed_form_checked")
        got = x[pos]
        if float(np.max(np.abs(got - v))) > tol:
            i = int(np.argmax(np.abs(got - v)))
            bad("points", f"sample[{pos[i]}] = {got[i]!r}, interpolation point value {v[i]!r}")
        return True
    if k in ("blackman", "kaiser"):
        area = float(s["area"])
        ctx.count("area_checked")
        integ = float(w.integral)
        if abs(integ - area) > 1e-9 * abs(area):
            ctx.violation("area", f"{cls} (duration {d}): integral {integ!r}, requested area {area!r}",
                          f"area:{cls}:{W.dur_class(d)}")
        if abs(float(np.sum(x)) * 1e-3 - integ) > 1e-12 * max(1.0, abs(integ)):
            bad("integral", f"integral {integ!r} is not sum(samples)*1e-3 = {float(np.sum(x)) * 1e-3!r}")
        if (area > 0 and float(np.min(x)) < 0) or (area < 0 and float(np.max(x)) > 0):
            ctx.violation("sign", f"{cls} (duration {d}, area {area!r}) has samples of the opposite sign", f"sign:{cls}")
        return True
    if k == "composite":
        parts = []
        for p in s["parts"]:
            try:
                parts.append(samples_of(build(p)))
            except Exception:
                return False
        ctx.count("closed_form_checked")
        if not np.array_equal(x, np.concatenate(parts)):
            bad("concatenation", "samples are not the concatenation of the parts' samples")
        ok = True
        for p, px in zip(s["parts"], parts):
            if np.all(np.isfinite(px)):
                ok = check_closed_form(ctx, p, build(p), px) and ok
        return True
    return False


def check_accessors(ctx, w, x: np.ndarray) -> None:
    cls = type(w).__name__
    ctx.count("accessors_checked")
    try:
        f, l, integ = w.first_value, w.last_value, w.integral
    except Exception as e:
        ctx.violation("accessor", f"{cls}: first_value/last_value/integral raised {e!r}", f"accessor-raises:{cls}")
        return
    if f != x[0] or l != x[-1]:
        ctx.violation("accessor", f"{cls}: first/last value {f!r}/{l!r}, samples {x[0]!r}/{x[-1]!r}", f"accessor:{cls}:ends")
    if abs(integ - float(np.sum(x)) * 1e-3) > 1e-12 * max(1.0, float(np.sum(np.abs(x))) * 1e-3):
        ctx.violation("accessor", f"{cls}: integral {integ!r} != sum(samples)*1e-3", f"accessor:{cls}:integral")


def check_ops(ctx, rng, s: dict, w, x: np.ndarray) -> None:
    cls = type(w).__name__
    mx = max(1.0, float(np.max(np.abs(x))))
    for k in rng.sample(KS, 2):
        for op in ("mul", "div") if k != 0 else ("mul",):
            try:
                w2 = w * k if op == "mul" else w / k
                y = samples_of(w2)
            except Exception as e:
                ctx.violation("scaling", f"{cls} {op} {k!r} raised {type(e).__name__}: {str(e)[:160]}",
                              f"scale-raises:{cls}:{op}")
                continue
            f = k if op == "mul" else 1.0 / k
            ctx.count("scaling_checked")
            if len(y) != len(x) or not np.all(np.isfinite(y)) or \
                    float(np.max(np.abs(y - f * x))) > 1e-9 * max(1.0, abs(f)) * mx:
                ctx.violation("scaling", f"{cls} (duration {len(x)}) {op} {k!r}: samples differ from the scaled samples "
                              f"(max diff {float(np.max(np.abs(y - f * x))) if len(y) == len(x) else 'length'})",
                              f"scale:{cls}:{op}")
    try:
        y = samples_of(-w)
        ctx.count("scaling_checked")
        if len(y) != len(x) or float(np.max(np.abs(y + x))) > 1e-9 * mx:
            ctx.violation("scaling", f"-{cls}: samples are not the negated samples", f"scale:{cls}:neg")
    except Exception as e:
        ctx.violation("scaling", f"-{cls} raised {e!r}", f"scale-raises:{cls}:neg")
    ctx.count("div_zero_checked")
    try:
        w / 0
        ctx.violation("div-zero", f"{cls} / 0 returned instead of raising", f"div-zero-accepted:{cls}")
    except Exception:
        pass
    if cls == "CustomWaveform" and len(x) >= 2:
        # element-wise factors: a divisor array containing a zero must be refused (never non-finite samples)
        arr_ = np.array([rng.choice([1.0, 2.0, -0.5, 4.0]) for _ in x])
        try:
            y = samples_of(w * arr_)
            ctx.count("scaling_checked")
            if float(np.max(np.abs(y - arr_ * x))) > 1e-9 * 4 * mx:
                ctx.violation("scaling", "CustomWaveform * array: samples are not the element-wise product", "scale:CustomWaveform:mul-array")
            y = samples_of(w / arr_)
            ctx.count("scaling_checked")
            if float(np.max(np.abs(y - x / arr_))) > 1e-9 * 4 * mx:
                ctx.violation("scaling", "CustomWaveform / array: samples are not the element-wise quotient", "scale:CustomWaveform:div-array")
        except Exception as e:
            ctx.violation("scaling", f"CustomWaveform with an array factor raised {type(e).__name__}: {str(e)[:120]}",
                          "scale-raises:CustomWaveform:array")
        z = arr_.copy()
        z[rng.randrange(len(z))] = 0.0
        ctx.count("div_zero_checked")
        try:
            y = samples_of(w / z)
            ctx.violation("div-zero", f"CustomWaveform / (array with a zero entry) returned "
                          f"{'non-finite' if not np.all(np.isfinite(y)) else 'finite'} samples instead of raising",
                          "div-zero-accepted:CustomWaveform:array")
        except Exception:
            pass


def check_eq(ctx, rng, s: dict, w, x: np.ndarray) -> None:
    from pulser.waveforms import ConstantWaveform, CustomWaveform

    cls = type(w).__name__
    mx = max(1.0, float(np.max(np.abs(x))))
    i = rng.randrange(len(x))
    bump = np.zeros(len(x))
    bump[i] = gen.pick(rng, [1e-9, 1e-7, 1e-4, 1e-2]) * mx * gen.pick(rng, [1, -1])
    twins = [("same-spec", lambda: build(s)), ("custom-copy", lambda: CustomWaveform(x.copy())),
             ("rel-1e-9", lambda: CustomWaveform(x * (1 + 1e-9))), ("bumped", lambda: CustomWaveform(x + bump)),
             ("scaled-1.01", lambda: CustomWaveform(x * 1.01)),
             ("longer", lambda: CustomWaveform(np.concatenate([x, x[-1:]]))),
             ("constant", lambda: ConstantWaveform(len(x), float(x[0])))]
    for name, mk in twins:
        try:
            o = mk()
            y = samples_of(o)
        except Exception:
            continue
        same_len = len(y) == len(x)
        ab = same_len and bool(np.allclose(x, y))
        ba = same_len and bool(np.allclose(y, x))
        try:
            got, got_r = bool(w == o), bool(o == w)
        except Exception as e:
            ctx.violation("equality", f"{cls} == {name} twin raised {e!r}", f"eq-raises:{cls}")
            continue
        if ab != ba:
            ctx.gray("allclose-asymmetric")
            continue
        ctx.count("equality_checked")
        if got != ab or got_r != ab:
            ctx.violation("equality", f"{cls} (duration {len(x)}) == {name} twin gives {got}/{got_r}; durations "
                          f"{'equal' if same_len else 'differ'}, allclose(samples) = {ab}", f"eq:{name}")
    ctx.count("equality_checked")
    if (w == "waveform") or (w == 1.0):
        ctx.violation("equality", f"{cls} compares equal to a non-waveform", "eq:foreign-type")


def check_index(ctx, rng, w, x: np.ndarray) -> None:
    cls = type(w).__name__
    d = len(x)
    idx = list(range(-d - 1, d + 1)) if d <= 19 else \
        [-d - 1, -d, -d + 1, -1, 0, 1, d - 2, d - 1, d] + [rng.randint(-d - 1, d) for _ in range(30)]
    for i in idx:
        ctx.count("index_checked")
        try:
            want = x[i]
        except IndexError:
            want = None
        try:
            got = float(arr(w[i]))
        except IndexError:
            got = None
        except Exception as e:
            ctx.violation("indexing", f"{cls}[{i}] (duration {d}) raised {e!r}", f"index-raises:{cls}")
            continue
        if (want is None) != (got is None) or (want is not None and got != want):
            ctx.violation("indexing", f"{cls}[{i}] (duration {d}) gives {got!r}, numpy gives {want!r} (None = IndexError)",
                          "index:" + ("in-range" if want is not None else "out-of-range"))
    pool = [None, 0, 1, -1, d, d - 1, -d, -d - 2, d + 3, d // 2]
    for _ in range(12):
        a = gen.pick(rng, pool) if rng.random() < 0.6 else rng.randint(-d - 3, d + 3)
        b = gen.pick(rng, pool) if rng.random() < 0.6 else rng.randint(-d - 3, d + 3)
        sl = slice(a, b) if rng.random() < 0.7 else slice(a, b, 1)
        ctx.count("slice_checked")
        try:
            got = arr(w[sl])
        except Exception as e:
            ctx.violation("indexing", f"{cls}[{a}:{b}] (duration {d}) raised {e!r}", f"slice-raises:{cls}")
            continue
        if not np.array_equal(np.atleast_1d(got), x[sl]):
            ctx.violation("indexing", f"{cls}[{a}:{b}:{sl.step}] (duration {d}) has {len(np.atleast_1d(got))} samples, numpy "
                          f"slicing gives {len(x[sl])}", "slice")


def check_change_duration(ctx, rng, s: dict, w) -> None:
    cls = type(w).__name__
    nd = duration(rng)
    try:
        w2 = w.change_duration(nd)
    except NotImplementedError:
        ctx.count("change_duration_unsupported")
        return
    except Exception as e:
        if has_collision(dict(s, d=nd)) if s["k"] == "interp" else False:
            ctx.gray("interp-colliding-points")
            return
        ctx.violation("change-duration", f"{cls}.change_duration({nd}) raised {type(e).__name__}: {str(e)[:160]}",
                      f"change-duration-raises:{cls}:{W.dur_class(nd)}")
        return
    if type(w2).__name__ != cls:
        ctx.violation("change-duration", f"{cls}.change_duration({nd}) returned a {type(w2).__name__}", f"change-duration:{cls}:class")
        return
    s2 = dict(s, d=nd)
    x2 = check_basic(ctx, s2, w2, where="change_duration -> ")
    if x2 is None:
        return
    ctx.count("change_duration_checked")
    # "changing the duration preserves the defining parameters": same samples as the waveform built directly with the
    # same parameters at the new duration
    if s["k"] in ("const", "ramp", "blackman", "kaiser", "interp") and not has_collision(s2):
        try:
            x3 = samples_of(build(s2))
            ctx.count("change_duration_vs_direct")
            if len(x3) != len(x2) or not np.allclose(x2, x3, rtol=1e-9, atol=1e-9 * max(1.0, float(np.max(np.abs(x3))))):
                ctx.violation("change-duration", f"{cls}.change_duration({nd}) differs from {cls} built with the same parameters "
                              f"at that duration (spec {dict((k_, v_) for k_, v_ in s.items() if k_ != 'values')})",
                              f"change-duration:{cls}:vs-direct")
        except Exception:
            ctx.gray("direct-construction-at-new-duration-raised")
    before = ctx.counters.get("violation:closed-form", 0) + ctx.counters.get("violation:area", 0)
    check_closed_form(ctx, s2, w2, x2)
    if s["k"] == "kaiser" and float(getattr(w2, "_beta", s.get("beta", 14.0))) != float(s.get("beta", 14.0)):
        ctx.violation("change-duration", "KaiserWaveform.change_duration changed beta", "change-duration:KaiserWaveform:beta")
    if ctx.counters.get("violation:closed-form", 0) + ctx.counters.get("violation:area", 0) > before:
        ctx.count("change_duration_lost_parameters")


def case_wf(ctx, rng):
    d = duration(rng)
    s = gen_spec(rng, d)
    ctx.case = {"family": "wf", "wf": s}
    ctx.sample(ctx.case)
    cls = CLS.get(s["k"], "CustomWaveform")
    try:
        w = build(s)
    except Exception as e:
        if has_collision(s):
            ctx.gray("interp-colliding-points")
            return
        ctx.violation("constructor", f"{cls}(duration {d}) raised {type(e).__name__}: {str(e)[:200]} for {str(s)[:200]}",
                      f"constructor-raises:{cls}:{W.dur_class(d)}:{type(e).__name__}")
        return
    ctx.count("built:" + cls)
    x = check_basic(ctx, s, w)
    if x is None:
        ctx.mark_nontrivial((cls, W.dur_bucket(d), W.sign_pattern(params(s)), "nonfinite"))
        return
    if check_closed_form(ctx, s, w, x):
        ctx.mark_nontrivial((cls, W.dur_bucket(d), W.sign_pattern(params(s))))
    check_accessors(ctx, w, x)
    check_ops(ctx, rng, s, w, x)
    check_eq(ctx, rng, s, w, x)
    check_index(ctx, rng, w, x)
    check_change_duration(ctx, rng, s, w)
    check_handed_out(ctx, s, w, x)


def check_handed_out(ctx, s: dict, w, x: np.ndarray) -> None:
    """What a waveform hands out (its samples, the component list of a composite, the data points of an interpolated
    waveform) is the caller's to edit: the waveform keeps exactly `duration` samples with the values it had."""
    cls = CLS.get(s["k"], "CustomWaveform")
    d0 = int(w.duration)
    try:
        a = w.samples.as_array(detach=True) if hasattr(w.samples, "as_array") else np.asarray(w.samples)
        if isinstance(a, np.ndarray) and a.flags.writeable and a.size:
            a += 1e6
        comps = getattr(w, "waveforms", None)
        if isinstance(comps, list) and comps:
            comps.append(comps[0])
            comps.reverse()
        dp = getattr(w, "data_points", None)
        if isinstance(dp, np.ndarray) and dp.flags.writeable and dp.size:
            dp *= -3.0
    except Exception as e:
        ctx.violation("handed-out", f"{cls}: reading samples / waveforms / data_points raised {e!r}"[:300], f"handed-out-raises:{cls}")
        return
    ctx.count("handed_out_objects_edited")
    try:
        x2, d2 = samples_of(w), int(w.duration)
    except Exception as e:
        ctx.violation("handed-out", f"{cls}: after editing what it handed out, samples / duration raised {e!r}"[:300],
                      f"handed-out-breaks:{cls}")
        return
    if d2 != d0 or len(x2) != d0 or not np.array_equal(x2, x, equal_nan=True):
        ctx.violation("handed-out", f"{cls}: after editing the objects it handed out the waveform has duration {d2} (was {d0}), "
                      f"{len(x2)} samples, values {'changed' if len(x2) == len(x) and not np.array_equal(x2, x, equal_nan=True) else 'same'}",
                      f"handed-out-aliases:{cls}")


# ------------------------------------------------------------------------------------------ from_max_val
def case_maxval(ctx, rng):
    kind = gen.pick(rng, ["blackman", "kaiser"])
    sg = gen.pick(rng, [1, 1, -1])
    mv = gen.pick(rng, [1.0, TWO_PI * 2.5, 10.0, 15.0, 0.3, 50.0, gen.r6(rng.uniform(0.1, 60))])
    target = duration(rng)
    beta = gen.pick(rng, [14.0, 14.0, 2.0, 25.0, 0.5, 0, 0.0, 1e-3]) if kind == "kaiser" else None  # 0: rectangular window
    c = 0.42 if kind == "blackman" else float(np.sum(W.kaiser_window(100, beta))) / 100
    u = gen.pick(rng, [1.0, 1.0, 1 - 1e-9, 1 + 1e-9, rng.uniform(0.97, 1.03)])
    area = sg * mv * c * target * 1e-3 * u
    s = {"k": kind + "_max", "max_val": sg * mv, "area": area}
    if beta is not None:
        s["beta"] = beta
    ctx.case = {"family": "maxval", "wf": s, "target": target}
    ctx.sample(ctx.case)
    cls = CLS[s["k"]]
    try:
        w = build(s)
    except Exception as e:
        ctx.violation("from-max-val", f"{cls}.from_max_val({sg * mv!r}, {area!r}) raised {type(e).__name__}: {str(e)[:200]}",
                      f"from-max-val-raises:{cls}:{type(e).__name__}")
        return
    try:
        x, d = samples_of(w), int(w.duration)
    except Exception as e:
        ctx.violation("samples-raise", f"{cls}.from_max_val: samples raised {e!r}", f"samples-raise:{cls}:{type(e).__name__}")
        return
    ctx.count("length_finite_checked")
    if len(x) != d:
        ctx.violation("length", f"{cls}.from_max_val: len(samples) {len(x)} != duration {d}", f"length:{cls}")
        return
    if beta is not None:
        ctx.count("from_max_val_beta_checked")
        if not beta:
            ctx.count("from_max_val_beta_zero")
        ref = W.kaiser_window(d, float(beta))
        ref = ref * (area / (float(np.sum(ref)) * 1e-3))
        if not np.allclose(x, ref, rtol=1e-9, atol=1e-12 * abs(mv)):
            ctx.violation("from-max-val", f"{cls}.from_max_val(..., beta={beta!r}) of duration {d} is not the Kaiser window "
                          f"of that beta (max deviation {float(np.max(np.abs(x - ref))):.3g})", f"from-max-val-beta:{cls}")
            return
    if not np.all(np.isfinite(x)):
        ctx.violation("non-finite", f"{cls}.from_max_val({sg * mv!r}, {area!r}) of duration {d} has non-finite samples",
                      f"nonfinite:{cls}:{W.dur_class(d)}")
        return
    ctx.count("area_checked")
    if abs(float(w.integral) - area) > 1e-9 * abs(area):
        ctx.violation("area", f"{cls}.from_max_val (duration {d}): integral {float(w.integral)!r}, area {area!r}",
                      f"area:{cls}:{W.dur_class(d)}")
    if float(np.min(sg * x)) < 0:
        ctx.violation("sign", f"{cls}.from_max_val (area {area!r}) has samples of the opposite sign", f"sign:{cls}")
    ctx.count("max_val_checked")
    peak = float(np.max(sg * x))
    ctx.mark_nontrivial((cls + ".from_max_val", W.dur_bucket(d), "+" if sg > 0 else "-"))
    if peak > mv * (1 + 1e-12):
        ctx.violation("max-val", f"{cls}.from_max_val({sg * mv!r}, {area!r}): extreme sample {sg * peak!r} beyond max_val "
                      f"(duration {d})", f"maxval-exceeded:{cls}")
        return
    # one ns shorter would exceed max_val
    if kind == "kaiser" and d <= 15:
        ctx.gray("kaiser-short-range")
        return
    if kind == "blackman" and d <= 3:
        ctx.gray("blackman-short-range")
        return
    prev = W.window_max(kind, d - 1, abs(area), beta if beta is not None else 14.0)
    if prev > mv * (1 - 1e-12):
        ctx.count("max_val_minimal_checked")
        return
    if kind == "blackman" and d % 2 == 1:
        ctx.gray("blackman-odd-even")
        return
    ctx.count("max_val_minimal_checked")
    ctx.violation("max-val", f"{cls}.from_max_val({sg * mv!r}, {area!r}) has duration {d}, but duration {d - 1} would peak at "
                  f"{prev!r} <= max_val", f"maxval-not-minimal:{cls}")


# ------------------------------------------------------------------------------------------ pulses
def in_range(v: float) -> str:
    """'ok' | 'gray' (== float 2 pi) | 'bad' for membership in [0, 2 pi)."""
    if 0 <= v < TWO_PI:
        return "ok"
    return "gray" if v == TWO_PI else "bad"


def case_pulse(ctx, rng):
    d = duration(rng)
    invalid = gen.wchoice(rng, {"none": 85, "negative-amp": 8, "duration-mismatch": 7})
    amp_kinds = {"const": 3, "ramp": 2, "blackman": 2, "kaiser": 1, "custom": 1.5, "interp": 1.5, "composite": 1}
    amp = signed(gen_spec(rng, d, amp_kinds, small=True), -1 if invalid == "negative-amp" else 1)
    det = gen_spec(rng, d + (rng.randint(1, 3) if invalid == "duration-mismatch" else 0), None, small=True)
    kind = gen.pick(rng, [None, None, "constamp", "constdet", "constpulse"]) if invalid == "none" else None
    p = {"amp": amp, "det": det, "phase": gen.pick(rng, PHASES), "pps": gen.pick(rng, PHASES)}
    if kind == "constamp":
        p = dict(p, kind=kind, amp=abs(val(rng)))
    elif kind == "constdet":
        p = dict(p, kind=kind, det=val(rng))
    elif kind == "constpulse":
        p = dict(p, kind=kind, d=d, amp=abs(val(rng)), det=val(rng))
    ctx.case = {"family": "pulse", "pulse": p, "invalid": invalid}
    ctx.sample(ctx.case)
    # what the waveforms actually are (the generator does not know the sign of e.g. an interpolated amplitude)
    try:
        xa = samples_of(build(amp)) if isinstance(p["amp"], dict) else np.full(d, float(p["amp"]))
        xd = samples_of(build(det)) if isinstance(p["det"], dict) else np.full(len(xa), float(p["det"]))
    except Exception:
        ctx.count("pulse_waveform_not_built")
        return
    if not (np.all(np.isfinite(xa)) and np.all(np.isfinite(xd))):
        ctx.count("pulse_waveform_nonfinite_skipped")   # reported by the wf family
        return
    neg, mism = bool(np.any(xa < 0)), len(xa) != len(xd)
    q = dict(p)
    for k in ("amp", "det"):
        if isinstance(q[k], dict):
            q[k] = expand(q[k])
    try:
        pulse = objs.build_pulse(q)
    except Exception as e:
        if neg or mism:
            ctx.count("pulse_invalid_rejected")
        else:
            ctx.violation("pulse-constructor", f"Pulse with non-negative amplitude and equal durations raised "
                          f"{type(e).__name__}: {str(e)[:200]}", f"pulse-raises:{type(e).__name__}")
        return
    ctx.count("pulse_invariants_checked")
    ctx.mark_nontrivial(("Pulse", kind or "plain", W.dur_bucket(d), W.sign_pattern([p["phase"], p["pps"]])))
    a, dd = samples_of(pulse.amplitude), samples_of(pulse.detuning)
    if neg or np.any(a < 0):
        ctx.violation("pulse-amplitude", f"Pulse accepted an amplitude with minimum {float(np.min(a))!r}", "pulse-accepts:negative-amp")
    if mism or len(a) != len(dd) or pulse.duration != len(a):
        ctx.violation("pulse-durations", f"Pulse has amplitude/detuning durations {len(a)}/{len(dd)}", "pulse-accepts:duration-mismatch")
    for nm, v, src in (("phase", float(arr(pulse.phase)), p["phase"]), ("post_phase_shift", float(pulse.post_phase_shift), p["pps"])):
        r = in_range(v)
        if r == "gray":
            ctx.gray("phase-rounds-to-2pi")
        elif r == "bad":
            ctx.violation("pulse-phase", f"Pulse.{nm} = {v!r} for input {src!r}: outside [0, 2pi)", f"pulse-{nm}-range")
        elif abs(W.wrap_pi(np.array([v - src]))[0]) > 1e-9 * max(1.0, abs(src)):
            ctx.violation("pulse-phase", f"Pulse.{nm} = {v!r} is not {src!r} modulo 2pi", f"pulse-{nm}-value")


def case_arbphase(ctx, rng):
    d = duration(rng)
    amp = gen.pick(rng, [{"k": "const", "d": d, "v": gen.r6(rng.uniform(0.1, 10))},
                         {"k": "blackman", "d": d, "area": gen.r6(rng.uniform(0.1, 3))} if d >= 3 else
                         {"k": "const", "d": d, "v": 1.0},
                         {"k": "ramp", "d": d, "a": 1.0, "b": 5.0} if d >= 2 else {"k": "const", "d": d, "v": 2.0}])
    phi = gen_spec(rng, d, {"const": 1, "ramp": 3, "custom": 4, "interp": 3, "blackman": 2, "kaiser": 1, "composite": 2}, small=True)
    p = {"kind": "arbphase", "amp": amp, "phase_wf": phi}
    if rng.random() < 0.3:
        p["pps"] = gen.pick(rng, PHASES)
    ctx.case = {"family": "arbphase", "pulse": p}
    ctx.sample(ctx.case)
    try:
        wphi, wamp = build(phi), build(amp)
        xphi, xamp = samples_of(wphi), samples_of(wamp)
    except Exception:
        ctx.count("arbphase_waveform_not_built")
        return
    if not (np.all(np.isfinite(xphi)) and np.all(np.isfinite(xamp))):
        ctx.count("arbphase_waveform_nonfinite_skipped")
        return
    cls = type(wphi).__name__
    q = dict(p, amp=expand(amp), phase_wf=expand(phi))
    try:
        pulse = objs.build_pulse(q)
    except Exception as e:
        ctx.violation("arbitrary-phase", f"Pulse.ArbitraryPhase(amp, {cls} of duration {d}) raised {type(e).__name__}: "
                      f"{str(e)[:200]}", "arbitrary-phase-raises:" + ("closed-form-phase" if cls in ("ConstantWaveform", "RampWaveform") else "sampled-phase")
                      + ":" + W.dur_class(d))
        return
    import pulser
    from pulser.sampler import sample

    try:
        seq = pulser.Sequence(pulser.Register({"q0": (0.0, 0.0)}), pulser.MockDevice)
        seq.declare_channel("ch", "rydberg_global")
        seq.add(pulse, "ch")
        pm = arr(sample(seq).channel_samples["ch"].phase_modulation)
    except Exception as e:
        ctx.violation("arbitrary-phase", f"one-pulse sequence with ArbitraryPhase({cls}, duration {d}) raised "
                      f"{type(e).__name__}: {str(e)[:200]}", f"arbitrary-phase-sequence-raises:{cls}:{type(e).__name__}")
        return
    ctx.count("arbitrary_phase_checked")
    ctx.mark_nontrivial(("ArbitraryPhase", cls, W.dur_bucket(d), W.sign_pattern(params(phi))))
    if in_range(float(arr(pulse.phase))) == "bad":
        ctx.violation("pulse-phase", f"ArbitraryPhase: Pulse.phase = {float(arr(pulse.phase))!r} outside [0, 2pi)", "pulse-phase-range")
    if len(pm) != d:
        ctx.violation("arbitrary-phase", f"phase_modulation has {len(pm)} samples for a {d} ns pulse", "arbitrary-phase:length")
        return
    diff = np.abs(W.wrap_pi(pm - xphi))
    worst = float(np.max(diff))
    # phases of 1e9 rad (a 3-ns Kaiser window of area 20) cannot be reproduced to 1e-9: rounding of the running sum
    S = float(np.max(np.abs(xphi))) + float(np.max(np.abs(np.diff(xphi)), initial=0.0))
    slack = 4 * d * np.finfo(float).eps * S
    if worst > max(1e-9, slack):
        i = int(np.argmax(diff))
        ctx.violation("arbitrary-phase", f"ArbitraryPhase({cls}, duration {d}): phase_modulation[{i}] = {pm[i]!r}, "
                      f"phase waveform[{i}] = {xphi[i]!r} (differ by {diff[i]:.3e} mod 2pi)",
                      f"arbitrary-phase:{cls}:{W.dur_class(d)}")
    elif worst > 1e-9:
        ctx.gray("arbitrary-phase-below-float-resolution")


CASES = {"wf": case_wf, "maxval": case_maxval, "pulse": case_pulse, "arbphase": case_arbphase}


def run_case(ctx, idx, rng, tier):
    fam = gen.wchoice(rng, FAMILIES)
    ctx.count("cases:" + fam)
    CASES[fam](ctx, rng)
