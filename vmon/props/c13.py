"""C13 — which building operations are accepted follows the documented typestate."""
from vmon import gen, objs, prog
from vmon.ref import typestate as ts
from vmon.snap import state_key

LEVEL = "exploration"
RULE = ("random walks of 5-40 calls over the full building API on DigitalAnalogDevice, MockDevice and generated "
        "virtual devices (reusable or not, XY-capable), mixing generated valid calls with systematic probes (every op "
        "kind on every channel/device id with certainly-valid arguments); before each call the documented mode "
        "automaton says REFUSE / ALLOW / VALUE; REFUSE must raise, ALLOW (probes only) must return; the automaton "
        "advances on success only; is_parametrized / is_measured / is_in_eom_mode / available channel ids must agree "
        "with it. non-trivial = distinct (model-state digest, op kind, verdict) visited")
RULE += " Later additions: probes carrying a variable that are refused for an EOM-typestate reason must leave the parametrized mode unchanged."
ASSUMPTIONS = ["devices without duration ceilings; probe arguments are value-valid by construction (C01 decides values)",
               "explicit phase shifts target all atoms and no drift corrections are used, so that phase references stay uniform",
               "acceptance that depends on values/timing is VALUE (no verdict); the SLM-mask DMM is VALUE for delay/add"]
TIERS = {"quick": dict(cases=1200, shards=8, case_timeout=120, shard_timeout=900),
         "thorough": dict(cases=20000, shards=16, case_timeout=120, shard_timeout=3000)}
FLOORS = {"quick": {"judged:REFUSE": 5000, "judged:ALLOW": 3000, "queries_checked": 5000,
                    "deferred_dmm_redeclarations_probed": 30},
          "thorough": {"judged:REFUSE": 80000}}
WEIGHTS = {"sample": 0.1, "str": 0.1, "to_abstract_repr": 0, "build_copy": 0, "queries": 0, "measure": 0.3,
           "get_duration": 0.2, "estimate_added_delay": 0.1, "is_in_eom_mode": 0, "current_phase_ref": 0.1,
           "enable_eom_mode": 2.0, "disable_eom_mode": 1.5, "config_slm_mask": 1.0, "config_detuning_map": 1.2,
           "set_magnetic_field": 0.3, "declare_channel": 3}


def c13_device(rng) -> dict:
    x = rng.random()
    if x < 0.2:
        return {"kind": "builtin", "name": gen.pick(rng, ["DigitalAnalogDevice", "MockDevice"])}
    dev = gen.gen_device(rng, p_builtin=0, p_physical=0, xy=rng.random() < 0.45, max_seq=0, want_eom=0.6,
                         reusable=0.4, limits="none")
    for c in dev["channels"] + dev.get("dmm", []):
        c["max_duration"] = None
        c.pop("min_avg_amp", None)
        if "bottom_detuning" in c:
            c["bottom_detuning"] = -1000.0
        if "total_bottom_detuning" in c:
            c["total_bottom_detuning"] = -100000.0
    return dev


def valid_duration(c: dict) -> int:
    clk, mn = c.get("clock_period", 1), c.get("min_duration", 1)
    return -(-max(mn, 16) // clk) * clk


def probes(rng, m: ts.Model, g: gen.ProgGen) -> list[dict]:
    """One certainly-valid call of every kind, aimed at a random channel / device id."""
    out = []
    names = list(m.chans) + ["nope"]  # "nope" is never declared
    ids = list(m.spec)
    n = gen.pick(rng, names)
    spec = m.spec[m.chans[n]["id"]] if n in m.chans else {"clock_period": 1, "min_duration": 16}
    d = valid_duration(spec)
    amp = 0.5 * (spec.get("max_amp") or 4.0)
    pulse = {"amp": {"k": "const", "d": d, "v": amp}, "det": {"k": "const", "d": d, "v": 0.0}, "phase": 0.0}
    cid = gen.pick(rng, ids + ["no_such_id"])
    fresh = "p%d" % rng.randrange(10 ** 6)
    out.append({"op": "declare_channel", "name": gen.pick(rng, [fresh, fresh, n if n != "nope" else fresh]), "ch_id": cid})
    out.append({"op": "add", "pulse": pulse, "ch": n})
    out.append({"op": "add_eom_pulse", "ch": n, "duration": d, "phase": 0.0})
    out.append({"op": "add_dmm_detuning", "wf": {"k": "const", "d": d, "v": -1.0}, "ch": n})
    out.append({"op": "delay", "duration": d, "ch": n})
    out.append({"op": "target", "qubits": g.qids[0], "ch": n})
    out.append({"op": "enable_eom_mode", "ch": n, "amp_on": amp, "detuning_on": 0.0})
    out.append({"op": "disable_eom_mode", "ch": n})
    out.append({"op": "modify_eom_setpoint", "ch": n, "amp_on": amp, "detuning_on": 0.0})
    dm = [i for i in ids if m.spec[i].get("dmm")] + ["dmm_7"]
    out.append({"op": "config_detuning_map", "dmm_id": gen.pick(rng, dm),
                "map": ({"by": "qubits", "ids": list(g.qids), "weights": [1.0] * len(g.qids)} if not m.mappable else
                        {"by": "traps", "traps": g.reg["traps"], "weights": [1.0] * len(g.reg["traps"])})})
    taken = [i for i in dm[:-1] if i in m.used or i in m.param_dmm]
    if taken and not m.mappable:  # a DMM that is already taken (also by a deferred declaration), once more
        out.append({"op": "config_detuning_map", "dmm_id": gen.pick(rng, taken),
                    "map": {"by": "qubits", "ids": list(g.qids), "weights": [0.5] * len(g.qids)}})
    # (on a parametrized sequence config_slm_mask is deferred unvalidated: an unknown DMM id is accepted and then
    #  breaks `declared_channels` with a KeyError - outside the statement, see DESIGN 7.7; only valid ids are probed there)
    dm_slm = dm if not m.param else dm[:-1]
    if dm_slm:
        out.append({"op": "config_slm_mask", "qubits": [g.qids[0]], "dmm_id": gen.pick(rng, dm_slm)})
    out.append({"op": "phase_shift", "phi": 1.0, "targets": [], "basis": gen.pick(rng, ["digital", "ground-rydberg", "XY"])})
    out.append({"op": "set_magnetic_field", "b": gen.pick(rng, [[0.0, 0.0, 30.0], [0.0, 0.0, 30.0], [0.0, 0.0, 0.0]])})
    out.append({"op": "get_duration"})
    out.append({"op": "sample"})
    out.append({"op": "estimate_added_delay", "pulse": pulse, "ch": n})
    out.append({"op": "current_phase_ref", "q": g.qids[0], "basis": gen.pick(rng, ["digital", "ground-rydberg", "XY"])})
    if len(m.chans) >= 1:
        out.append({"op": "align", "chs": rng.sample(names, min(len(names), 2))})
    if rng.random() < 0.15:
        out.append({"op": "measure", "basis": gen.pick(rng, sorted(m.bases()) or ["ground-rydberg"])})
    if rng.random() < 0.25:
        out.append({"op": "declare_variable", "name": gen.pick(rng, ["v1", "v2", "qubits"]), "dtype": "int"})
    if m.vars and rng.random() < 0.4:
        v = sorted(m.vars)[0]
        out.append({"op": "delay", "duration": {"e": "var", "name": v}, "ch": n})
    if m.vars and not m.param and idx_parity(rng):
        # calls that carry a variable and are refused (or not) for an EOM-typestate reason: a refused one has not used
        # the variable, the sequence stays in the mode it was in
        v = {"e": "var", "name": sorted(m.vars)[0]}
        out.append(gen.pick(rng, [
            {"op": "add_eom_pulse", "ch": n, "duration": v, "phase": 0.0},
            {"op": "enable_eom_mode", "ch": n, "amp_on": amp, "detuning_on": v},
            {"op": "modify_eom_setpoint", "ch": n, "amp_on": amp, "detuning_on": v},
            {"op": "add", "pulse": dict(pulse, phase=v), "ch": n}]))
    for o in out:
        o["_probe"] = True
    return out


def idx_parity(rng) -> bool:
    return rng.random() < 0.5


class Tainted(Exception):
    pass


def run_case(ctx, idx, rng, tier):
    try:
        _run_case(ctx, idx, rng, tier)
    except Tainted:
        pass


def _run_case(ctx, idx, rng, tier):
    dev = c13_device(rng)
    reg = gen.gen_register(rng, dev, nmin=1, nmax=4, kind=gen.wchoice(rng, {"reg": 0.8, "mappable": 0.2}),
                           ids=gen.pick(rng, ["str", "str", "int"]))  # default integer ids (0, 1, ...) in a third of the cases
    r = prog.Runner(ctx, dev, reg, [], env=objs.Env("param"))  # variable expressions resolve to declared Variables
    reusable = dev.get("reusable_channels", False) or dev.get("name") == "MockDevice"
    slm = dev.get("supports_slm_mask", dev.get("name") in ("MockDevice", "DigitalAnalogDevice"))
    m = ts.Model(r.chspecs, reusable, bool(slm), reg["kind"] == "mappable", reg["ids"])
    g = gen.ProgGen(rng, dev, reg, r.chspecs, weights=WEIGHTS)
    g.pulse_fn = lambda rr, c, ph: gen.gen_pulse(rr, c, phase=ph, pps_p=0.0, arb=0.0)
    st = {"measured_after_param": False}

    def do(op, probe):
        if op["op"] == "config_slm_mask" and m.param and op.get("dmm_id", "dmm_0") not in m.spec:
            return False  # see probes(): not probed on a parametrized sequence
        verdict, why = m.judge(op)
        # known root cause: a sequence measured *before* it became parametrized forgets that it is measured
        forgot = m.measured and not st["measured_after_param"] and (m.param or m.uses_var(op))
        ev = r.step(op)
        ok = ev.exc is None and ev.stage == "call"
        ctx.count("judged:" + verdict)
        if m.param and op["op"] == "config_detuning_map" and why == "dmm-unavailable":
            ctx.count("deferred_dmm_redeclarations_probed")
        ctx.mark_nontrivial((m.digest(), op["op"], verdict, why))
        if ev.stage != "call":
            return ok
        if ev.exc is not None and state_key(ev.pre) != state_key(ev.post):
            fl_a, fl_b = ev.pre["flags"], ev.post["flags"]
            if (fl_a["in_xy"], fl_a["in_ising"]) != (fl_b["in_xy"], fl_b["in_ising"]) and not ev.pre["chans"] and not ev.post["chans"]:
                # the *mode* itself moved although the call was refused and nothing is declared: from here on the
                # sequence accepts other operations than its documented mode says
                ctx.violation("mode", f"{op['op']} was refused ({type(ev.exc).__name__}) but switched the mode of a sequence "
                              f"without channels: XY {fl_a['in_xy']} -> {fl_b['in_xy']}, Ising {fl_a['in_ising']} -> "
                              f"{fl_b['in_ising']}", f"refused-call-changed-mode:{op['op']}")
            if fl_a["building"] != fl_b["building"]:
                # likewise for the parametrized mode: the refused call has not used its variable, yet inspection calls
                # are refused from here on and later calls are only stored
                ctx.violation("mode", f"{op['op']} was refused ({type(ev.exc).__name__}: {str(ev.exc)[:80]}) but left the "
                              f"sequence parametrized (building {fl_a['building']} -> {fl_b['building']})",
                              f"refused-call-changed-parametrized:{op['op']}")
            ctx.count("discarded_after_C09")  # partial effect of a raising call: reported by C09, walk abandoned
            raise Tainted()
        if verdict == ts.REFUSE and ok:
            mech = "measured-before-parametrized-reports-unmeasured" if (forgot and why.startswith("measured")) else \
                f"accepted:{op['op']}:{why.split(' ')[0]}"
            ctx.violation("accepted-in-refusing-mode", f"{op['op']} was accepted although the mode forbids it ({why}); "
                          f"mode={m.mode} measured={m.measured} parametrized={m.param}", mech)
        if verdict == ts.ALLOW and probe and not ok:
            ctx.violation("refused-in-allowing-mode", f"{op['op']} with valid arguments was refused although the mode admits "
                          f"it: {type(ev.exc).__name__}: {str(ev.exc)[:140]}; mode={m.mode}", f"refused:{op['op']}:{type(ev.exc).__name__}")
        if ok:
            if op["op"] == "measure" and m.param:
                st["measured_after_param"] = True
            m.advance(op)
        g.update(op, ok)
        # ---- queries must agree with the automaton -------------------------------------------
        seq = r.seq
        ctx.count("queries_checked")
        try:
            if seq.is_parametrized() != m.param:
                ctx.violation("query", f"is_parametrized()={seq.is_parametrized()} after {op['op']} ({'ok' if ok else 'raised'}), "
                              f"model {m.param}", f"query:is_parametrized:{'ok' if ok else 'after-raise'}")
                m.param = seq.is_parametrized()
            if seq.is_measured() != m.measured:
                lost = m.measured and m.param and not st["measured_after_param"]
                ctx.violation("query", f"is_measured()={seq.is_measured()}, model {m.measured}",
                              "measured-before-parametrized-reports-unmeasured" if lost else "query:is_measured")
                if lost:
                    raise Tainted()  # everything after is a consequence of this one defect
            for nme, c in m.chans.items():
                if nme in seq.declared_channels and seq.is_in_eom_mode(nme) != c["eom"]:
                    ctx.violation("query", f"is_in_eom_mode({nme})={seq.is_in_eom_mode(nme)}, model {c['eom']}", "query:is_in_eom_mode")
            got = {i for i in seq.available_channels if not i.startswith("dmm_")}
            want = m.avail_channel_ids()
            if got != want:
                ctx.violation("query", f"available channel ids {sorted(got)} but the mode admits {sorted(want)}", "query:available_channels")
        except Tainted:
            raise
        except Exception as e:
            ctx.violation("query", f"query raised {e!r}", "query-raises")
        return ok

    if idx % 5 == 2:
        # a walk that is parametrized from its second call on: a channel, a variable, a delay of that variable, and
        # (on devices with a DMM) deferred DMM declarations, so that the rest explores the parametrized mode
        ids = [i for i in m.spec if not m.spec[i].get("dmm") and m.spec[i]["addr"] == "Global"]
        if ids:
            do({"op": "declare_channel", "name": "pre", "ch_id": gen.pick(rng, ids)}, False)
            do({"op": "declare_variable", "name": "pv", "dtype": "int"}, False)
            do({"op": "delay", "duration": {"e": "var", "name": "pv"}, "ch": "pre"}, False)
            dmm_ids = [i for i in m.spec if m.spec[i].get("dmm")]
            if dmm_ids and m.mode != "xy" and not m.mappable and rng.random() < 0.7:
                did = gen.pick(rng, dmm_ids)
                first = gen.pick(rng, ["map", "map", "slm"])
                if first == "map":
                    do({"op": "config_detuning_map", "dmm_id": did,
                        "map": {"by": "qubits", "ids": list(g.qids), "weights": [1.0] * len(g.qids)}}, False)
                elif m.slm_ok if hasattr(m, "slm_ok") else True:
                    do({"op": "config_slm_mask", "qubits": [g.qids[0]], "dmm_id": did}, False)
                ctx.count("parametrized_preambles_with_dmm")
    for _ in range(rng.randint(5, 40)):
        if rng.random() < 0.45:
            cand = probes(rng, m, g)
            for op in rng.sample(cand, min(len(cand), rng.randint(1, 4))):
                do(op, True)
        else:
            op = g.next_op()
            if op["op"] in ("phase_shift", "phase_shift_index"):
                op["targets"] = []
            op.pop("cpd", None)
            op.pop("pps", None)
            do(op, False)
    ctx.sample({k: (v if k != "ops" else v[:20]) for k, v in r.prog.items()})
