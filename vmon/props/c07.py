"""C07 — phase references (virtual-Z) are additive and applied to every pulse."""
import math

import numpy as np

from vmon import gen, prog
from vmon.phasemon import PhaseMonitor

LEVEL = "exploration"
RULE = ("(a) online-generated shift-heavy histories: explicit shifts on subsets of atoms and bases, post-phase-shifts, "
        "EOM drift corrections, retargeting, several channels per basis; a shadow accumulator kept by the monitor is "
        "compared with current_phase_ref for every atom and basis after every call, with the phase of every scheduled "
        "pulse and with the phase-shift barrier. (b) physical clause: two pi/2 pulses separated by phase_shift(phi) on "
        "the emulator must give excitation cos^2(phi/2) within 1e-3, over a grid of angles (negative, > 2pi), channel "
        "kinds and pulse lengths. non-trivial = distinct history with shifts on a strict subset of atoms and >= 2 "
        "channels on one basis, plus distinct Ramsey configurations")
RULE += " Later additions: the barrier is also kept by the monitor itself (end of the latest pulse seen on the atom when the shift was made), with a 'short-behind' motif; the Ramsey fringe is also measured with the two pulses on two different channels of one basis, in both declaration orders."
ASSUMPTIONS = ["the amount of an EOM drift correction is decided by C15; here it must move exactly the channel's targets, all equally",
               "Ramsey tolerance 1e-3 (emulator 1-ns discretisation observed <= 3e-5)"]
TIERS = {"quick": dict(cases=1000, shards=8, case_timeout=180, shard_timeout=900),
         "thorough": dict(cases=16000, shards=16, case_timeout=180, shard_timeout=3000)}
FLOORS = {"quick": {"refs_compared": 20000, "pulse_phases_checked": 2500, "explicit_shifts": 1500, "ramsey_checked": 40, "mappable_builds_checked": 80, "ramsey_xy_masked_checked": 10, "ramsey_detuned_checked": 10, "ramsey_two_channels_checked": 20},
          "thorough": {"refs_compared": 300000}}
WEIGHTS = {"phase_shift": 6, "phase_shift_index": 2, "add": 10, "add_eom_pulse": 7, "target": 3, "declare_channel": 3,
           "sample": 0, "str": 0, "to_abstract_repr": 0, "build_copy": 0, "queries": 0, "measure": 0.02,
           "get_duration": 0, "estimate_added_delay": 0, "is_in_eom_mode": 0, "current_phase_ref": 0.5,
           "enable_eom_mode": 3.0, "disable_eom_mode": 1.2, "modify_eom_setpoint": 1.0}
ANGLES = [0.0, 0.3, 1.0, math.pi / 2, 2.0, math.pi, 4.0, -1.0, -7.0, 7.5, 9.0, 2 * math.pi, 5.5, -math.pi / 3]


def ramsey(ctx, rng, k: int) -> None:
    import pulser
    from pulser_simulation import QutipEmulator

    kind = ["rydberg_global", "raman_local", "rydberg_local", "raman_global"][k % 4]
    phi = ANGLES[(k // 4) % len(ANGLES)]
    T = [252, 100, 500][(k // (4 * len(ANGLES))) % 3]
    how = ["phase_shift", "post_phase_shift", "phase_shift_index"][(k // 2) % 3]
    reg = pulser.Register({"a": (0.0, 0.0)})
    seq = pulser.Sequence(reg, pulser.MockDevice)
    local = "local" in kind
    seq.declare_channel("ch", kind, **({"initial_target": "a"} if local else {}))
    basis = "digital" if "raman" in kind else "ground-rydberg"
    omega = (math.pi / 2) / (T * 1e-3)
    half = pulser.Pulse.ConstantPulse(T, omega, 0.0, 0.0)
    if how == "post_phase_shift":
        seq.add(pulser.Pulse.ConstantPulse(T, omega, 0.0, 0.0, post_phase_shift=phi), "ch")
    else:
        seq.add(half, "ch")
        if how == "phase_shift":
            seq.phase_shift(phi, "a", basis=basis)
        else:
            seq.phase_shift_index(phi, 0, basis=basis)
    seq.add(half, "ch")
    emu = QutipEmulator.from_sequence(seq)
    res = emu.run()
    psi = np.asarray(res.get_final_state().full()).ravel()
    # basis ordering by energy: (r, g) and (g, h): the initial ground state |g> is index 1 resp. 0
    g_index = 1 if basis == "ground-rydberg" else 0
    p_exc = 1.0 - abs(psi[g_index]) ** 2
    want = math.cos(phi / 2) ** 2
    ctx.count("ramsey_checked")
    ctx.mark_nontrivial(("ramsey", kind, phi, T, how))
    if abs(p_exc - want) > 1e-3:
        ctx.violation("ramsey", f"{kind} T={T} {how}({phi}): excitation {p_exc:.6f}, cos^2(phi/2)={want:.6f}",
                      f"ramsey:{how}", case={"ramsey": dict(kind=kind, phi=phi, T=T, how=how)})


def ramsey_xy_masked(ctx, rng, k: int) -> None:
    """Ramsey on the XY basis while an SLM mask is on: the reference in force *before* the first pulse (phi0) and the
    shift between the pulses (phi) both count; the unmasked atom ends with excitation cos^2(phi/2) whatever phi0."""
    import pulser
    from pulser_simulation import QutipEmulator

    phi0 = [0.0, 2.0, -1.0, math.pi / 3, 4.5][k % 5]
    phi = ANGLES[(k // 5) % len(ANGLES)]
    T = [252, 100][(k // (5 * len(ANGLES))) % 2]
    reg = pulser.Register({"a": (0.0, 0.0), "m": (4.0e4, 0.0)})  # far apart: the exchange term is negligible
    seq = pulser.Sequence(reg, pulser.MockDevice)
    seq.declare_channel("ch", "mw_global")
    seq.config_slm_mask(["m"])
    omega = (math.pi / 2) / (T * 1e-3)
    half = pulser.Pulse.ConstantPulse(T, omega, 0.0, 0.0)
    if phi0:
        seq.phase_shift(phi0, "a", "m", basis="XY")
    seq.add(half, "ch")
    seq.phase_shift(phi, "a", "m", basis="XY")  # (a global pulse needs equal references on all its targets)
    seq.add(half, "ch")
    psi = np.asarray(QutipEmulator.from_sequence(seq).run().get_final_state().full()).ravel()
    # basis (u, d) per atom, atom 'a' is the first tensor factor; it starts in u
    p_a_u = abs(psi[0]) ** 2 + abs(psi[1]) ** 2
    p_exc = 1.0 - p_a_u
    want = math.cos(phi / 2) ** 2
    ctx.count("ramsey_checked")
    ctx.count("ramsey_xy_masked_checked")
    ctx.mark_nontrivial(("ramsey-xy-masked", phi0, phi, T))
    if abs(p_exc - want) > 1e-3:
        ctx.violation("ramsey", f"XY, SLM mask on the other atom, T={T}, reference {phi0} before the first pulse, "
                      f"phase_shift({phi}) between: excitation {p_exc:.6f}, cos^2(phi/2)={want:.6f}", "ramsey:xy-masked",
                      case={"ramsey_xy_masked": dict(phi0=phi0, phi=phi, T=T)})


def ramsey_detuned(ctx, rng, k: int) -> None:
    """pi/2 pulse - free precession under a detuning (a zero-amplitude detuned pulse) - phase_shift(phi) - pi/2 pulse:
    the excitation depends on the *sign* with which phi enters relative to the detuning, which the plain Ramsey
    fringe cos^2(phi/2) does not. Expected value: exact propagation of the documented Hamiltonian (vmon.ref.ham)."""
    import pulser
    from pulser_simulation import QutipEmulator

    from vmon.ref import ham as refham

    kind = ["rydberg_global", "raman_global", "mw_global", "rydberg_local"][k % 4]
    phi = [0.7, -1.1, 2.0, 4.0, -2.6][(k // 4) % 5]
    delta = [3.0, -2.0, 5.5][(k // 20) % 3]
    T, W = 100, [60, 148][(k // 60) % 2]
    basis = {"rydberg_global": "ground-rydberg", "raman_global": "digital", "mw_global": "XY", "rydberg_local": "ground-rydberg"}[kind]
    reg = pulser.Register({"a": (0.0, 0.0)})
    seq = pulser.Sequence(reg, pulser.MockDevice)
    seq.declare_channel("ch", kind, **({"initial_target": "a"} if "local" in kind else {}))
    omega = (math.pi / 2) / (T * 1e-3)
    half = pulser.Pulse.ConstantPulse(T, omega, 0.0, 0.0)
    seq.add(half, "ch")
    seq.add(pulser.Pulse.ConstantPulse(W, 0.0, delta, 0.0), "ch")
    seq.phase_shift(phi, "a", basis=basis)
    seq.add(half, "ch")
    psi = np.asarray(QutipEmulator.from_sequence(seq).run().get_final_state().full()).ravel()
    states = refham.states_in_use({basis}, basis == "XY")
    ref = np.zeros(len(states), dtype=complex)
    ref[states.index(refham.TRANSITION[basis][0] if False else {"ground-rydberg": "g", "digital": "g", "XY": "u"}[basis])] = 1.0
    coords = [np.zeros(2)]
    for dur, om, de, ph in ((T, omega, 0.0, 0.0), (W, 0.0, delta, 0.0), (T, omega, 0.0, phi)):
        H = refham.hamiltonian(states, coords, {(0, basis): (0.5 * om * np.exp(-1j * ph), de)}, c6_coeff=None,
                               c3_coeff=None if basis != "XY" else 0.0, field=None if basis != "XY" else np.array([0.0, 0.0, 30.0]))
        w, V = np.linalg.eigh(H)
        ref = V @ (np.exp(-1j * w * dur * 1e-3) * (V.conj().T @ ref))
    ctx.count("ramsey_checked")
    ctx.count("ramsey_detuned_checked")
    ctx.mark_nontrivial(("ramsey-detuned", kind, phi, delta, W))
    pe, pr = np.abs(psi) ** 2, np.abs(ref) ** 2
    if np.max(np.abs(pe - pr)) > 2e-3:
        ctx.violation("ramsey", f"{kind}: pi/2 - {W} ns at detuning {delta} - phase_shift({phi}) - pi/2 gives populations "
                      f"{np.round(pe, 5)} (states {states}); the documented Hamiltonian gives {np.round(pr, 5)}",
                      f"ramsey:detuned-wait:{basis}", case={"ramsey_detuned": dict(kind=kind, phi=phi, delta=delta, wait=W)})


def ramsey_two_channels(ctx, rng, k: int) -> None:
    """The two pi/2 pulses are played by two *different* channels of one basis (the reference is kept per atom and
    basis, not per channel), in both declaration orders: excitation cos^2(phi/2)."""
    import pulser
    from pulser_simulation import QutipEmulator

    pair = [("rydberg_global", "rydberg_global"), ("rydberg_global", "rydberg_local"), ("rydberg_local", "rydberg_global"),
            ("raman_global", "raman_local"), ("raman_global", "raman_global")][k % 5]
    first_declared_plays_first = (k // 5) % 2 == 0
    how = ["phase_shift", "post_phase_shift", "phase_shift_index"][(k // 10) % 3]
    phi = ANGLES[1:][(k // 3) % (len(ANGLES) - 1)]
    T = [100, 252][(k // 30) % 2]
    reg = pulser.Register({"a": (0.0, 0.0)})
    seq = pulser.Sequence(reg, pulser.MockDevice)
    names = ["c1", "c2"]
    for n, kind in zip(names, pair if first_declared_plays_first else pair[::-1]):
        seq.declare_channel(n, kind, **({"initial_target": "a"} if "local" in kind else {}))
    one, two = names if first_declared_plays_first else names[::-1]
    basis = "digital" if "raman" in pair[0] else "ground-rydberg"
    omega = (math.pi / 2) / (T * 1e-3)
    half = pulser.Pulse.ConstantPulse(T, omega, 0.0, 0.0)
    if how == "post_phase_shift":
        seq.add(pulser.Pulse.ConstantPulse(T, omega, 0.0, 0.0, post_phase_shift=phi), one)
    else:
        seq.add(half, one)
        if how == "phase_shift":
            seq.phase_shift(phi, "a", basis=basis)
        else:
            seq.phase_shift_index(phi, 0, basis=basis)
    seq.add(half, two)
    psi = np.asarray(QutipEmulator.from_sequence(seq).run().get_final_state().full()).ravel()
    g_index = 1 if basis == "ground-rydberg" else 0
    p_exc = 1.0 - abs(psi[g_index]) ** 2
    want = math.cos(phi / 2) ** 2
    ctx.count("ramsey_checked")
    ctx.count("ramsey_two_channels_checked")
    ctx.mark_nontrivial(("ramsey2", pair, phi, T, how, first_declared_plays_first))
    if abs(p_exc - want) > 1e-3:
        ctx.violation("ramsey", f"pi/2 on {one} ({pair[0]}), {how}({phi}), pi/2 on {two} ({pair[1]}), T={T}, "
                      f"{'first' if first_declared_plays_first else 'second'}-declared channel plays first: excitation "
                      f"{p_exc:.6f}, cos^2(phi/2)={want:.6f}", f"ramsey:two-channels:{how}",
                      case={"ramsey_two_channels": dict(pair=pair, phi=phi, T=T, how=how, first_declared_plays_first=first_declared_plays_first)})


def run_case(ctx, idx, rng, tier):
    stride = 8 if tier == "quick" else 4
    if idx % (stride * 3) == 1:
        ramsey_two_channels(ctx, rng, idx // (stride * 3))
        ctx.case = {"ramsey_two_channels_index": idx // (stride * 3)}
        return
    if idx % stride == 0:
        k = idx // stride
        if k % 4 == 3:
            ramsey_xy_masked(ctx, rng, k // 4)
            ctx.case = {"ramsey_xy_masked_index": k // 4}
            return
        if k % 4 == 1:
            ramsey_detuned(ctx, rng, k // 4)
            ctx.case = {"ramsey_detuned_index": k // 4}
            return
        ramsey(ctx, rng, k)
        ctx.case = {"ramsey_index": idx // stride}
        return
    mapp = rng.random() < 0.2
    dev, reg = gen.header(rng, p_builtin=0.15, max_seq=0.05, nmin=2, nmax=5, want_eom=0.5,
                          **({"kind": "layout"} if mapp else {}))
    mapping = None
    if mapp:  # the same history on a mappable register; the references must survive the final build
        mapping = dict(zip(reg["ids"], reg["trap_ids"]))
        reg = {"kind": "mappable", "traps": reg["traps"], "ids": reg["ids"]}
    mon = PhaseMonitor(ctx)
    r = prog.Runner(ctx, dev, reg, [mon])
    g = gen.ProgGen(rng, dev, reg, r.chspecs, weights=WEIGHTS, same_phase=0.2)
    # every way of writing a pulse carries a post-phase-shift: the plain constructor and the arbitrary-phase one
    g.pulse_fn = lambda rr, c, ph: gen.gen_pulse(rr, c, phase=ph, pps_p=0.35, arb=0.2, big=False)
    g.motifs["equalize"] = 0.35
    g.motifs["short-behind"] = 0.12
    for _ in range(rng.randint(8, 40)):
        op = g.next_op()
        ev = r.step(op)
        g.update(op, ev.exc is None and ev.stage == "call")
    r.finish()
    if mapping is not None and not mon.tainted and r.seq._building:
        check_mappable_build(ctx, r, mon, mapping)
    ctx.sample(r.prog)


def check_mappable_build(ctx, r, mon, mapping) -> None:
    """build(qubits=...) replays the recorded calls on the concrete register: the result carries the same
    references (the monitor's shadow sums) and the same pulses as the sequence it was built from."""
    import warnings

    from vmon.phasemon import wrap_diff
    from vmon.snap import snapshot, timeline_diff

    try:
        with warnings.catch_warnings():
            warnings.simplefilter("ignore")
            built = r.seq.build(qubits=mapping)
    except Exception as e:
        ctx.gray("mappable-build-refused:" + type(e).__name__)
        return
    ctx.count("mappable_builds_checked")
    byname = {str(q): q for q in built.register.qubit_ids}
    for b, d in mon.shadow.items():
        for q, want in d.items():
            if q not in byname:
                continue
            got = float(built.current_phase_ref(byname[q], b))
            ctx.count("refs_compared_after_mappable_build")
            if want % (2 * math.pi) > 1e-9:
                ctx.count("nonzero_refs_compared_after_mappable_build")
            if wrap_diff(got, want) > 1e-9:
                ctx.violation("mappable-build-ref", f"after build(qubits=...) the reference of {q} in {b} is {got}, the "
                              f"shifts applied sum to {want % (2 * math.pi)}", "mappable-build-ref", case=r.prog)
                return
    d = timeline_diff(snapshot(r.seq), snapshot(built), tol=1e-12, check_flags=False)
    if d:
        ctx.violation("mappable-build-timeline", f"build(qubits=...) changed the timeline / phases: {d[:3]}",
                      "mappable-build-timeline", case=r.prog)
