"""C14 — output modulation is an area-preserving low-pass and fall times cover it."""
from __future__ import annotations

import math

import numpy as np

from vmon import gen, objs, prog
from vmon.ref import filter as F
from vmon.snap import arr, snapshot, state_key

LEVEL = "exploration"
RULE = ("six case families drawn per case: laws (Channel.modulate on delta / step / alternating-sign / random / constant / "
        "length-1 / very long (<= 20000) / real-waveform inputs x, y with coefficients a, b of both signs, 0, 1e-3, 1e3: "
        "linearity, integral, sign, maximum, output length, rise_time formula), tone (whole periods of a sine at the "
        "modulation bandwidth, least-squares amplitude 3 rise times away from both ends), ref (short inputs against the "
        "time-domain Gaussian of vmon.ref.filter), fall-wf (a pulse's amplitude and detuning waveform followed by 3 rise "
        "times of silence through Channel.modulate, bound checked from tf + Pulse.fall_time on), fall-seq (the same through "
        "a one-channel Sequence [delay, pulse, delay] or [delay, enable_eom_mode, add_eom_pulse, delay] and "
        "sample(seq, modulation=True)), prog (online-generated histories as in C06; at the end and once mid-history "
        "sample(seq, modulation=True) must succeed whenever sample(seq) does and every channel's arrays must have length "
        "get_duration(ch, include_fall_time=True)). Bandwidths 0.3-60 MHz (pool + log-uniform), EOM bandwidths 10-100 MHz. "
        "non-trivial = distinct (family / waveform kind, bandwidth bucket, duration bucket) in which the deciding monitor "
        "ran (for fall-*: the tail after the fall time reached 10% of the bound; for prog: a modulated channel with a "
        "pending fall time, an EOM block or an empty channel)")
RULE += " Later additions: metamorphic: a pulse on another channel ending shortly after P1 never makes P2 (another phase) start earlier than without it, nor inside P1's fall time."
ASSUMPTIONS = [
    "bandwidths <= 100 MHz: above, a Gaussian of that width is not representable on the 1-ns grid (its gain at the Nyquist "
    "frequency exceeds 1e-8) and sign/maximum tolerances are widened by that gain times sum|x|",
    "the reference is the linear time-domain convolution; what periodic images of the window may add is an interval "
    "(verdict only outside linear +- images + 1e-6*max|x|); agreement with the periodic form is reported as gray when it fails",
    "an isolated pulse is surrounded by zero input: in fall-seq the detuning is only checked when the pulse is preceded by "
    "a delay of 3 rise times (at the very start of a sequence the sampler holds the first detuning value before t=0); in "
    "EOM mode only the amplitude is checked (the detuning rests at detuning_off, not at zero)",
    "the 0.6%-of-peak figure is the Gaussian tail 0.48/bw beyond the padded window while the accounted rise time is "
    "int(0.48/bw*1e3): when the fall time is the full two rise times and 480/bw is not an integer, an excess confined to the "
    "first 2 ns after tf+fall_time is gray (observed up to 0.9% of the peak at 100 MHz, rise time 4 instead of 4.8 ns)",
    "the tail is observed for 3 rise times after the pulse (input time >= 2 rise times beyond tf+fall_time is < 1e-9 of the peak)",
    "prog: histories in which a raising call left a partial effect are set aside (C09 reports them); sequences whose plain "
    "sample(seq) raises are set aside (C06 reports them)",
]
TIERS = {"quick": dict(cases=10000, shards=8, case_timeout=120, shard_timeout=900),
         "thorough": dict(cases=100000, shards=16, case_timeout=120, shard_timeout=3000)}
_Q = {"linearity_checked": 1000, "area_checked": 2000, "sign_checked": 1300, "max_checked": 1300, "length_checked": 1000,
      "rise_time_checked": 1000, "tone_checked": 130, "reference_checked": 450, "tail_checked": 1700,
      "tail_checked:wf:det:std": 500, "tail_checked:wf:det:eom": 90, "tail_checked:seq:amp:eom": 90,
      "tail_checked:seq:det:std": 200, "modulated_sample_calls": 1400, "modulated_sample_calls_with_empty_channel": 600,
      "modulated_lengths_checked": 2200, "modulated_lengths_checked_with_bandwidth": 1100,
      "eom_block_outputs_compared": 200, "two_channel_separations_checked": 100, "keep_ends_checked:eom": 100,
      "per_atom_outputs_after_mode_change_checked": 80, "pushed_phase_jumps_checked": 200}
FLOORS = {"quick": _Q, "thorough": {k: 10 * v for k, v in _Q.items()}}

BW_POOL = [0.3, 0.5, 0.77, 1.3, 2.0, 4.0, 5.0, 8.0, 13.7, 20.0, 40.0, 60.0]
EOM_BW_POOL = [20.0, 24.0, 40.0, 100.0, 33.3, 10.0]
COEFS = [1.0, -1.0, 0.0, 2.5, -0.3, 1e3, 1e-3, -7.0]
LENGTHS = [1, 1, 2, 3, 5, 17, 64, 200, 200, 1000, 5000, 20000]
TWO_PI = 2 * math.pi
AMAX, DMAX = 10 * TWO_PI, 20 * TWO_PI
FAMILIES = {"laws": 30, "tone": 4, "ref": 14, "fall-wf": 18, "fall-seq": 12, "prog": 22, "eom-blocks": 3, "two-channels": 4}
PROG_WEIGHTS = {"sample": 0, "str": 0, "to_abstract_repr": 0, "build_copy": 0, "queries": 0, "measure": 0.05,
                "config_detuning_map": 1.5, "add_dmm_detuning": 3, "config_slm_mask": 0.6, "target": 2,
                "declare_channel": 2.5}


# ------------------------------------------------------------------------------------------ helpers
def draw_bw(rng, pool=BW_POOL, lo=0.3, hi=60.0) -> float:
    if rng.random() < 0.6:
        return gen.pick(rng, pool)
    return float(round(math.exp(rng.uniform(math.log(lo), math.log(hi))), 3))


def bw_bucket(bw) -> str:
    if bw is None:
        return "none"
    return "<1" if bw < 1 else "1-5" if bw < 5 else "5-20" if bw < 20 else "20-60" if bw <= 60 else ">60"


def dur_bucket(n: int) -> str:
    return "1" if n == 1 else "2-9" if n < 10 else "10-99" if n < 100 else "100-999" if n < 1000 else "1000+"


def channel_spec(rng, eom_p=0.35) -> dict:
    bw = draw_bw(rng)
    c = {"id": "rg", "cls": "Rydberg", "addr": "Global", "max_amp": AMAX, "max_abs_detuning": DMAX,
         "clock_period": 1, "min_duration": 1, "mod_bandwidth": bw}
    if rng.random() < eom_p:
        ebw = draw_bw(rng, EOM_BW_POOL, 10.0, 100.0)
        c["eom"] = {"mod_bandwidth": max(ebw, bw), "limiting_beam": gen.pick(rng, ["RED", "BLUE"]),
                    "max_limiting_amp": 30 * TWO_PI, "intermediate_detuning": 500 * TWO_PI,
                    "controlled_beams": gen.pick(rng, [["BLUE"], ["RED"], ["BLUE", "RED"]])}
    return c


def input_spec(rng, n: int, nonneg: bool) -> dict:
    k = gen.wchoice(rng, {"delta": 2, "step": 2, "alt": 2, "rand": 3, "const": 1, "wf": 3 if n <= 2000 else 0})
    a = gen.pick(rng, [1.0, 12.5, 0.01, 300.0, gen.r6(rng.uniform(0.1, 60))])
    if k == "delta":
        return {"k": k, "n": n, "pos": gen.pick(rng, [0, n - 1, rng.randrange(n)]), "a": a if nonneg else a * gen.pick(rng, [1, -1])}
    if k == "step":
        return {"k": k, "n": n, "at": rng.randrange(n + 1), "a": 0.0 if rng.random() < 0.5 else (a / 3 if nonneg else -a),
                "b": a}
    if k == "alt":
        return {"k": k, "n": n, "a": a, "block": gen.pick(rng, [1, 1, 2, 7, 50]), "nonneg": nonneg}
    if k == "rand":
        return {"k": k, "n": n, "seed": rng.getrandbits(31), "lo": 0.0 if nonneg else -a, "hi": a}
    if k == "const":
        return {"k": k, "n": n, "v": a if nonneg else a * gen.pick(rng, [1, -1])}
    return {"k": "wf", "n": n, "wf": gen.gen_wf(rng, n, 0.0 if nonneg else -a, a)}


def build_input(s: dict) -> np.ndarray:
    n, k = s["n"], s["k"]
    if k == "delta":
        x = np.zeros(n)
        x[s["pos"]] = s["a"]
    elif k == "step":
        x = np.full(n, float(s["b"]))
        x[: s["at"]] = s["a"]
    elif k == "alt":
        sign = np.where((np.arange(n) // s["block"]) % 2 == 0, 1.0, 0.0 if s["nonneg"] else -1.0)
        x = s["a"] * sign
    elif k == "rand":
        x = np.random.RandomState(s["seed"]).uniform(s["lo"], s["hi"], n)
    elif k == "const":
        x = np.full(n, float(s["v"]))
    else:
        x = arr(objs.build_wf(s["wf"]).samples)
    return np.asarray(x, dtype=float)


def in_kind(s: dict) -> str:
    return s["k"] if s["k"] != "wf" else "wf:" + s["wf"]["k"]


def modulate(ctx, ch, x, eom: bool, tag: str):
    """Channel.modulate with its exceptions turned into a verdict; returns a float array or None."""
    try:
        return arr(ch.modulate(x, eom=eom))
    except Exception as e:  # a finite input on a modulated channel: no law can hold
        ctx.violation("modulate-raises", f"Channel.modulate({tag}, eom={eom}) raised {type(e).__name__}: {str(e)[:200]}",
                      f"modulate-raises:{type(e).__name__}")
        return None


def mod_params(cspec: dict, eom: bool) -> float:
    return cspec["eom"]["mod_bandwidth"] if eom else cspec["mod_bandwidth"]


# ------------------------------------------------------------------------------------------ laws
def case_laws(ctx, rng):
    c = channel_spec(rng)
    eom = bool(c.get("eom")) and rng.random() < 0.4
    n = gen.pick(rng, LENGTHS)
    nonneg = rng.random() < 0.5
    xs, ys = input_spec(rng, n, nonneg), input_spec(rng, n, rng.random() < 0.5)
    a, b = gen.pick(rng, COEFS), gen.pick(rng, COEFS)
    ctx.case = {"family": "laws", "channel": c, "eom": eom, "x": xs, "y": ys, "a": a, "b": b}
    ctx.sample(ctx.case)
    ch = objs.build_channel(c)
    bw = mod_params(c, eom)
    x, y = build_input(xs), build_input(ys)
    if not (np.all(np.isfinite(x)) and np.all(np.isfinite(y))):
        ctx.count("input_nonfinite_skipped")   # C16 reports waveforms with non-finite samples
        return
    # ---- rise time ---------------------------------------------------------------------------
    tr = (ch.eom_config if eom else ch).rise_time
    cands = F.rise_times(bw)
    ctx.count("rise_time_checked")
    if tr not in cands:
        ctx.violation("rise-time", f"rise_time {tr} for bandwidth {bw} MHz, int(0.48/bw*1e3) = {sorted(cands)}",
                      "rise-time:" + ("eom" if eom else "std"))
        return
    if len(cands) > 1:
        ctx.gray("rise-time-at-integer-boundary")
    ox = modulate(ctx, ch, x, eom, "x")
    oy = modulate(ctx, ch, y, eom, "y")
    oz = modulate(ctx, ch, a * x + b * y, eom, "a*x+b*y")
    if ox is None or oy is None or oz is None:
        return
    kind = in_kind(xs)
    # ---- keep_ends=True (the ends are held instead of ramped from zero): same extension by one rise time of the
    #      bandwidth in use at each end, the signal stays where it is, a held constant stays that constant -----------
    try:
        ok = arr(ch.modulate(x, keep_ends=True, eom=eom))
    except Exception as e:
        ctx.violation("modulate-raises", f"Channel.modulate(x, keep_ends=True, eom={eom}) raised {type(e).__name__}: "
                      f"{str(e)[:200]}", f"modulate-raises:keep-ends:{type(e).__name__}")
        return
    ctx.count("keep_ends_checked")
    ctx.count("keep_ends_checked:" + ("eom" if eom else "std"))
    if len(ok) != n + 2 * tr:
        ctx.violation("length", f"len(modulate(x, keep_ends=True, eom={eom})) = {len(ok)} for len(x) = {n}, rise time in use "
                      f"{tr}: expected {n + 2 * tr}", "length:keep-ends:" + ("eom" if eom else "std"))
        return
    if n >= 1 and np.all(x == x[0]) and np.max(np.abs(ok - x[0])) > 1e-9 * (1 + abs(x[0])):
        ctx.violation("keep-ends", f"a constant {x[0]!r} held at both ends comes out as {ok[:3]}..{ok[-3:]}",
                      "keep-ends:constant")
        return
    # where the input (with held ends) is flat for three rise times around a point, both variants agree there
    if n > 8 * tr + 2 and np.all(x[: 4 * tr + 1] == 0) and np.all(x[-(4 * tr + 1):] == 0):
        if np.max(np.abs(ok - ox)) > 1e-6 * (1 + np.max(np.abs(x))):
            i = int(np.argmax(np.abs(ok - ox)))
            ctx.violation("keep-ends", f"for an input that is zero over 4 rise times at both ends, keep_ends=True differs from "
                          f"keep_ends=False at output index {i}: {ok[i]!r} vs {ox[i]!r}", "keep-ends:interior-shifted")
            return
    # ---- output length -------------------------------------------------------------------------
    ctx.count("length_checked")
    if len(ox) != n + 2 * tr:
        ctx.violation("length", f"len(modulate(x)) = {len(ox)} for len(x) = {n}, rise time {tr}: expected {n + 2 * tr}",
                      "length:" + ("eom" if eom else "std"))
        return
    # ---- linearity -----------------------------------------------------------------------------
    scale = abs(a) * np.max(np.abs(x)) + abs(b) * np.max(np.abs(y))
    ctx.count("linearity_checked")
    err = float(np.max(np.abs(oz - (a * ox + b * oy))))
    if err > 1e-9 * scale + 1e-300:
        ctx.violation("linearity", f"|mod(ax+by) - a mod(x) - b mod(y)| = {err:.3e} > 1e-9 * {scale:.3e} "
                      f"(a={a}, b={b}, n={n}, bw={bw})", "linearity")
    # ---- integral ------------------------------------------------------------------------------
    for nm, inp, out in (("x", x, ox), ("y", y, oy)):
        ctx.count("area_checked")
        s1 = float(np.sum(np.abs(inp)))
        d = abs(float(np.sum(out)) - float(np.sum(inp)))
        if d > 1e-9 * s1 + 1e-300:
            ctx.violation("area", f"sum mod({nm}) - sum {nm} = {d:.3e} > 1e-9 * sum|{nm}| = {1e-9 * s1:.3e} (n={n}, bw={bw})",
                          "area")
        # ---- sign / maximum ---------------------------------------------------------------------
        slack = 2 * F.alias_level(bw) * s1
        mx, mn = float(np.max(inp)), float(np.min(inp))
        if mn >= 0:
            ctx.count("sign_checked")
            ctx.count("max_checked")
            if float(np.min(out)) < -1e-9 * mx - slack:
                ctx.violation("sign", f"non-negative input (max {mx}) gives output {float(np.min(out))!r} (n={n}, bw={bw})",
                              "negative-output:" + in_kind(xs if nm == "x" else ys).split(":")[0])
            if float(np.max(out)) > mx + 1e-9 * max(1.0, mx) + slack:
                ctx.violation("max", f"output maximum {float(np.max(out))!r} above input maximum {mx!r} (n={n}, bw={bw})",
                              "overshoot:" + in_kind(xs if nm == "x" else ys).split(":")[0])
        else:
            # implied by linearity + the two clauses: the output stays inside [min(min x, 0), max(max x, 0)]
            ctx.count("envelope_checked")
            tol = 1e-9 * max(1.0, float(np.max(np.abs(inp)))) + slack
            if float(np.max(out)) > max(mx, 0.0) + tol or float(np.min(out)) < min(mn, 0.0) - tol:
                ctx.violation("max", f"output range [{float(np.min(out))!r}, {float(np.max(out))!r}] leaves the input range "
                              f"[{min(mn, 0.0)!r}, {max(mx, 0.0)!r}] (n={n}, bw={bw})", "overshoot:signed-input")
    ctx.mark_nontrivial(("laws", kind, bw_bucket(bw), dur_bucket(n), "eom" if eom else "std"))


# ------------------------------------------------------------------------------------------ tone
def case_tone(ctx, rng):
    c = channel_spec(rng)
    eom = bool(c.get("eom")) and rng.random() < 0.4
    bw = mod_params(c, eom)
    amp = gen.pick(rng, [1.0, 0.02, 15.0, gen.r6(rng.uniform(0.1, 60))])
    phase = gen.pick(rng, [0.0, 1.0, math.pi / 2, gen.r6(rng.uniform(0, TWO_PI))])
    ctx.case = {"family": "tone", "channel": c, "eom": eom, "amp": amp, "phase": phase}
    ctx.sample(ctx.case)
    ch = objs.build_channel(c)
    tr = (ch.eom_config if eom else ch).rise_time
    n = F.tone_length(bw, tr)
    x = F.tone(n, bw, amp, phase)
    out = modulate(ctx, ch, x, eom, "tone")
    if out is None or len(out) != n + 2 * tr:
        if out is not None:
            ctx.violation("length", f"len(modulate(tone)) = {len(out)}, expected {n + 2 * tr}", "length:" + ("eom" if eom else "std"))
        return
    idx = np.arange(4 * tr, n - 2 * tr)          # input times [3 tr, n - 3 tr)
    a_out, res = F.fit_tone(out[idx], (idx - tr).astype(float), bw)
    ctx.count("tone_checked")
    ratio = a_out / amp
    if abs(ratio - 0.5) > 1e-3:
        ctx.violation("tone", f"a tone at the bandwidth {bw} MHz comes out with relative amplitude {ratio!r} (expected 0.5 +- 1e-3)",
                      "tone-gain:" + ("eom" if eom else "std"))
    elif res > 1e-3 * amp:
        ctx.gray("tone-residual")
    ctx.mark_nontrivial(("tone", bw_bucket(bw), dur_bucket(n), "eom" if eom else "std"))


# ------------------------------------------------------------------------------------------ time-domain reference
def case_ref(ctx, rng):
    c = channel_spec(rng)
    eom = bool(c.get("eom")) and rng.random() < 0.4
    bw = mod_params(c, eom)
    n = gen.pick(rng, [1, 1, 2, 3, 5, 17, 64, 120, 300])
    xs = input_spec(rng, n, rng.random() < 0.4)
    ctx.case = {"family": "ref", "channel": c, "eom": eom, "x": xs}
    ctx.sample(ctx.case)
    ch = objs.build_channel(c)
    x = build_input(xs)
    if not np.all(np.isfinite(x)):
        ctx.count("input_nonfinite_skipped")
        return
    tr = (ch.eom_config if eom else ch).rise_time
    out = modulate(ctx, ch, x, eom, "x")
    if out is None:
        return
    if len(out) != n + 2 * tr:
        ctx.violation("length", f"len(modulate(x)) = {len(out)} for len(x) = {n}, rise time {tr}", "length:" + ("eom" if eom else "std"))
        return
    lin, per, img = F.lowpass(x, bw, tr)
    tol = 1e-6 * float(np.max(np.abs(x))) + 1e-300
    ctx.count("reference_checked")
    dev = np.abs(out - lin) - img
    if float(np.max(dev)) > tol:
        i = int(np.argmax(dev))
        ctx.violation("reference", f"modulate(x)[{i}] = {out[i]!r}, time-domain Gaussian gives {lin[i]!r} (+- {img[i]:.3e} for "
                      f"periodic images), n={n}, bw={bw}", "reference:" + ("eom" if eom else "std"))
    elif float(np.max(np.abs(out - per))) > tol:
        ctx.gray("not-the-periodic-form")
    else:
        ctx.count("reference_periodic_form_matched")
    ctx.mark_nontrivial(("ref", in_kind(xs), bw_bucket(bw), dur_bucket(n), "eom" if eom else "std"))


# ------------------------------------------------------------------------------------------ fall time
def fall_pulse(rng, c: dict, d: int) -> dict:
    mode = gen.wchoice(rng, {"plain": 5, "no-amp": 3, "small-amp": 1, "asym-amp": 2 if d >= 2 else 0})
    p = gen.gen_pulse(rng, c, d=d, arb=0, pps_p=0)
    if mode == "asym-amp":
        # amplitude that starts near zero and is cut at a high value, or the reverse: its buffers before and after
        # the pulse differ, and only the one after matters for the fall time
        A = gen.r6(AMAX * gen.pick(rng, [0.02, 0.1, 0.5, 1.0]))
        lo_, hi_ = (0.0, A) if rng.random() < 0.7 else (A, 0.0)
        p["amp"] = gen.pick(rng, [{"k": "ramp", "d": d, "a": lo_, "b": hi_},
                                  {"k": "interp", "d": d, "values": [lo_, (lo_ + hi_) / 4, hi_]} if d >= 3 else
                                  {"k": "ramp", "d": d, "a": lo_, "b": hi_},
                                  {"k": "custom", "samples": [gen.r6(lo_ + (hi_ - lo_) * (i / (d - 1)) ** 2) for i in range(d)]}])
        p["det"] = {"k": "const", "d": d, "v": gen.pick(rng, [0.0, 0.0, 1.0])}
        p["phase"] = 0.0
        return p
    if mode != "plain" and d >= 2 and rng.random() < 0.3:
        # two-level detuning of alternating sign (the DESIGN's alternating-sign inputs, as a real waveform)
        d1 = rng.randint(1, d - 1)
        v1, v2 = gen.r6(DMAX * rng.random()), gen.r6(DMAX * rng.random())
        sg = gen.pick(rng, [1, -1])
        p["amp"] = {"k": "const", "d": d, "v": 0.0 if mode == "no-amp" else 0.005}
        p["det"] = {"k": "composite", "parts": [{"k": "const", "d": d1, "v": -sg * v1}, {"k": "const", "d": d - d1, "v": sg * v2}]}
    elif mode != "plain":
        p["amp"] = {"k": "const", "d": d, "v": 0.0 if mode == "no-amp" else 0.005}
        p["det"] = gen.gen_wf(rng, d, -DMAX, DMAX, {"const": 1, "ramp": 2, "custom": 2, "interp": 1.5, "composite": 3,
                                                    "blackman": 1, "kaiser": 0.5})
    p["phase"] = 0.0
    return p


def check_tail(ctx, out: np.ndarray, t0: int, t1: int, peak: float, what: str, sign: str, mode: str, route: str,
               kinds: tuple, bw: float, d: int, saturated: bool) -> None:
    """|out[t]| <= max(0.01, 0.006 peak) for t in [t0, t1)."""
    seg = np.abs(out[t0:t1])
    if not len(seg):
        return
    bound = F.tail_bound(peak)
    ctx.count("tail_checked")
    ctx.count(f"tail_checked:{route}:{what}:{mode}")
    worst = float(np.max(seg))
    if worst > 0.9 * bound:
        ctx.count("tail_within_10pct_of_bound")
    if worst >= 0.1 * bound:
        ctx.mark_nontrivial(("fall", what, kinds[0 if what == "amp" else 1], bw_bucket(bw), dur_bucket(d), mode))
    if worst > bound + 1e-12:
        # The 0.6% figure is the Gaussian tail 0.48/bw beyond the padded window; the accounted rise time is that value
        # truncated to whole ns (int(0.48/bw*1e3), itself part of the statement), so when the fall time is the full two
        # rise times it may be up to 2 ns short of 2*0.48/bw: an excess confined to those 2 ns gives no verdict.
        if saturated and F.truncation(bw) > 0 and float(np.max(seg[2:], initial=0.0)) <= bound + 1e-12:
            ctx.gray("fall-time:rise-time-truncated-to-whole-ns")
            return
        i = t0 + int(np.argmax(seg))
        ctx.violation("fall-time", f"{route}: {what} output is {out[i]!r} at t = {i} ns, {i - t0} ns after tf + fall_time = {t0}; "
                      f"bound max(0.01, 0.006*{peak:.6g}) = {bound:.6g} ({mode} bw={bw}, duration={d}, input signs: {sign}, "
                      f"fall time {'= 2 rise times' if saturated else '< 2 rise times'})",
                      f"tail-above-bound:{what}:{sign}:{'saturated' if saturated else 'threshold'}")


def case_fall_wf(ctx, rng):
    c = channel_spec(rng)
    eom = bool(c.get("eom")) and rng.random() < 0.4
    bw = mod_params(c, eom)
    d = gen.pick(rng, [1, 2, 3, 4, 5, 8, 16, 30, 60, 100, 250, 600, rng.randint(4, 400)])
    p = fall_pulse(rng, c, d)
    ctx.case = {"family": "fall-wf", "channel": c, "eom": eom, "pulse": p}
    ctx.sample(ctx.case)
    ch = objs.build_channel(c)
    try:
        pulse = objs.build_pulse(p)
        xa, xd = arr(pulse.amplitude.samples), arr(pulse.detuning.samples)
    except Exception:
        ctx.count("pulse_not_built")
        return
    if not (np.all(np.isfinite(xa)) and np.all(np.isfinite(xd))):
        ctx.count("input_nonfinite_skipped")
        return
    tr = (ch.eom_config if eom else ch).rise_time
    try:
        fall = int(pulse.fall_time(ch, in_eom_mode=eom))
    except Exception as e:
        ctx.violation("fall-time-raises", f"Pulse.fall_time raised {type(e).__name__}: {str(e)[:200]}",
                      f"fall-time-raises:{type(e).__name__}")
        return
    K = 3 * tr
    kinds = (p["amp"]["k"], p["det"]["k"])
    for what, x in (("amp", xa), ("det", xd)):
        out = modulate(ctx, ch, np.pad(x, (0, K)), eom, what)
        if out is None:
            return
        # sequence frame: output index = time since the start of the pulse; window ends 2 rise times before the
        # end of the array so that periodic images of the pulse are >= 3 rise times away
        check_tail(ctx, out, d + fall, d + K, float(np.max(np.abs(x))), what, F.sign_pattern(x), "eom" if eom else "std",
                   "wf", kinds, bw, d, fall >= 2 * tr)


def case_fall_seq(ctx, rng):
    c = channel_spec(rng, eom_p=0.5)
    eom = bool(c.get("eom")) and rng.random() < 0.5
    bw = mod_params(c, eom)
    tr_std = F.rise_time(c["mod_bandwidth"])
    tr = F.rise_time(bw)
    dev = {"kind": "virtual", "name": "FallDev", "dimensions": 2, "rydberg_level": 70, "min_atom_distance": 1,
           "max_atom_num": None, "max_radial_distance": None, "channels": [c], "dmm": []}
    reg = {"kind": "reg", "ids": ["q0"], "coords": [[0.0, 0.0]]}
    r = prog.Runner(ctx, dev, reg, [], meta={"family": "fall-seq"})
    ctx.sample(r.prog)
    d = gen.pick(rng, [1, 2, 3, 4, 5, 8, 16, 30, 60, 100, 250, rng.randint(4, 300)])
    lead = 3 * max(tr, tr_std) if rng.random() < 0.8 else 0
    K = 3 * max(tr, tr_std) + rng.randint(1, 20)
    ops = [{"op": "declare_channel", "name": "ch", "ch_id": "rg"}]
    if lead:
        ops.append({"op": "delay", "duration": lead, "ch": "ch"})
    if eom:
        ops.append({"op": "enable_eom_mode", "ch": "ch", "amp_on": gen.r6(AMAX * gen.pick(rng, [0.1, 0.5, 1.0, rng.random()])),
                    "detuning_on": gen.pick(rng, [0.0, 1.0, -2.0])})
        ops.append({"op": "add_eom_pulse", "ch": "ch", "duration": d, "phase": 0.0})
        kinds = ("const", "const")
    else:
        p = fall_pulse(rng, c, d)
        ops.append({"op": "add", "pulse": p, "ch": "ch"})
        kinds = (p["amp"]["k"], p["det"]["k"])
    ops.append({"op": "delay", "duration": K, "ch": "ch"})
    s = None
    for op in ops:
        ev = r.step(op)
        if ev.exc is not None:
            ctx.count("fall_seq_setup_refused")   # e.g. detuning_off outside the channel's range: not this clause
            return
        if op["op"] in ("add", "add_eom_pulse"):
            s = ev.post["chans"]["ch"]["slots"][-1]
    snap = snapshot(r.seq)
    if s is None or s["pulse"] is None:
        ctx.count("fall_seq_setup_refused")
        return
    pulse, tf = s["pulse"], s["tf"]
    xa, xd = arr(pulse.amplitude.samples), arr(pulse.detuning.samples)
    if not (np.all(np.isfinite(xa)) and np.all(np.isfinite(xd))):
        ctx.count("input_nonfinite_skipped")
        return
    from pulser.sampler import sample

    ch_obj = snap["chans"]["ch"]["obj"]
    try:
        fall = int(pulse.fall_time(ch_obj, in_eom_mode=eom))
        sm = sample(r.seq, modulation=True).channel_samples["ch"]
    except Exception as e:
        ctx.violation("modulated-sample-raises", f"one-pulse sequence: {type(e).__name__}: {str(e)[:200]}",
                      f"modulated-sample-raises:{type(e).__name__}")
        return
    end = tf + K
    mode = "eom" if eom else "std"
    check_tail(ctx, arr(sm.amp), tf + fall, end, float(np.max(np.abs(xa))), "amp", F.sign_pattern(xa), mode, "seq", kinds, bw,
               tf - s["ti"], fall >= 2 * tr)
    if not eom and lead:
        check_tail(ctx, arr(sm.det), tf + fall, end, float(np.max(np.abs(xd))), "det", F.sign_pattern(xd), mode, "seq", kinds,
                   bw, tf - s["ti"], fall >= 2 * tr)
    # ---- the same output as handed to the atom (per-target view), also after the channel went on into EOM mode: each
    #      pulse keeps the fall time of the mode it was played in ---------------------------------------------------
    if not eom and c.get("eom"):
        ev = r.step({"op": "enable_eom_mode", "ch": "ch", "amp_on": gen.r6(AMAX * 0.3), "detuning_on": 0.0})
        if ev.exc is not None:
            ctx.count("fall_seq_setup_refused")
            return
        try:
            full = sample(r.seq, modulation=True)
            cha = arr(full.channel_samples["ch"].amp)
            per = arr(full.to_nested_dict(all_local=True)["Local"]["ground-rydberg"]["q0"]["amp"])
        except Exception as e:
            ctx.violation("modulated-sample-raises", f"pulse then EOM mode: {type(e).__name__}: {str(e)[:200]}",
                          f"modulated-sample-raises:{type(e).__name__}")
            return
        ctx.count("per_atom_outputs_after_mode_change_checked")
        m = min(len(cha), len(per), tf + fall)
        lo_ = s["ti"]  # (the per-target view starts at the pulse's start: the rise before it is not attributed)
        if m < tf + fall or np.max(np.abs(cha[lo_:m] - per[lo_:m]), initial=0.0) > 1e-9 * (1 + np.max(np.abs(cha))):
            i = lo_ + int(np.argmax(np.abs(cha[lo_:m] - per[lo_:m]))) if m > lo_ else 0
            ctx.violation("fall-time", f"after enable_eom_mode the output of the earlier standard pulse handed to the atom differs "
                          f"from the channel's at t = {i} ns: {per[i]!r} vs {cha[i]!r} (pulse ends at {tf}, accounted fall "
                          f"time {fall})", "per-atom-output-cut-after-mode-change")


def case_eom_blocks(ctx, rng):
    """Two to three identical EOM blocks (enable, one pulse, disable, rest) on one channel: the modulated output
    around each pulse - from its rise to the end of its accounted fall time - is the same for every block, whichever
    comes last (the sampler handles each block's tail, not only the final one's)."""
    c = channel_spec(rng, eom_p=1.0)
    tr_std, tr = F.rise_time(c["mod_bandwidth"]), F.rise_time(c["eom"]["mod_bandwidth"])
    dev = {"kind": "virtual", "name": "FallDev", "dimensions": 2, "rydberg_level": 70, "min_atom_distance": 1,
           "max_atom_num": None, "max_radial_distance": None, "channels": [c], "dmm": []}
    reg = {"kind": "reg", "ids": ["q0"], "coords": [[0.0, 0.0]]}
    r = prog.Runner(ctx, dev, reg, [], meta={"family": "eom-blocks"})
    ctx.sample(r.prog)
    d = gen.pick(rng, [4, 16, 30, 60, 100, 250])
    rest = 3 * max(tr, tr_std) + rng.randint(1, 20)
    amp_on = gen.r6(AMAX * gen.pick(rng, [0.1, 0.5, 1.0]))
    det_on = gen.pick(rng, [0.0, 1.0, -2.0])
    nblocks = rng.randint(2, 3)
    ops = [{"op": "declare_channel", "name": "ch", "ch_id": "rg"}, {"op": "delay", "duration": rest, "ch": "ch"}]
    for _ in range(nblocks):
        ops += [{"op": "enable_eom_mode", "ch": "ch", "amp_on": amp_on, "detuning_on": det_on},
                {"op": "add_eom_pulse", "ch": "ch", "duration": d, "phase": 0.0},
                {"op": "disable_eom_mode", "ch": "ch"}, {"op": "delay", "duration": rest, "ch": "ch"}]
    for op in ops:
        ev = r.step(op)
        if ev.exc is not None:
            ctx.count("eom_blocks_setup_refused")
            return
    snap = snapshot(r.seq)
    pulses = [s for s in snap["chans"]["ch"]["slots"] if s["kind"] == "pulse"]
    if len(pulses) != nblocks:
        ctx.count("eom_blocks_setup_refused")
        return
    from pulser.sampler import sample
    try:
        out = arr(sample(r.seq, modulation=True).channel_samples["ch"].amp)
        fall = int(pulses[0]["pulse"].fall_time(snap["chans"]["ch"]["obj"], in_eom_mode=True))
    except Exception as e:
        ctx.violation("modulated-sample-raises", f"{nblocks} EOM blocks: {type(e).__name__}: {str(e)[:200]}",
                      f"modulated-sample-raises:{type(e).__name__}")
        return
    segs = [out[p["ti"]: p["tf"] + fall] for p in pulses]
    ctx.count("eom_block_outputs_compared", len(segs) - 1)
    ctx.mark_nontrivial(("eom-blocks", bw_bucket(c["eom"]["mod_bandwidth"]), dur_bucket(d), nblocks))
    for k, sg in enumerate(segs[:-1]):
        if len(sg) != len(segs[-1]) or float(np.max(np.abs(sg - segs[-1]))) > 1e-9 * (1 + amp_on):
            i = int(np.argmax(np.abs(sg - segs[-1]))) if len(sg) == len(segs[-1]) else -1
            ctx.violation("eom-block-tail", f"the modulated output of the EOM pulse of block {k + 1} differs from that of the "
                          f"identical last block {nblocks}: at {i} ns after the pulse start {sg[i]!r} vs {segs[-1][i]!r} "
                          f"(pulse {d} ns, accounted fall time {fall} ns)", "eom-block-outputs-differ")
            return


def case_two_channels(ctx, rng):
    """Two global channels on one atom, each with its own bandwidth / EOM and in its own mode: a pulse added with
    'min-delay' / 'wait-for-all' on one starts only when the output of the other's last pulse is down."""
    ca, cb = channel_spec(rng, eom_p=0.7), channel_spec(rng, eom_p=0.7)
    ca["id"], cb["id"] = "rga", "rgb"
    dev = {"kind": "virtual", "name": "TwoDev", "dimensions": 2, "rydberg_level": 70, "min_atom_distance": 1,
           "max_atom_num": None, "max_radial_distance": None, "channels": [ca, cb], "dmm": []}
    reg = {"kind": "reg", "ids": ["q0"], "coords": [[0.0, 0.0]]}
    r = prog.Runner(ctx, dev, reg, [], meta={"family": "two-channels"})
    ctx.sample(r.prog)
    a_eom = bool(ca.get("eom")) and rng.random() < 0.4
    b_eom = bool(cb.get("eom")) and rng.random() < 0.6
    d = gen.pick(rng, [4, 16, 60, 100, 250])
    lead = 3 * max(F.rise_time(ca["mod_bandwidth"]), F.rise_time(cb["mod_bandwidth"]))
    ops = [{"op": "declare_channel", "name": "a", "ch_id": "rga"}, {"op": "declare_channel", "name": "b", "ch_id": "rgb"},
           {"op": "delay", "duration": lead, "ch": "a"}]
    if a_eom:
        ops += [{"op": "enable_eom_mode", "ch": "a", "amp_on": gen.r6(AMAX * gen.pick(rng, [0.2, 1.0])), "detuning_on": 0.0},
                {"op": "add_eom_pulse", "ch": "a", "duration": d, "phase": 0.0}]
    else:
        ops.append({"op": "add", "pulse": fall_pulse(rng, ca, d), "ch": "a"})
    proto = gen.pick(rng, ["min-delay", "wait-for-all"])
    if b_eom:
        ops += [{"op": "enable_eom_mode", "ch": "b", "amp_on": gen.r6(AMAX * gen.pick(rng, [0.2, 1.0])), "detuning_on": 0.0},
                {"op": "add_eom_pulse", "ch": "b", "duration": gen.pick(rng, [16, 100]), "phase": 0.0, "protocol": proto}]
    else:
        ops.append({"op": "add", "pulse": fall_pulse(rng, cb, gen.pick(rng, [16, 100])), "ch": "b", "protocol": proto})
    for op in ops:
        ev = r.step(op)
        if ev.exc is not None:
            ctx.count("two_channels_setup_refused")
            return
    snap = snapshot(r.seq)
    pa = next((s for s in reversed(snap["chans"]["a"]["slots"]) if s["kind"] in ("pulse", "ddelay") and s["pulse"] is not None
               and np.any(arr(s["pulse"].amplitude.samples))), None)
    pb = next((s for s in reversed(snap["chans"]["b"]["slots"]) if s["kind"] == "pulse"), None)
    if pa is None or pb is None:
        ctx.count("two_channels_setup_refused")
        return
    xa = arr(pa["pulse"].amplitude.samples)
    if not np.all(np.isfinite(xa)):
        ctx.count("input_nonfinite_skipped")
        return
    from pulser.sampler import sample
    T = pb["tf"] + 10
    try:
        out = arr(sample(r.seq, modulation=True, extended_duration=T).channel_samples["a"].amp)
    except Exception as e:
        ctx.violation("modulated-sample-raises", f"two channels: {type(e).__name__}: {str(e)[:200]}",
                      f"modulated-sample-raises:{type(e).__name__}")
        return
    bw = mod_params(ca, a_eom)
    ctx.count("two_channel_separations_checked")
    ctx.count(f"two_channel_separations:{'eom' if a_eom else 'std'}-then-{'eom' if b_eom else 'std'}")
    fall = int(pa["pulse"].fall_time(snap["chans"]["a"]["obj"], in_eom_mode=a_eom))
    check_tail(ctx, out, pb["ti"], min(len(out), T), float(np.max(np.abs(xa))), "amp", F.sign_pattern(xa),
               "eom" if a_eom else "std", "two-channels", (pa["pulse"].amplitude.__class__.__name__, "const"), bw,
               pa["tf"] - pa["ti"], fall >= 2 * F.rise_time(bw))


# ------------------------------------------------------------------------------------------ generated programs
def eom_buffer_bw(obj) -> float:
    """Bandwidth whose rise time is half the EOM buffer time (public fields only): 0.48 / (buffer/2 * 1e-3) MHz."""
    e = getattr(obj, "eom_config", None)
    if e is None or not getattr(obj, "mod_bandwidth", None):
        return 0.0
    buf = e.custom_buffer_time if e.custom_buffer_time else 2 * F.rise_time(obj.mod_bandwidth)
    return 0.48 / (buf / 2 * 1e-3) if buf else math.inf


class ModMonitor(prog.Monitor):
    def __init__(self, ctx):
        self.ctx = ctx
        self.tainted = False

    def after(self, r, ev) -> None:
        if ev.exc is not None and ev.stage == "call" and state_key(ev.pre) != state_key(ev.post):
            self.tainted = True

    def end(self, r) -> None:
        self.check(r)

    def check(self, r) -> None:
        ctx, seq = self.ctx, r.seq
        if self.tainted:
            ctx.count("discarded_after_C09")
            return
        snap = snapshot(seq)
        if not snap["flags"]["building"] or not snap["chans"]:
            return
        from pulser.sampler import sample

        if seq.is_register_mappable() and any(c["detmap"] is not None for c in snap["chans"].values()):
            return  # documented: DMM + mappable register cannot be sampled
        try:
            sample(seq)
        except Exception:
            ctx.count("plain_sample_raises")
            return
        chans = snap["chans"]
        empty = [n for n, c in chans.items() if (c["slots"][-1]["tf"] if c["slots"] else 0) == 0]
        empty_mod = [n for n in empty if getattr(chans[n]["obj"], "mod_bandwidth", None)]
        ctx.count("modulated_sample_calls")
        if empty:
            ctx.count("modulated_sample_calls_with_empty_channel")
        try:
            mm = sample(seq, modulation=True)
        except Exception as e:
            if empty_mod and isinstance(e, ValueError) and "empty" in str(e):
                mech = "modulated-sample-raises:empty-channel"
            elif "mod_bandwidth" in str(e) and any(c["eom"] and eom_buffer_bw(c["obj"]) > 480.0 for c in chans.values()):
                mech = "modulated-sample-raises:eom-buffer-bandwidth>480MHz"
            else:
                mech = f"modulated-sample-raises:{type(e).__name__}"
            ctx.violation("modulated-sample-raises", f"sample(seq) succeeds but sample(seq, modulation=True) raises "
                          f"{type(e).__name__}: {str(e)[:200]} (channels of duration 0: {empty}, with a bandwidth: {empty_mod})",
                          mech)
            ctx.mark_nontrivial(("prog", "empty-channel"))
            return
        for n, c in chans.items():
            obj = c["obj"]
            try:
                want = int(seq.get_duration(n, include_fall_time=True))
                plain = int(seq.get_duration(n))
            except Exception as e:
                ctx.violation("get-duration-raises", f"get_duration({n}, include_fall_time=True) raised {e!r}",
                              f"get-duration-raises:{type(e).__name__}")
                continue
            cs = mm.channel_samples[n]
            got = (len(arr(cs.amp)), len(arr(cs.det)), len(arr(cs.phase)))
            ctx.count("modulated_lengths_checked")
            bw = getattr(obj, "mod_bandwidth", None)
            if bw:
                ctx.count("modulated_lengths_checked_with_bandwidth")
            # the channel duration including fall time, recomputed from the timeline (end of the last instruction
            # or the end of the last pulse plus its accounted fall time; interval in EOM gray cases)
            from vmon.seqmon import pending_fall_bounds
            lo, hi = pending_fall_bounds(c)
            if not (lo <= got[0] <= hi):
                ctx.violation("modulated-length", f"{n}: modulated samples end at {got[0]} but the channel lasts "
                              f"{lo}{'' if lo == hi else '..' + str(hi)} ns including the last pulse's fall time "
                              f"(get_duration(..., include_fall_time=True) = {want})",
                              "modulated-length-vs-timeline:" + ("eom" if c["eom"] else "std"))
            if got != (want,) * 3:
                ctx.violation("modulated-length", f"{n}: modulated amp/det/phase lengths {got}, "
                              f"get_duration({n}, include_fall_time=True) = {want} (without fall time {plain})",
                              "modulated-length:" + ("eom" if c["eom"] else "std") + (":dmm" if c["detmap"] is not None else ""))
            if bw and (want > plain or c["eom"]):
                ctx.mark_nontrivial(("prog", type(obj).__name__, bw_bucket(bw), dur_bucket(max(want, 1)),
                                     "eom" if c["eom"] else "fall"))


def case_prog(ctx, rng):
    xy = rng.random() < 0.15
    dev, reg = gen.header(rng, xy=xy, max_seq=0.05)
    mon = ModMonitor(ctx)
    r = prog.Runner(ctx, dev, reg, [mon], meta={"family": "prog"})
    g = gen.ProgGen(rng, dev, reg, r.chspecs, weights=PROG_WEIGHTS)
    n = rng.randint(4, 30)
    for i in range(n):
        op = g.next_op()
        ev = r.step(op)
        g.update(op, ev.exc is None)
        if i == n // 2:
            mon.check(r)
    r.finish()
    ctx.sample(r.prog)


def case_pushed_phase_jump(ctx, rng):
    """One channel plays P1 and then P2 of another phase (P2 waits for P1's fall time and the phase-jump time); in a
    second copy a pulse on ANOTHER channel sharing the atom ends shortly after P1, pushing P2 back by less than that
    wait. An extra constraint can only delay P2: it never starts earlier than in the first copy, nor before P1's
    fall time has elapsed."""
    ca, cb = channel_spec(rng, eom_p=0.0), channel_spec(rng, eom_p=0.0)
    ca["id"], cb["id"] = "rga", "rgb"
    if rng.random() < 0.6:
        ca["custom_phase_jump_time"] = gen.pick(rng, [0, 0, 8, 40])
    dev = {"kind": "virtual", "name": "TwoDev", "dimensions": 2, "rydberg_level": 70, "min_atom_distance": 1,
           "max_atom_num": None, "max_radial_distance": None, "channels": [ca, cb], "dmm": []}
    reg = {"kind": "reg", "ids": ["q0"], "coords": [[0.0, 0.0]]}
    d1, d2 = gen.pick(rng, [16, 60, 100]), gen.pick(rng, [16, 52])
    proto = gen.pick(rng, ["min-delay", "wait-for-all"])
    p1 = fall_pulse(rng, ca, d1)
    p2 = dict(gen.gen_pulse(rng, ca, d=d2, arb=0, pps_p=0), phase=gen.pick(rng, [1.0, math.pi, 4.5]))
    rise_a = F.rise_time(ca["mod_bandwidth"])
    push = gen.pick(rng, [1, max(1, rise_a // 2), rise_a, 2 * rise_a, 3 * rise_a])  # how far behind P1's end the other pulse ends
    starts = {}
    for variant in ("alone", "pushed"):
        r = prog.Runner(ctx, dev, reg, [], meta={"family": "pushed-phase-jump", "variant": variant})
        ops = [{"op": "declare_channel", "name": "a", "ch_id": "rga"}, {"op": "declare_channel", "name": "b", "ch_id": "rgb"},
               {"op": "delay", "duration": 16, "ch": "a"}, {"op": "add", "pulse": p1, "ch": "a"}]
        if variant == "pushed":
            # b's pulse: zero amplitude, constant zero detuning (no fall time of its own), ending `push` ns after P1
            ops += [{"op": "delay", "duration": 16 + d1 + push - 4, "ch": "b"},
                    {"op": "add", "pulse": {"amp": {"k": "const", "d": 4, "v": 0.0}, "det": {"k": "const", "d": 4, "v": 0.0},
                                            "phase": 0.0}, "ch": "b", "protocol": "no-delay"}]
        ops.append({"op": "add", "pulse": p2, "ch": "a", "protocol": proto})
        for op in ops:
            if r.step(op).exc is not None:
                ctx.count("pushed_phase_jump_setup_refused")
                return
        if variant == "pushed":
            ctx.sample(r.prog)
        sl = [s for s in snapshot(r.seq)["chans"]["a"]["slots"] if s["kind"] == "pulse"]
        if len(sl) < 2:
            ctx.count("pushed_phase_jump_setup_refused")
            return
        starts[variant] = (sl[-2]["tf"], sl[-1]["ti"], int(sl[-2]["pulse"].fall_time(r.seq.declared_channels["a"])))
    (tf1, s_alone, fall), (_, s_pushed, _) = starts["alone"], starts["pushed"]
    ctx.count("pushed_phase_jumps_checked")
    if tf1 + push > s_alone:
        ctx.count("pushed_phase_jumps_where_the_other_pulse_decides")
    if s_pushed < s_alone or s_pushed < tf1 + fall:
        ctx.violation("separation", f"P2 (another phase, {proto}) starts at {s_alone} after P1 (end {tf1}, fall time {fall}) on "
                      f"its own, but at {s_pushed} when a pulse on another channel ending at {tf1 + push} has to be waited "
                      f"for as well (bandwidth {ca['mod_bandwidth']}, custom phase-jump time {ca.get('custom_phase_jump_time')})",
                      "phase-jump-wait-shortened-by-other-channel")


CASES = {"laws": case_laws, "tone": case_tone, "ref": case_ref, "fall-wf": case_fall_wf, "fall-seq": case_fall_seq,
         "prog": case_prog, "eom-blocks": case_eom_blocks, "two-channels": case_two_channels}


def run_case(ctx, idx, rng, tier):
    if idx % 25 == 7:
        ctx.count("cases:pushed-phase-jump")
        return case_pushed_phase_jump(ctx, rng)
    fam = gen.wchoice(rng, FAMILIES)
    ctx.count("cases:" + fam)
    CASES[fam](ctx, rng)
