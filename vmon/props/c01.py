"""C01 — every scheduled pulse respects the limits of its channel and device (and valid ones are accepted)."""
import math

from vmon import gen, prog
from vmon.limitsmon import LimitsMonitor

gen.INTERP_KW_P = 0.5  # interpolated waveforms with interpolator options too (this process runs C01 only)

LEVEL = "exploration"
RULE = ("histories on devices whose channels draw every optional limit independently as defined/undefined (max_duration "
        "also not a clock multiple, small device maximum duration); pulses are built *from* the limits: amplitude/detuning "
        "exactly at, one ulp / 4e-7 / 2e-6 inside and outside each limit, mean amplitude around min_avg_amp, durations "
        "{1,2,3,min-1,min,min+1,max-1,max,max+1,non-multiples}, non-finite samples; every newly scheduled pulse slot "
        "(incl. automatically inserted ones) is checked from its samples, and the 3-valued reference decides "
        "must-accept / must-reject before the call. non-trivial = distinct (case, call) with a pulse within 1e-5 "
        "(relative) of a limit, in a gray band, or with an auto-adjusted duration")
ASSUMPTIONS = ["detunings within 1e-6 above a limit are gray (documented rounding)",
               "completeness is asserted only in states where the typestate admits the call (C13) and the estimate of "
               "the auto-delay keeps the sequence within the device maximum",
               "cases in which a raising call left a partial effect are set aside (C09 reports them)"]
TIERS = {"quick": dict(cases=1500, shards=8, case_timeout=120, shard_timeout=900),
         "thorough": dict(cases=24000, shards=16, case_timeout=120, shard_timeout=3000)}
FLOORS = {"quick": {"scheduled_pulses_checked": 4000, "must_accept_checked": 2000, "must_reject_checked": 1500},
          "thorough": {"scheduled_pulses_checked": 60000}}
WEIGHTS = {"add": 14, "add_dmm_detuning": 4, "config_detuning_map": 2, "config_slm_mask": 0.6, "delay": 1.5,
           "align": 0.7, "phase_shift": 0.3, "measure": 0.02, "sample": 0, "str": 0, "to_abstract_repr": 0,
           "build_copy": 0, "queries": 0, "get_duration": 0, "estimate_added_delay": 0, "current_phase_ref": 0,
           "is_in_eom_mode": 0, "enable_eom_mode": 1.0, "add_eom_pulse": 2.0}
EPS = [0.0, 0.0, 4e-7, -4e-7, 6e-7, 2e-6, -2e-6, 1e-9, -1e-9, "up", "down"]


def near(rng, x: float) -> float:
    e = gen.pick(rng, EPS)
    if e == "up":
        return math.nextafter(x, math.inf)
    if e == "down":
        return math.nextafter(x, -math.inf)
    return x + e


def durations(rng, c: dict) -> int:
    mn, mx, clk = c.get("min_duration", 1), c.get("max_duration"), c.get("clock_period", 1)
    pool = [1, 2, 3, mn - 1, mn, mn + 1, mn + clk, 5 * clk, 5 * clk + 1, 12 * clk, 7 * clk - 1]
    if mx is not None and mx <= 3000:
        pool += [mx - 1, mx, mx + 1, mx - clk, (mx // clk) * clk]
        if clk > 1 and mx % clk == 0:  # strictly between max - clock and max: lengthened to exactly the maximum
            pool += [mx - 1, mx - clk + 1, mx - 1]
    d = gen.pick(rng, pool)
    return max(1, int(d))


def boundary_pulse(rng, c: dict, phase: float) -> dict:
    mode = gen.wchoice(rng, {"amp": 3, "det": 3, "avg": 1.2 if c.get("min_avg_amp") else 0, "dur": 3,
                            "nonfinite": 0.8, "plain": 2, "window": 1.2})
    d = durations(rng, c) if mode == "dur" or rng.random() < 0.25 else gen.gen_duration(rng, c, nonmult=0.3)
    amax = c.get("max_amp")
    dmax = c.get("max_abs_detuning")
    A = 12.0 if amax is None else float(amax)
    D = 30.0 if dmax is None else float(dmax)
    mavg = c.get("min_avg_amp") or 0
    amp = {"k": "const", "d": d, "v": gen.r6(max(A * 0.5, mavg * 1.1))}
    det = {"k": "const", "d": d, "v": 0.0}
    if mode == "amp":
        v = near(rng, A) if amax is not None else A * gen.pick(rng, [1, 10, 1000])
        amp = gen.pick(rng, [{"k": "const", "d": d, "v": v}, {"k": "ramp", "d": max(d, 2), "a": A * 0.5, "b": v},
                             {"k": "custom", "samples": [A * 0.5] * (d - 1) + [v]}])
    elif mode == "det":
        v = near(rng, D) if dmax is not None else D * gen.pick(rng, [1, 10, 1000])
        v = v * gen.pick(rng, [1, -1])
        det = gen.pick(rng, [{"k": "const", "d": d, "v": v}, {"k": "ramp", "d": max(d, 2), "a": -v, "b": v},
                             {"k": "custom", "samples": [0.0] * (d - 1) + [v]}])
    elif mode == "avg":
        v = mavg * gen.pick(rng, [1.0, 0.999999, 1.000001, 0.5, 2.0, 1 - 1e-13, 1 + 1e-13])
        amp = gen.pick(rng, [{"k": "const", "d": d, "v": v},
                             {"k": "custom", "samples": [0.0] * (d // 2) + [min(A, 2 * v)] * (d - d // 2)}])
    elif mode == "nonfinite":
        bad = gen.pick(rng, [float("nan"), float("inf"), -float("inf")])
        which = gen.pick(rng, ["custom-amp", "custom-det", "ramp1", "blackman2", "kaiser2", "interp"])
        if which == "custom-amp":
            amp = {"k": "custom", "samples": [A * 0.5] * (d - 1) + [abs(bad) if bad == bad else bad]}
        elif which == "custom-det":
            det = {"k": "custom", "samples": [0.0] * (d - 1) + [bad]}
        elif which == "ramp1":
            d = 1
            amp = {"k": "const", "d": 1, "v": A * 0.5}
            det = {"k": "ramp", "d": 1, "a": 0.0, "b": min(D, 5.0)}
        elif which == "blackman2":
            d = gen.pick(rng, [1, 2])
            amp = {"k": "blackman", "d": d, "area": 0.001}
            det = {"k": "const", "d": d, "v": 0.0}
        elif which == "kaiser2":
            d = gen.pick(rng, [1, 2])
            amp = {"k": "kaiser", "d": d, "area": 0.001}
            det = {"k": "const", "d": d, "v": 0.0}
        else:
            det = {"k": "interp", "d": max(d, 2), "values": [0.0, bad, 0.0]}
            d = max(d, 2)
    elif mode == "window" and d >= 4:
        peak = near(rng, A) if amax is not None else A
        amp = gen.pick(rng, [{"k": "blackman_max", "max_val": peak, "area": gen.r6(peak * 0.42 * d * 1e-3)},
                             {"k": "blackman", "d": d, "area": gen.r6(peak * 0.42 * (d - 1) * 1e-3 * gen.pick(rng, [1.0, 0.98, 1.02]))}])
        if amp["k"] == "blackman_max":
            det = None
    elif mode == "plain":
        return gen.gen_pulse(rng, c, phase=phase)
    for w in (amp, det):
        if w is not None and "d" in w:
            w["d"] = d if w["k"] not in ("ramp", "interp") else max(d, w["d"])
    dd = max([w.get("d", len(w.get("samples", []))) for w in (amp, det) if w is not None and w["k"] != "blackman_max"] + [1])
    for w in (amp, det):
        if w is not None and "d" in w:
            w["d"] = dd
        if w is not None and w["k"] == "custom" and len(w["samples"]) != dd:
            w["samples"] = ([w["samples"][0]] * dd)[: dd - 1] + [w["samples"][-1]]
    if det is None:  # duration decided by from_max_val: use the constant-detuning constructor
        return {"kind": "constdet", "amp": amp, "det": 0.0, "phase": phase}
    return {"amp": amp, "det": det, "phase": phase}


def boundary_dmm_wf(rng, c: dict, weights: list) -> dict:
    d = durations(rng, c) if rng.random() < 0.4 else gen.gen_duration(rng, c, nonmult=0.3)
    wmax, wsum = max(weights, default=1.0) or 1.0, sum(weights) or 1.0
    opts = [0.0, -1.0, near(rng, 0.0), abs(near(rng, 0.0)), 4e-7, 6e-7, 2e-6]
    if c.get("bottom_detuning") is not None:
        opts += [near(rng, c["bottom_detuning"] / wmax)] * 3
    if c.get("total_bottom_detuning") is not None:
        opts += [near(rng, c["total_bottom_detuning"] / wsum)] * 3
    v = gen.pick(rng, opts)
    return gen.pick(rng, [{"k": "const", "d": d, "v": v}, {"k": "ramp", "d": max(d, 2), "a": 0.0, "b": v},
                          {"k": "custom", "samples": [0.0] * (max(d, 1) - 1) + [v]}])


def c01_device(rng) -> dict:
    if rng.random() < 0.2:
        return {"kind": "builtin", "name": gen.pick(rng, gen.BUILTINS)}
    dev = gen.gen_device(rng, p_builtin=0, p_physical=0.15, max_seq=0.5, want_eom=0.2)
    for c in dev["channels"] + dev.get("dmm", []):
        if "cls" in c and rng.random() < 0.12:  # a limit defined as exactly zero is a limit, not "undefined"
            c[gen.pick(rng, ["max_abs_detuning", "max_abs_detuning", "max_amp"])] = 0.0
            c.pop("eom", None)
            c.pop("min_avg_amp", None)
        if dev["kind"] == "virtual" and rng.random() < 0.3:
            c["max_duration"] = None
        elif rng.random() < 0.6:
            c["max_duration"] = gen.pick(rng, [100, 810, 2000, 203, 64])
            if c["max_duration"] < c.get("min_duration", 1):
                c["max_duration"] = c["min_duration"] * 8 + 3
    return dev


def run_case(ctx, idx, rng, tier):
    dev = c01_device(rng)
    reg = gen.gen_register(rng, dev, nmin=1, nmax=4)
    mon = LimitsMonitor(ctx)
    r = prog.Runner(ctx, dev, reg, [mon])
    g = gen.ProgGen(rng, dev, reg, r.chspecs, weights=WEIGHTS)
    max_seq = r.device.max_sequence_duration

    def pulse_fn(rr, c, phase):
        # with a device maximum: aim the end of the pulse (after whatever delay is inserted) at the limit +- a few ns
        if max_seq is not None and rr.random() < 0.35:
            try:
                t0 = r.seq.get_duration(g.cur_channel)
            except Exception:
                t0 = 0
            clk, mn = c.get("clock_period", 1), c.get("min_duration", 1)
            ph = gen.pick(rr, gen.PHASES)
            amax = c.get("max_amp")
            a = 1.0 if amax is None else min(1.0, amax)
            est = 0
            try:  # the delay the scheduler will insert (does not depend on the pulse's duration)
                import pulser
                d0 = -(-max(mn, 1) // clk) * clk
                est = int(r.seq.estimate_added_delay(pulser.Pulse.ConstantPulse(d0, a, 0.0, ph), g.cur_channel,
                                                     gen.pick(rr, ["min-delay", "min-delay", "wait-for-all"])))
            except Exception:
                est = 0
            j = gen.pick(rr, [0, 0, -clk, clk, 1, 2, 3, 4, 5, 6, 7, -1, -2, 2 * clk, mn])
            d = max_seq - t0 - est + j
            if d >= mn and (c.get("max_duration") is None or d <= c["max_duration"]) and d <= 6000:
                return {"amp": {"k": "const", "d": int(d), "v": a}, "det": {"k": "const", "d": int(d), "v": 0.0}, "phase": ph}
        return boundary_pulse(rr, c, phase)
    g.pulse_fn = pulse_fn
    g.dmm_wf_fn = boundary_dmm_wf
    g.motifs["dmm-twice"] = 0.6
    for _ in range(rng.randint(6, 30)):
        op = g.next_op()
        ev = r.step(op)
        g.update(op, ev.exc is None and ev.stage == "call")
    r.finish()
    ctx.sample(r.prog)
