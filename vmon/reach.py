"""Reach monitor: which anchored code of a property the workload of a check actually executed.

`sys.monitoring` LINE events (Python 3.12+), every location disabled after its first hit, so the cost is one
callback per distinct executed line of the process.  Only lines of the files a property is anchored in are kept.
The result goes into the evidence (`coverage.anchor_reach`) and a mechanism none of whose functions was entered
makes the run *inconclusive* (the deciding monitor may have been bypassed), never a verdict about the property.
"""
from __future__ import annotations

import json
import os
import sys

from vmon import bootstrap

_hits: dict[str, set] = {}
_active = False
TOOL = 3  # a free tool id (0 debugger, 1 coverage, 2 profiler, 5 optimizer are conventional)


def anchors(pid: str) -> list[dict]:
    p = os.path.join(bootstrap.VERIF, "vmon", "anchors.json")
    if not os.path.exists(p):
        return []
    return json.load(open(p))["anchors"].get(pid, [])


def start(pid: str) -> bool:
    """Begin recording executed lines of the property's anchor files (absolute paths under the tree under test)."""
    global _active
    mon = getattr(sys, "monitoring", None)
    if mon is None or _active:
        return False
    root = bootstrap.repo_root()
    for m in anchors(pid):
        for t in m["targets"]:
            _hits.setdefault(os.path.realpath(os.path.join(root, t["file"])), set())
    if not _hits:
        return False
    try:
        mon.use_tool_id(TOOL, "vmon-reach")
    except ValueError:
        return False
    hits = _hits
    disable = mon.DISABLE

    def on_line(code, line):
        s = hits.get(code.co_filename)
        if s is not None:
            s.add(line)
        return disable

    mon.register_callback(TOOL, mon.events.LINE, on_line)
    mon.set_events(TOOL, mon.events.LINE)
    _active = True
    return True


def stop() -> dict:
    global _active
    mon = getattr(sys, "monitoring", None)
    if mon is not None and _active:
        mon.set_events(TOOL, 0)
        mon.register_callback(TOOL, mon.events.LINE, None)
        mon.free_tool_id(TOOL)
        _active = False
    root = os.path.realpath(bootstrap.repo_root())
    return {os.path.relpath(f, root): sorted(s) for f, s in _hits.items()}


# ----------------------------------------------------------------------------------------------- summary (driver side)
def _code_lines(path: str) -> dict[str, set]:
    """qualname -> executable lines (of the function and everything nested in it), from the compiled file."""
    try:
        src = open(path).read()
        top = compile(src, path, "exec")
    except (OSError, SyntaxError):
        return {}
    out: dict[str, set] = {}

    def lines_of(co) -> set:
        ls = {ln for _, _, ln in co.co_lines() if ln is not None and ln > co.co_firstlineno}
        for c in co.co_consts:
            if hasattr(c, "co_lines"):
                ls |= lines_of(c) | {c.co_firstlineno}
        return ls

    def walk(co):
        for c in co.co_consts:
            if hasattr(c, "co_lines"):
                out.setdefault(c.co_qualname, set()).update(lines_of(c))
                walk(c)

    walk(top)
    out["*"] = {ln for q, s in out.items() for ln in s}
    return out


def summarise(pid: str, hits: dict[str, list]) -> tuple[list[dict], list[str]]:
    """(per-mechanism reach, names of mechanisms of which no resolved function was entered)."""
    root = bootstrap.repo_root()
    cache: dict[str, dict] = {}
    res, missing = [], []
    for m in anchors(pid):
        funcs = []
        resolvable = False
        for t in m["targets"]:
            path = os.path.join(root, t["file"])
            cl = cache.setdefault(t["file"], _code_lines(path))
            got = set(hits.get(t["file"], []))
            for q in t["qualnames"]:
                ls = cl.get(q)
                if not ls:
                    continue
                resolvable = True
                h = len(ls & got)
                funcs.append({"function": f"{os.path.basename(t['file'])}:{q}", "lines_hit": h, "lines_total": len(ls)})
        entered = [f for f in funcs if f["lines_hit"] > 0]
        res.append({"mechanism": m["name"], "functions_entered": len(entered), "functions_resolved": len(funcs),
                    "lines_hit": sum(f["lines_hit"] for f in funcs), "lines_total": sum(f["lines_total"] for f in funcs),
                    "never_entered": [f["function"] for f in funcs if f["lines_hit"] == 0][:8]})
        if resolvable and not entered:
            missing.append(m["name"])
    return res, missing
