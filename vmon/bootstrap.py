"""Put the *working tree* of the repository first on sys.path and assert origin.

The machine also has pulser 1.9.1 in site-packages; importing that would decide
the properties for the wrong code, so a wrong origin is INCONCLUSIVE (exit 2).
"""
from __future__ import annotations

import fcntl
import os
import subprocess
import sys

VERIF = os.path.dirname(os.path.dirname(os.path.abspath(__file__)))
DEPS = os.path.join(VERIF, ".deps")
WHEELS = "/opt/veriftools/wheels"


class Inconclusive(Exception):
    pass


def repo_root() -> str:
    return os.path.abspath(os.environ.get("VERIF_REPO", "/repo"))


def ensure_deps() -> None:
    """Offline, idempotent install of icontract/deal beside the repo's interpreter."""
    marker = os.path.join(DEPS, "icontract", "__init__.py")
    if os.path.exists(marker):
        return
    os.makedirs(DEPS, exist_ok=True)
    with open(os.path.join(DEPS, ".lock"), "w") as lk:
        fcntl.flock(lk, fcntl.LOCK_EX)
        if os.path.exists(marker):
            return
        cmd = [sys.executable, "-m", "pip", "install", "--quiet", "--no-index",
               "--find-links", WHEELS, "--target", DEPS, "icontract", "deal"]
        r = subprocess.run(cmd, capture_output=True, text=True)
        if r.returncode != 0 or not os.path.exists(marker):
            raise Inconclusive("cannot install icontract offline: " + r.stderr[-400:])


def activate() -> str:
    """Make `import pulser` resolve to the tree; returns the repo root."""
    root = repo_root()
    core = os.path.join(root, "pulser-core")
    sim = os.path.join(root, "pulser-simulation")
    for p in (core, sim):
        if not os.path.isdir(p):
            raise Inconclusive(f"tree not found: {p}")
    for m in [m for m in sys.modules if m == "pulser" or m.startswith("pulser.")
              or m.startswith("pulser_simulation")]:
        del sys.modules[m]
    sys.path[:0] = [core, sim]
    if os.path.isdir(DEPS) and DEPS not in sys.path:
        sys.path.append(DEPS)
    import warnings
    with warnings.catch_warnings():
        warnings.simplefilter("ignore")
        import pulser
        import pulser_simulation
    for mod, base in ((pulser, core), (pulser_simulation, sim)):
        f = os.path.abspath(mod.__file__)
        if not f.startswith(base + os.sep):
            raise Inconclusive(f"{mod.__name__} imported from {f}, not from {base}")
    return root
