"""C01 monitor: scheduled pulses respect channel/device limits; pulses inside every limit are accepted."""
from __future__ import annotations

import numpy as np

from vmon.prog import Event, Monitor, Runner
from vmon.ref import limits
from vmon.seqmon import eom_now
from vmon.snap import arr, pulse_info


def _weights(chan: dict) -> list[float] | None:
    dm = chan.get("detmap")
    return None if dm is None else [float(x) for x in arr(dm.weights)]


def spec_of(obj, detmap=None) -> dict:
    """Plain limits of a channel object (public dataclass fields only)."""
    d = {k: getattr(obj, k, None) for k in ("max_amp", "max_abs_detuning", "min_duration", "max_duration",
                                             "clock_period", "min_avg_amp", "bottom_detuning", "total_bottom_detuning")}
    d["dmm"] = type(obj).__name__ == "DMM"
    return d


class LimitsMonitor(Monitor):
    def __init__(self, ctx):
        self.ctx = ctx
        self._pre = None
        self.tainted = False

    # ----------------------------------------------------------------------------------------
    def before(self, r: Runner, op, name, args, kwargs, pre) -> None:
        self._pre = None
        if name not in ("add", "add_dmm_detuning") or not pre["flags"]["building"] or self.tainted:
            return
        ch = op["ch"]
        c = pre["chans"].get(ch)
        if c is None:
            return
        from pulser import Pulse

        obj = c["obj"]
        try:
            if name == "add":
                pulse = args[0] if args else kwargs["pulse"]
            else:
                pulse = Pulse.ConstantAmplitude(0, args[0] if args else kwargs["waveform"], 0)
            a, d = arr(pulse.amplitude.samples), arr(pulse.detuning.samples)
        except Exception:
            return
        spec = spec_of(obj)
        verdict, why = limits.classify(a, d, spec, _weights(c))
        # ---- state conditions under which the statement promises acceptance ------------------
        state_ok = True
        if pre["flags"]["measurement"] is not None or not c["slots"] or eom_now(c) or c["waiting"]:
            state_ok = False
        if (name == "add") == spec["dmm"]:
            state_ok = False
        if any(x["waiting"] for x in pre["chans"].values()):
            state_ok = False  # a pending SLM-mask pulse on the DMM may be refused instead (C09 finding)
        proto = op.get("protocol", "min-delay")
        if proto not in ("min-delay", "no-delay", "wait-for-all"):
            state_ok = False
        if not spec["dmm"] and c["slots"]:
            refs = {pre["bref"][obj.basis][q][1][-1] for q in c["slots"][-1]["targets"]}
            if len(refs) != 1:
                state_ok = False
        est = None
        if state_ok:
            try:
                est = int(r.seq.estimate_added_delay(pulse, ch, proto)) if "protocol" in op else \
                    int(r.seq.estimate_added_delay(pulse, ch, "no-delay" if name == "add_dmm_detuning" else "min-delay"))
            except Exception:
                est = None
        kinds = {type(pulse.amplitude).__name__, type(pulse.detuning).__name__}
        self._pre = dict(verdict=verdict, why=why, state_ok=state_ok, est=est, pulse=pulse, a=a, d=d, spec=spec,
                         kinds=kinds, t0=c["slots"][-1]["tf"] if c["slots"] else 0)

    # ----------------------------------------------------------------------------------------
    def after(self, r: Runner, ev: Event) -> None:
        ctx = self.ctx
        if ev.stage != "call":
            return
        from vmon.snap import state_key

        if ev.exc is not None and state_key(ev.pre) != state_key(ev.post):
            self.tainted = True
            ctx.count("discarded_after_C09")
            return
        if self.tainted or not ev.post["flags"]["building"]:
            return
        if ev.exc is None and not ev.ro:
            self._safety(r, ev)
        p = self._pre
        self._pre = None
        if p is None or ev.name not in ("add", "add_dmm_detuning"):
            return
        ctx.count("classified:" + p["verdict"])
        spec = p["spec"]
        clk = int(spec["clock_period"])
        dreq = len(p["a"])
        dnew = limits.next_multiple(dreq, clk)
        # ---- the channel's own answer about this duration, whatever the state of the sequence: refused iff outside
        #      [min, max] before or after rounding up to the clock period, else the next clock multiple ----------------
        cobj = ev.pre["chans"].get(ev.op["ch"], {}).get("obj") if ev.pre["chans"].get(ev.op["ch"]) else None
        if cobj is not None:
            import warnings as _w
            mn_, mx_ = int(spec["min_duration"]), spec["max_duration"]
            must_raise = dreq < mn_ or (mx_ is not None and (dreq > mx_ or dnew > mx_))
            try:
                with _w.catch_warnings():
                    _w.simplefilter("ignore")
                    got_d, dexc = cobj.validate_duration(dreq), None
            except Exception as e_:
                got_d, dexc = None, e_
            ctx.count("validate_duration_probes")
            if dnew != dreq and mx_ is not None and dnew == int(mx_):
                ctx.count("validate_duration_probes_rounding_up_to_max")
            if must_raise != (dexc is not None) or (dexc is None and int(got_d) != dnew):
                ctx.violation("duration", f"Channel.validate_duration({dreq}) on a channel with min {mn_}, max {mx_}, clock {clk}: "
                              f"{'raised ' + repr(dexc)[:100] if dexc is not None else 'returned ' + repr(got_d)}, expected "
                              f"{'a refusal' if must_raise else dnew}", "validate-duration:" + ("refuses-valid" if dexc is not None else "accepts-or-wrong"))
        near = p["why"] != "" or self._near_limit(p)
        if near:
            ctx.mark_nontrivial(("c01", ctx.case_idx, ev.idx))
        if p["verdict"] == limits.REJECT:
            ctx.count("must_reject_checked")
            if ev.exc is None:
                ctx.violation("accepts-out-of-limit", f"{ev.name} on {ev.op['ch']} accepted a pulse that is outside the "
                              f"channel limits ({p['why']})", "accepted:" + p["why"])
            return
        if p["verdict"] != limits.ACCEPT or not p["state_ok"]:
            return
        # ---- completeness ----------------------------------------------------------------------
        if dnew != dreq and (p["kinds"] & {"CustomWaveform", "CompositeWaveform"}):
            ctx.gray("non-multiple-unextendable-waveform")
            return
        max_seq = r.device.max_sequence_duration
        if p["est"] is None:
            ctx.gray("no-estimate")
            return
        if spec["max_duration"] is not None and p["est"] > spec["max_duration"]:
            ctx.gray("auto-delay>max_duration")
            return
        if max_seq is not None and p["t0"] + p["est"] + dnew > max_seq:
            if ev.exc is None:
                ctx.violation("sequence-too-long", f"{ev.name} returned although the sequence would end at "
                              f"{p['t0'] + p['est'] + dnew} > max_sequence_duration {max_seq}", "accepted:over-max-sequence")
            return
        ctx.count("must_accept_checked")
        if dnew != dreq and spec["max_duration"] is not None and dnew == int(spec["max_duration"]):
            ctx.count("must_accept_rounded_up_to_exactly_max_duration")
        if ev.exc is not None:
            ctx.violation("rejects-valid", f"{ev.name} on {ev.op['ch']} rejected a pulse inside every limit "
                          f"(duration {dreq}, clock {clk}): {type(ev.exc).__name__}: {str(ev.exc)[:160]}",
                          f"rejected-valid:{type(ev.exc).__name__}:{self._why(ev.exc)}")
            return
        # scheduled pulse == requested (or only lengthened to the next clock multiple)
        c = ev.post["chans"][ev.op["ch"]]
        slot = c["slots"][-1]
        if slot["pulse"] is None:
            return
        _, sa, sd, sph, _ = pulse_info(slot["pulse"])
        if len(sa) != dnew:
            ctx.violation("adjusted-duration", f"requested {dreq} ns on clock {clk}: scheduled {len(sa)} ns, expected {dnew}",
                          "adjusted-duration")
            return
        if dnew == dreq:
            ctx.count("unchanged_checked")
            if not (np.array_equal(sa, p["a"], equal_nan=True) and np.array_equal(sd, p["d"], equal_nan=True)):
                ctx.violation("pulse-changed", "a pulse whose duration is a clock multiple was scheduled with different samples",
                              "pulse-changed")
        else:
            ctx.count("lengthened_checked")
            self._same_shape(ctx, p["pulse"], slot["pulse"], dreq, dnew)
            # an interpolated waveform lengthened by the scheduler is the waveform one gets by asking for the longer
            # duration with the same values, times, interpolator and interpolator options
            from vmon import objs
            specs = {"amplitude": ev.op["pulse"].get("amp"), "detuning": ev.op["pulse"].get("det")} if ev.name == "add" else \
                {"detuning": ev.op.get("wf")}
            for nm, sp in specs.items():
                if isinstance(sp, dict) and sp.get("k") == "interp":
                    try:
                        want = arr(objs.build_wf(dict(sp, d=dnew)).samples)
                    except Exception:
                        continue
                    ctx.count("lengthened_interpolated_checked")
                    if sp.get("kwargs"):
                        ctx.count("lengthened_interpolated_with_options_checked")
                    got = sa if nm == "amplitude" else sd
                    if len(got) != len(want) or not np.allclose(got, want, rtol=1e-9, atol=1e-9):
                        ctx.violation("lengthened-shape", f"{nm}: InterpolatedWaveform({sp.get('interpolator', 'PchipInterpolator')}, "
                                      f"{sp.get('kwargs')}) lengthened {dreq}->{dnew} ns differs from the same waveform built at "
                                      f"{dnew} ns by {float(np.max(np.abs(got - want))) if len(got) == len(want) else 'length'}",
                                      "lengthened-shape:InterpolatedWaveform:samples")

    # ----------------------------------------------------------------------------------------
    @staticmethod
    def _why(exc) -> str:
        m = str(exc)
        for key, tag in (("amplitude goes over", "amp"), ("detuning values go out", "det"), ("average amplitude", "avg"),
                         ("duration has to be at least", "min-duration"), ("duration can be at most", "max-duration"),
                         ("must not be positive", "dmm-positive"), ("bottom detuning", "dmm-bottom"),
                         ("exceeded the maximum duration", "max-seq"), ("automatically adjust", "adjust")):
            if key in m:
                return tag
        return "other"

    @staticmethod
    def _near_limit(p) -> bool:
        s = p["spec"]
        a, d = p["a"], p["d"]
        rel = lambda x, y: y is not None and y != 0 and abs(x - y) <= 1e-5 * abs(y)  # noqa: E731
        n = len(a)
        return bool(rel(float(np.max(a, initial=0)), s["max_amp"]) or rel(float(np.max(np.abs(d), initial=0)), s["max_abs_detuning"])
                    or n in (s["min_duration"], s["min_duration"] - 1, s["max_duration"], (s["max_duration"] or -5) + 1)
                    or n % int(s["clock_period"]) != 0
                    or (s["min_avg_amp"] and rel(float(np.mean(a)), s["min_avg_amp"])))

    @staticmethod
    def _same_shape(ctx, req, got, dreq: int, dnew: int) -> None:
        for nm in ("amplitude", "detuning"):
            w0, w1 = getattr(req, nm), getattr(got, nm)
            k = type(w0).__name__
            if type(w1).__name__ != k:
                ctx.violation("lengthened-shape", f"{nm}: {k} was replaced by {type(w1).__name__} when lengthening", "lengthened-kind")
                continue
            a0, a1 = arr(w0.samples), arr(w1.samples)
            ok = True
            if k == "ConstantWaveform":
                ok = np.all(a1 == a0[0])
            elif k == "RampWaveform":
                # (a 1-ns ramp only shows its start value; its stop value appears once it is lengthened)
                ok = np.isclose(a1[0], a0[0], rtol=1e-12, atol=1e-12) and (
                    dreq == 1 or np.isclose(a1[-1], a0[-1], rtol=1e-12, atol=1e-12))
            elif k in ("BlackmanWaveform", "KaiserWaveform"):
                ok = np.isclose(np.sum(a1), np.sum(a0), rtol=1e-9, atol=1e-12)
            elif k == "InterpolatedWaveform":
                ok = np.allclose(w1.data_points[:, 1], w0.data_points[:, 1], rtol=1e-12, atol=1e-12)
            if not ok:
                ctx.violation("lengthened-shape", f"{nm}: {k} lengthened {dreq}->{dnew} ns lost its defining parameters",
                              "lengthened-shape:" + k)

    # ----------------------------------------------------------------------------------------
    def _safety(self, r: Runner, ev: Event) -> None:
        ctx = self.ctx
        pre, post = ev.pre, ev.post
        for n, c in post["chans"].items():
            old = len(pre["chans"][n]["slots"]) if n in pre["chans"] else 0
            obj = c["obj"]
            s_ = spec_of(obj)
            w = _weights(c)
            for s in c["slots"][old:]:
                if s["pulse"] is None:
                    continue
                _, a, d, _, _ = pulse_info(s["pulse"])
                ctx.count("scheduled_pulses_checked")
                L = s["tf"] - s["ti"]
                tag = f"{ev.name} scheduled on {n} [{s['ti']},{s['tf']})"
                if not (np.all(np.isfinite(a)) and np.all(np.isfinite(d))):
                    ctx.violation("non-finite", f"{tag}: non-finite samples", "scheduled:non-finite")
                    continue
                mx = 0.0 if s_["dmm"] else s_["max_amp"]
                if mx is not None and np.max(a, initial=0) > mx:
                    ctx.violation("amp", f"{tag}: amplitude {np.max(a)!r} above the channel maximum {mx!r}", "scheduled:amp")
                if s_["min_avg_amp"] and 0 < np.mean(a) < s_["min_avg_amp"] * (1 - 1e-12):
                    ctx.violation("avg-amp", f"{tag}: average amplitude {np.mean(a)!r} below the minimum {s_['min_avg_amp']}",
                                  "scheduled:avg-amp")
                if s_["max_abs_detuning"] is not None and np.max(np.abs(d), initial=0) > s_["max_abs_detuning"] + limits.BAND:
                    ctx.violation("det", f"{tag}: |detuning| {np.max(np.abs(d))!r} above the channel maximum "
                                  f"{s_['max_abs_detuning']!r}", "scheduled:det")
                if s_["dmm"]:
                    ws = w or [1.0]
                    lo = float(np.min(d, initial=0))
                    if np.max(d, initial=0) > limits.BAND:
                        ctx.violation("dmm-sign", f"{tag}: positive detuning {np.max(d)!r} on a DMM", "scheduled:dmm-positive")
                    bd, tbd = s_["bottom_detuning"], s_["total_bottom_detuning"]
                    if bd is not None and max(ws) * lo < bd - limits.BAND * max(max(ws), 1.0) - 1e-9:
                        ctx.violation("dmm-bottom", f"{tag}: max weight {max(ws)} x detuning {lo} below bottom_detuning {bd}",
                                      "scheduled:dmm-bottom")
                    if tbd is not None and sum(ws) * lo < tbd - limits.BAND * max(sum(ws), 1.0) - 1e-9:
                        ctx.violation("dmm-total", f"{tag}: sum of weights {sum(ws)} x detuning {lo} below total_bottom_detuning "
                                      f"{tbd}", "scheduled:dmm-total")
                clk = int(s_["clock_period"])
                if L != len(a) or L <= 0 or L % clk:
                    ctx.violation("duration", f"{tag}: duration {L} (pulse {len(a)}) is not a positive multiple of clock {clk}",
                                  "scheduled:clock")
                if L < s_["min_duration"] or (s_["max_duration"] is not None and L > s_["max_duration"]):
                    ctx.violation("duration", f"{tag}: duration {L} outside [{s_['min_duration']}, {s_['max_duration']}]",
                                  "scheduled:duration-range:" + ("short" if L < s_["min_duration"] else "long"))
        max_seq = r.device.max_sequence_duration
        if max_seq is not None:
            end = max([c["slots"][-1]["tf"] for c in post["chans"].values() if c["slots"]] + [0])
            ctx.count("sequence_duration_checks")
            if end > max_seq:
                ctx.violation("sequence-too-long", f"after {ev.name} the sequence lasts {end} > max_sequence_duration {max_seq}",
                              "over-max-sequence:" + ev.name)
