"""C09 monitor: a raising call changes nothing, read-only calls change nothing, replicas agree."""
from __future__ import annotations

import warnings

from vmon.prog import Event, Monitor, Runner
from vmon.snap import diff, snapshot, state_key, timeline_diff


def reason(exc: BaseException) -> str:
    m = str(exc)
    if "exceeded the maximum duration" in m:
        return "max-seq-duration"
    if "duration can be at most" in m:
        return "max-duration"
    if "duration has to be at least" in m:
        return "min-duration"
    if "castable to an int" in m:
        return "duration-type"
    if "has no target" in m:
        return "no-target"
    if "variable" in m.lower():
        return "variable"
    if "magnitude greater than 0" in m:
        return "zero-field"
    if "different phase references" in m:
        return "phase-refs"
    if "bottom detuning" in m:
        return "dmm-bottom"
    if "SLM" in m:
        return "slm"
    return type(exc).__name__


def changed_parts(pre: dict, post: dict) -> list[str]:
    parts = set()
    for n in set(pre["chans"]) | set(post["chans"]):
        a, b = pre["chans"].get(n), post["chans"].get(n)
        if a is None or b is None:
            parts.add("channels")
            continue
        ka = [(s["kind"], s["ti"], s["tf"], s["targets"], s["dig"]) for s in a["slots"]]
        kb = [(s["kind"], s["ti"], s["tf"], s["targets"], s["dig"]) for s in b["slots"]]
        if ka != kb:
            extra = kb[len(ka):] if kb[: len(ka)] == ka else None
            parts.add("slots+" + "+".join(sorted({e[0] for e in extra})) if extra else "slots")
        if a["eom"] != b["eom"]:
            parts.add("eom")
        if a["waiting"] != b["waiting"]:
            parts.add("slm-waiting")
    if pre["bref"] != post["bref"]:
        parts.add("phase-refs" if set(pre["bref"]) == set(post["bref"]) else "bases")
    for k in pre["flags"]:
        if pre["flags"][k] != post["flags"][k]:
            parts.add("flag:" + k)
    return sorted(parts)


EOM_RETARGET = ("enable_eom_mode", "modify_eom_setpoint", "disable_eom_mode", "target", "target_index")


def mech_of(ev: Event, parts: list[str]) -> str:
    """Mechanism key of a partial-effect raise (a predicate over the witness, no random values)."""
    rs = reason(ev.exc)
    slm = ev.post["flags"]["slm_dmm"] is not None
    if ev.name in EOM_RETARGET and rs in ("max-seq-duration", "max-duration"):
        # the wait-for-fall delay / EOM block end is committed before the device maximum is checked
        return "partial:eom-or-retarget-over-max-sequence-duration"
    # the automatic SLM-mask pulse on the DMM was *refused* for a documented reason (not: crashed)
    documented = rs in ("min-duration", "max-duration", "max-seq-duration", "dmm-bottom")
    if ev.name == "config_slm_mask" and "channels" in parts and documented:
        return "partial:slm-mask-dmm-autopulse-refused"
    if ev.name in ("add", "add_eom_pulse") and slm and "slm-waiting" in parts and documented:
        return "partial:slm-mask-dmm-autopulse-refused"
    if ev.name == "declare_channel" and "channels" in parts and ev.op.get("initial_target") is not None:
        return "partial:declare_channel-initial-target-refused"
    opts = "(at_rest)" if ev.name == "delay" and ev.op.get("at_rest") else ""
    return f"partial:{ev.name}{opts}:{rs}:{','.join(parts)}"


class AtomicMonitor(Monitor):
    def __init__(self, ctx, replicas=True):
        self.ctx = ctx
        self.replicas = replicas
        self.tainted = False
        self.interesting = False

    def after(self, r: Runner, ev: Event) -> None:
        ctx = self.ctx
        same = state_key(ev.pre) == state_key(ev.post)
        if ev.stage != "call":
            return
        if ev.ro:
            ctx.count("readonly_calls_checked")
            ctx.count("ro:" + ev.name)
            if not same:
                parts = changed_parts(ev.pre, ev.post)
                ctx.violation("read-only", f"read-only call {ev.name} changed the sequence: {diff(ev.pre, ev.post)[:4]}",
                              f"readonly:{ev.name}:{','.join(parts)}")
                self.tainted = True
            return
        if ev.exc is not None:
            ctx.count("raising_calls_checked")
            kind = ev.op.get("_inv", "organic")
            ctx.count("raise:" + kind)
            if any(len(c["slots"]) > 1 for c in ev.pre["chans"].values()):
                ctx.mark_nontrivial(("c09", ctx.case_idx, kind, ev.name, reason(ev.exc)))
            if not same:
                parts = changed_parts(ev.pre, ev.post)
                ctx.violation(
                    "raise-leaves-state",
                    f"{ev.name} raised {type(ev.exc).__name__}({str(ev.exc)[:120]!r}) but changed the sequence: "
                    f"{diff(ev.pre, ev.post)[:4]}", mech_of(ev, parts))
                self.tainted = True

    # -- replicas ---------------------------------------------------------------------
    def checkpoint(self, r: Runner) -> None:
        ctx = self.ctx
        if not self.replicas or self.tainted:
            return
        seq = r.seq
        base = snapshot(seq)
        if not base["flags"]["building"]:
            return
        from pulser import Sequence

        def compare(tag: str, make):
            try:
                with warnings.catch_warnings():
                    warnings.simplefilter("ignore")
                    other = make()
            except Exception as e:
                ctx.count(f"replica_{tag}_raised")
                ctx.violation("replica-raises", f"{tag} of a valid sequence raised {type(e).__name__}: {str(e)[:200]}",
                              f"replica:{tag}:raises:{type(e).__name__}")
                return
            ctx.count("replicas_checked")
            ctx.count("replica:" + tag)
            d = timeline_diff(base, snapshot(other), tol=1e-9)
            if d:
                ctx.violation("replica-differs", f"{tag} differs from the original: {d[:3]}", f"replica:{tag}:differs")
            if state_key(snapshot(seq)) != state_key(base):
                ctx.violation("read-only", f"{tag} changed the original sequence", f"readonly:{tag}")
            # the replica must be independent: changing it must not change the original
            try:
                other.declare_variable("replica_only_var")
                if other.declared_channels and not other.is_measured():
                    pass
            except Exception:
                pass
            ctx.count("replica_independence_checks")
            if state_key(snapshot(seq)) != state_key(base):
                ctx.violation("replica-shares-state", f"declaring a variable on the {tag} replica changed the original: "
                              f"{diff(base, snapshot(seq))[:3]}", f"replica-shares-state:{tag}")

        unused = {n: ([0] * v.size if v.size > 1 else 0) for n, v in seq.declared_variables.items()}
        compare("build", lambda: seq.build(**unused) if not seq.is_register_mappable() else None) \
            if not seq.is_register_mappable() else None
        if not seq.is_register_mappable():
            compare("switch_register", lambda: seq.switch_register(seq.register))
        elif getattr(r, "mapping", None):
            # a mappable register: building with a full mapping gives the same timeline; building with only the first
            # k ids (enough for every atom the calls name) leaves the original what it was
            mapping = r.mapping
            compare("build_mapped", lambda: seq.build(qubits=dict(mapping), **unused))
            named = set()
            for c in base["chans"].values():
                if c["obj"].addressing == "Local":
                    for s_ in c["slots"]:
                        named.update(s_["targets"])
            for d_ in base["bref"].values():
                named.update(q for q, v in d_.items() if len(v[0]) > 1)
            order = [str(q) for q in seq._register.qubit_ids]
            kmin = max([order.index(q) + 1 for q in named if q in order] + [1])
            if kmin < len(order) and not any(c["detmap"] is not None for c in base["chans"].values()):
                part = {q: t for q, t in list(mapping.items())[:kmin]}
                try:
                    with warnings.catch_warnings():
                        warnings.simplefilter("ignore")
                        seq.build(qubits=part, **unused)
                    ctx.count("partial_mapping_builds")
                except Exception:
                    ctx.count("partial_mapping_build_refused")
                if state_key(snapshot(seq)) != state_key(base):
                    ctx.violation("read-only", f"build with a partial mapping ({kmin} of {len(order)} ids) changed the "
                                  f"original sequence: {diff(base, snapshot(seq))[:3]}", "readonly:build_partial_mapping")
        ids = list(seq._register.qubit_ids)
        dim3 = len(next(iter(seq._register.layout.coords if seq.is_register_mappable() else
                             seq._register.qubits.values()))) == 3 if ids else False
        has_dmm = any(c["detmap"] is not None for c in base["chans"].values()) or base["flags"]["slm_dmm"]
        if all(isinstance(q, str) for q in ids) and not (dim3 and has_dmm):
            # (the abstract format has no z coordinate for detuning-map traps: 3D maps are not expressible)
            compare("abstract_repr", lambda: Sequence.from_abstract_repr(seq.to_abstract_repr()))
        from pulser.devices import VirtualDevice
        import pulser

        if isinstance(seq.device, VirtualDevice) or seq.device in (pulser.AnalogDevice, pulser.DigitalAnalogDevice):
            # the legacy encoder only supports built-in and virtual devices
            compare("legacy_json", lambda: Sequence._deserialize(seq._serialize()))
