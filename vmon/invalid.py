"""Catalogue of genuinely invalid calls (C09/C13/C01): each entry is (kind, op spec).

Entries are derived from the generator's own view of the history; every one is a call the
documentation says must be refused in that state."""
from __future__ import annotations

from vmon import gen


def _const_pulse(d, amp=1.0, det=0.0, phase=0.0):
    return {"amp": {"k": "const", "d": d, "v": amp}, "det": {"k": "const", "d": d, "v": det}, "phase": phase}


def invalid_ops(g: gen.ProgGen, rng, seq_duration: int | None = None, ch_ends: dict | None = None) -> list[tuple[str, dict]]:
    out: list[tuple[str, dict]] = []
    qids = g.qids
    max_seq = g.dev.get("max_sequence_duration") if g.dev["kind"] != "builtin" else \
        {"AnalogDevice": 6000}.get(g.dev["name"])
    names = list(g.chans)
    out.append(("unknown-channel", {"op": "add", "pulse": _const_pulse(16), "ch": "nope"}))
    out.append(("unknown-channel", {"op": "delay", "duration": 16, "ch": "nope"}))
    out.append(("unknown-channel", {"op": "target", "qubits": qids[0], "ch": "nope"}))
    out.append(("dup-variable-protected", {"op": "declare_variable", "name": "qubits"}))
    if names:
        out.append(("dup-channel-name", {"op": "declare_channel", "name": names[0], "ch_id": next(iter(g.chspecs))}))
    out.append(("reserved-name", {"op": "declare_channel", "name": "dmm_x", "ch_id": next(iter(g.chspecs))}))
    out.append(("unknown-channel-id", {"op": "declare_channel", "name": "zz1", "ch_id": "no_such_id"}))
    for cid in g._avail_ids():
        if g.chspecs[cid]["addr"] == "Local":
            out.append(("declare-bad-initial-target", {"op": "declare_channel", "name": "zz5", "ch_id": cid,
                                                       "initial_target": "no_such_atom"}))
            break
    out.append(("unknown-dmm-id", {"op": "config_detuning_map", "dmm_id": "dmm_9",
                                   "map": {"by": "traps", "traps": [[0, 0]], "weights": [1.0]}}))
    if not g.reusable:
        for cid in g.used_ids:
            if not g.chspecs[cid].get("dmm"):
                out.append(("channel-id-reused", {"op": "declare_channel", "name": "zz2", "ch_id": cid}))
                break
    if g.mode == "ising":
        mw = [cid for cid, c in g.chspecs.items() if c["cls"] == "Microwave"]
        if mw:
            out.append(("xy-in-ising", {"op": "declare_channel", "name": "zz3", "ch_id": mw[0]}))
        out.append(("magfield-in-ising", {"op": "set_magnetic_field", "b": [0.0, 0.0, 30.0]}))
    if g.mode == "xy":
        non = [cid for cid, c in g.chspecs.items() if c["cls"] in ("Rydberg", "Raman")]
        if non:
            out.append(("ising-in-xy", {"op": "declare_channel", "name": "zz4", "ch_id": non[0]}))
        dm = [cid for cid, c in g.chspecs.items() if c.get("dmm")]
        if dm and not g.mappable:
            out.append(("dmm-in-xy", {"op": "config_detuning_map", "dmm_id": dm[0],
                                      "map": {"by": "qubits", "ids": list(qids), "weights": [1.0] * len(qids)}}))
        if g.nonempty:
            out.append(("magfield-nonempty", {"op": "set_magnetic_field", "b": [1.0, 0.0, 0.0]}))
    if g.mode in (None, "xy") and not g.nonempty and not (g.mode is None and g.chans):
        out.append(("magfield-zero", {"op": "set_magnetic_field", "b": [0.0, 0.0, 0.0]}))
    if g.slm and not g.mappable:
        out.append(("slm-twice", {"op": "config_slm_mask", "qubits": [qids[0]]}))
    if not g.mappable:
        out.append(("slm-unknown-qubit", {"op": "config_slm_mask", "qubits": ["no_such_atom"]}))
    if g.chans:
        b = sorted({c["basis"] for c in g.chans.values()})[0]
        out.append(("phase-unknown-qubit", {"op": "phase_shift", "phi": 1.0, "targets": ["no_such_atom"], "basis": b}))
        out.append(("phase-unknown-basis", {"op": "phase_shift", "phi": 1.0, "targets": [qids[0]], "basis": "nobasis"}))
        out.append(("measure-bad-basis", {"op": "measure", "basis": "nobasis"}))
        out.append(("foreign-variable", {"op": "delay", "duration": {"e": "foreign", "name": "fv"}, "ch": names[0]}))
        out.append(("foreign-variable", {"op": "phase_shift", "phi": {"e": "foreign", "name": "fv"},
                                         "targets": [qids[0]], "basis": b}))
        out.append(("unknown-variable", {"op": "delay", "duration": {"e": "foreign", "name": "other"}, "ch": names[0]}))
    if len(names) >= 1:
        out.append(("align-one", {"op": "align", "chs": [names[0]]}))
        out.append(("align-dup", {"op": "align", "chs": [names[0], names[0]]}))
        out.append(("align-unknown", {"op": "align", "chs": [names[0], "nope"]}))
    for n, c in g.chans.items():
        sp = c["spec"]
        mn, clk, mx = sp.get("min_duration", 1), sp.get("clock_period", 1), sp.get("max_duration")
        d_ok = gen.gen_duration(rng, sp)
        usable = (not c["local"] or c["targets"]) and not c.get("slm_wait")
        if c.get("slm_wait"):
            # the DMM reserved for a pending SLM mask takes no instruction before the first global pulse; in an align
            # it may be listed after channels that would have to be delayed
            others = [m for m in names if m != n and (not g.chans[m]["local"] or g.chans[m]["targets"])
                      and not g.chans[m].get("slm_wait")]
            out.append(("slm-dmm-waiting", {"op": "delay", "duration": d_ok, "ch": n}))
            out.append(("slm-dmm-waiting", {"op": "add_dmm_detuning", "wf": {"k": "const", "d": d_ok, "v": -1.0}, "ch": n}))
            if others:
                rng.shuffle(others)
                out.append(("slm-dmm-waiting-align", {"op": "align", "chs": [*others, n]}))
                out.append(("slm-dmm-waiting-align", {"op": "align", "chs": [n, *others]}))
                if len(others) >= 2:
                    out.append(("slm-dmm-waiting-align", {"op": "align", "chs": [others[0], n, *others[1:]], "at_rest": False}))
        if c["dmm"]:
            out.append(("add-on-dmm", {"op": "add", "pulse": _const_pulse(d_ok, 0.0, -1.0), "ch": n}))
            if usable:
                out.append(("dmm-positive", {"op": "add_dmm_detuning", "wf": {"k": "const", "d": d_ok, "v": 1.0}, "ch": n}))
                bd = sp.get("bottom_detuning")
                if bd is not None and max(c["weights"], default=0) > 0:
                    out.append(("dmm-below-bottom", {"op": "add_dmm_detuning", "ch": n,
                                                     "wf": {"k": "const", "d": d_ok, "v": bd / max(c["weights"]) * 1.01 - 0.01}}))
                tbd = sp.get("total_bottom_detuning")
                if tbd is not None and sum(c["weights"]) > 0:
                    out.append(("dmm-below-total", {"op": "add_dmm_detuning", "ch": n,
                                                    "wf": {"k": "const", "d": d_ok, "v": tbd / sum(c["weights"]) * 1.01 - 0.01}}))
                if mn > 1:
                    out.append(("dur-short", {"op": "add_dmm_detuning", "wf": {"k": "const", "d": mn - 1, "v": -1.0}, "ch": n}))
                out.append(("bad-protocol", {"op": "add_dmm_detuning", "wf": {"k": "const", "d": d_ok, "v": -1.0},
                                             "ch": n, "protocol": "sometimes"}))
                if mn > 1:
                    out.append(("delay-short", {"op": "delay", "duration": mn - 1, "ch": n, "at_rest": True}))
            continue
        out.append(("dmm-detuning-on-channel", {"op": "add_dmm_detuning", "wf": {"k": "const", "d": d_ok, "v": -1.0}, "ch": n}))
        if not c["local"]:
            out.append(("target-global", {"op": "target", "qubits": qids[0], "ch": n}))
        else:
            out.append(("unknown-qubit", {"op": "target", "qubits": "no_such_atom", "ch": n}))
            out.append(("target-empty", {"op": "target", "qubits": [], "ch": n}))
            if not g.mappable:
                out.append(("index-out-of-range", {"op": "target_index", "qubits": len(qids) + 3, "ch": n}))
            mt = sp.get("max_targets")
            if mt is not None and mt < len(qids) and not c["eom"]:
                out.append(("too-many-targets", {"op": "target", "qubits": list(qids[: mt + 1]), "ch": n}))
            if not c["targets"]:
                out.append(("no-target-yet", {"op": "add", "pulse": _const_pulse(d_ok, 0.0), "ch": n}))
                out.append(("no-target-yet", {"op": "delay", "duration": d_ok, "ch": n}))
                if len(names) > 1:
                    other = [m for m in names if m != n and (not g.chans[m]["local"] or g.chans[m]["targets"])
                             and not g.chans[m].get("slm_wait")]
                    if other:
                        out.append(("no-target-yet-align", {"op": "align", "chs": [other[0], n]}))
                        out.append(("no-target-yet-align", {"op": "align", "chs": [n, other[0]]}))
        if not usable:
            continue
        if c["eom"]:
            out.append(("eom-inside", {"op": "add", "pulse": _const_pulse(d_ok, 0.0), "ch": n}))
            if c["local"]:
                out.append(("eom-inside", {"op": "target", "qubits": qids[0], "ch": n}))
            out.append(("eom-already", {"op": "enable_eom_mode", "ch": n, "amp_on": 1.0, "detuning_on": 0.0}))
            if mn > 1:
                out.append(("dur-short", {"op": "add_eom_pulse", "ch": n, "duration": mn - 1, "phase": 0.0}))
            out.append(("bad-protocol", {"op": "add_eom_pulse", "ch": n, "duration": d_ok, "phase": 0.0, "protocol": "never"}))
            if sp.get("max_amp") is not None:
                out.append(("amp-over", {"op": "modify_eom_setpoint", "ch": n, "amp_on": sp["max_amp"] * 1.01 + 0.01,
                                         "detuning_on": 0.0}))
        else:
            out.append(("eom-outside", {"op": "add_eom_pulse", "ch": n, "duration": d_ok, "phase": 0.0}))
            out.append(("eom-outside", {"op": "disable_eom_mode", "ch": n}))
            out.append(("eom-outside", {"op": "modify_eom_setpoint", "ch": n, "amp_on": 1.0, "detuning_on": 0.0}))
            if not sp.get("eom"):
                out.append(("no-eom", {"op": "enable_eom_mode", "ch": n, "amp_on": 1.0, "detuning_on": 0.0}))
            else:
                if sp.get("max_amp") is not None:
                    out.append(("amp-over", {"op": "enable_eom_mode", "ch": n, "amp_on": sp["max_amp"] * 1.01 + 0.01,
                                             "detuning_on": 0.0}))
                if sp.get("max_abs_detuning") is not None:
                    out.append(("det-over", {"op": "enable_eom_mode", "ch": n, "amp_on": 1.0,
                                             "detuning_on": sp["max_abs_detuning"] * 1.01 + 0.01}))
            if mn > 1:
                out.append(("dur-short", {"op": "add", "pulse": _const_pulse(mn - 1, 0.0), "ch": n}))
            if mx is not None and mx <= 3000:
                out.append(("dur-long", {"op": "add", "pulse": _const_pulse(mx + clk, 0.0), "ch": n}))
            if sp.get("max_amp") is not None:
                out.append(("amp-over", {"op": "add", "pulse": _const_pulse(d_ok, sp["max_amp"] * 1.001 + 1e-3), "ch": n}))
            if sp.get("max_abs_detuning") is not None:
                out.append(("det-over", {"op": "add", "pulse": _const_pulse(d_ok, 0.0, -(sp["max_abs_detuning"] + 1e-3)), "ch": n}))
            if sp.get("min_avg_amp"):
                out.append(("avg-amp-low", {"op": "add", "pulse": _const_pulse(d_ok, sp["min_avg_amp"] * 0.5), "ch": n}))
            out.append(("bad-protocol", {"op": "add", "pulse": _const_pulse(d_ok, 0.0), "ch": n, "protocol": "asap"}))
        if mn > 1:
            out.append(("delay-short", {"op": "delay", "duration": mn - 1, "ch": n}))
            out.append(("delay-short", {"op": "delay", "duration": mn - 1, "ch": n, "at_rest": True}))
        out.append(("delay-negative", {"op": "delay", "duration": -4, "ch": n, "at_rest": True}))
        out.append(("delay-negative", {"op": "delay", "duration": -4, "ch": n}))
        out.append(("delay-type", {"op": "delay", "duration": "abc", "ch": n, "at_rest": True}))
        if mx is not None and mx <= 10 ** 6:
            out.append(("delay-long", {"op": "delay", "duration": mx + clk, "ch": n, "at_rest": True}))
        # ---- pushing the sequence over the device's maximum duration --------------------
        if max_seq is not None and ch_ends is not None and n in ch_ends:
            room = max_seq - ch_ends[n]
            over = room + clk - (room % clk) if room >= 0 else clk
            over = max(over, mn)
            if mx is None or over <= mx:
                if not c["eom"]:
                    out.append(("over-max-seq-pulse", {"op": "add", "pulse": _const_pulse(over, 0.0), "ch": n,
                                                       "protocol": "no-delay"}))
                out.append(("over-max-seq-delay", {"op": "delay", "duration": over, "ch": n}))
                out.append(("over-max-seq-delay", {"op": "delay", "duration": over, "ch": n, "at_rest": True}))
    return out
