"""Run context shared by all monitors: seeds, counters, verdict bookkeeping."""
from __future__ import annotations

import copy
import hashlib
import json
import random
import signal
import time
from collections import Counter
from typing import Any


def digest(obj: Any) -> str:
    return hashlib.sha256(
        json.dumps(obj, sort_keys=True, default=repr).encode()
    ).hexdigest()[:16]


def case_rng(seed: int, pid: str, idx: int) -> random.Random:
    h = hashlib.sha256(f"{seed}|{pid}|{idx}".encode()).digest()
    return random.Random(int.from_bytes(h[:8], "big"))


def np_seed(seed: int, pid: str, idx: int) -> int:
    h = hashlib.sha256(f"np|{seed}|{pid}|{idx}".encode()).digest()
    return int.from_bytes(h[:4], "big")


class CaseTimeout(BaseException):
    """Raised by the per-case watchdog. Not an Exception: `except Exception` in a harness (or in the code under test)
    must not swallow it and carry on without a watchdog."""


def _alarm(signum, frame):  # pragma: no cover
    raise CaseTimeout()


class Ctx:
    """Per-worker context. Monitors call count/nontrivial/violation/gray."""

    MAX_VIOL = 40

    def __init__(self, pid: str, tier: str, seed: int, shard: int = 0, nshards: int = 1):
        self.pid, self.tier, self.seed = pid, tier, seed
        self.shard, self.nshards = shard, nshards
        self.counters: Counter = Counter()
        self.nontrivial: set[str] = set()
        self.samples: list[Any] = []
        self.violations: list[dict] = []
        self.inconclusive: list[str] = []
        self.harness_errors: list[str] = []
        self.case: Any = None  # current case (JSON-able), set by the driver
        self.case_idx: int = -1
        self.evaluations = 0
        self._seen_viol: set[tuple] = set()

    # -- bookkeeping -------------------------------------------------------
    def count(self, key: str, n: int = 1) -> None:
        self.counters[key] += n

    def mark_nontrivial(self, key: Any) -> None:
        self.nontrivial.add(key if isinstance(key, str) else digest(key))

    def sample(self, case: Any, cap: int = 3) -> None:
        if len(self.samples) < cap:
            self.samples.append(copy.deepcopy(case))

    def gray(self, key: str) -> None:
        self.counters["gray:" + key] += 1

    def violation(self, clause: str, msg: str, mech: str | None = None,
                  case: Any = None, extra: Any = None) -> None:
        """Record a violation of `clause`; `mech` is the mechanism key used for
        known-finding classification (never a hash or random value)."""
        self.counters["violation:" + clause] += 1
        key = (clause, mech)
        if key in self._seen_viol and len(self.violations) >= 8:
            return
        self._seen_viol.add(key)
        if len(self.violations) >= self.MAX_VIOL:
            return
        self.violations.append({
            "property": self.pid, "clause": clause, "mech": mech or clause,
            "msg": msg[:1500], "case_idx": self.case_idx,
            "case": copy.deepcopy(case if case is not None else self.case),
            "extra": extra,
        })

    def dump(self) -> dict:
        return {
            "counters": dict(self.counters), "nontrivial": sorted(self.nontrivial),
            "samples": self.samples, "violations": self.violations,
            "inconclusive": self.inconclusive, "harness_errors": self.harness_errors[:20],
            "evaluations": self.evaluations,
        }


class watchdog:
    """Generous per-case wall-clock watchdog; firing is *inconclusive*, never a verdict."""

    def __init__(self, seconds: int):
        self.seconds = seconds

    def __enter__(self):
        self.old = signal.signal(signal.SIGALRM, _alarm)
        signal.alarm(self.seconds)

    def __exit__(self, *a):
        signal.alarm(0)
        signal.signal(signal.SIGALRM, self.old)
        return False


def now() -> float:
    return time.monotonic()
