"""C17 machinery: schema set (jsonschema used directly), canonical field-wise views, spec -> object builders,
the object registry (aliasing monitor) and the per-class round-trip checks.

pulser is imported lazily inside functions (the driver puts the tree first on sys.path).
"""
from __future__ import annotations

import dataclasses
import enum
import json
import os
import uuid as _uuid

import numpy as np

from vmon import objs
from vmon.ref import roundtrip as ref

TOL = 1e-12          # statement: parameters preserved "to 1e-12 relative"; fields compared numerically
COORD_TOL = 1e-6     # documented COORD_PRECISION of layouts (gray band only)


# =============================================================================== schemas
class Schemas:
    """The schema files of the tree, loaded from disk and cross-referenced through a local registry."""

    NAMES = ("device", "sequence", "register", "layout", "noise", "results", "config")
    EMPTY_NOISE = {"noise_types": [], "runs": None, "samples_per_run": None, "state_prep_error": 0.0,
                   "p_false_pos": 0.0, "p_false_neg": 0.0, "temperature": 0.0, "laser_waist": None,
                   "amp_sigma": 0.0, "relaxation_rate": 0.0, "dephasing_rate": 0.0,
                   "hyperfine_dephasing_rate": 0.0, "depolarizing_rate": 0.0, "eff_noise": []}

    def __init__(self):
        import pulser
        from referencing import Registry, Resource

        d = os.path.join(os.path.dirname(pulser.__file__), "json", "abstract_repr", "schemas")
        self.dir = d
        self.raw: dict[str, dict] = {}
        pairs = []
        for n in self.NAMES:
            with open(os.path.join(d, f"{n}-schema.json"), encoding="utf-8") as f:
                self.raw[n] = json.load(f)
            res = Resource.from_contents(self.raw[n])
            pairs.append((f"{n}-schema.json", res))
            sid = self.raw[n].get("$id")
            if sid and sid != f"{n}-schema.json":
                pairs.append((sid, res))
        self.registry = Registry().with_resources(pairs)
        self._v: dict = {}

    def validator(self, name: str, pointer: str | None = None):
        import jsonschema

        key = (name, pointer)
        if key not in self._v:
            sch = self.raw[name]
            cls = jsonschema.validators.validator_for(sch)
            schema = sch if pointer is None else {"$schema": sch["$schema"], "$ref": f"{name}-schema.json{pointer}"}
            self._v[key] = cls(schema, registry=self.registry)
        return self._v[key]

    def errors(self, name: str, inst, pointer: str | None = None) -> list[tuple[tuple, str]]:
        """[(path, message)] — empty when valid. A crash of the validator propagates."""
        errs = sorted(self.validator(name, pointer).iter_errors(inst), key=lambda e: (list(map(str, e.absolute_path)), e.message))
        return [(tuple(e.absolute_path), e.message[:240]) for e in errs[:5]]

    def config_errors(self, inst) -> tuple[list, str | None]:
        """Errors of an emulation-config document; second item = exception type if the one-pass validation crashed
        (then every file is applied in its own declared dialect: config-schema to the document with an empty noise
        model, noise-schema to the noise model)."""
        try:
            return self.errors("config", inst), None
        except Exception as e:  # noqa: BLE001 - validator crash (e.g. draft-07 tuple `items` walked as 2020-12)
            crash = type(e).__name__
        rest = dict(inst)
        nm = rest.get("noise_model")
        rest["noise_model"] = dict(self.EMPTY_NOISE)
        errs = self.errors("config", rest)
        errs += [(("noise_model",) + p, m) for p, m in self.errors("noise", nm, "#/definitions/NoiseModel")]
        return errs, crash


# =============================================================================== canonical views
_T: dict = {}


def T() -> dict:
    """Lazily imported pulser classes."""
    if not _T:
        import pulser
        import pulser_simulation
        import qutip
        from pulser.backend.config import EmulationConfig
        from pulser.backend.observable import Observable
        from pulser.backend.operator import Operator
        from pulser.backend.results import Results
        from pulser.backend.state import State
        from pulser.channels.base_channel import Channel
        from pulser.channels.eom import BaseEOM
        from pulser.devices._device_datacls import BaseDevice
        from pulser.math.abstract_array import AbstractArray
        from pulser.register.base_register import BaseRegister
        from pulser.register.register_layout import RegisterLayout
        from pulser.register.weight_maps import WeightMap

        assert pulser.__file__.startswith(os.environ.get("VERIF_REPO", "/repo")), pulser.__file__
        _T.update(Channel=Channel, BaseEOM=BaseEOM, BaseDevice=BaseDevice, NoiseModel=pulser.NoiseModel,
                  BaseRegister=BaseRegister, RegisterLayout=RegisterLayout, WeightMap=WeightMap, State=State,
                  Operator=Operator, Observable=Observable, EmulationConfig=EmulationConfig, Results=Results,
                  SimConfig=pulser_simulation.SimConfig, Qobj=qutip.Qobj, AbstractArray=AbstractArray)
    return _T


def _try(f, default="<raises>"):
    try:
        return f()
    except Exception as e:  # noqa: BLE001 - a property of the code under test may raise; the view records that
        return f"{default}:{type(e).__name__}"


def _fields(o, cls_name=None) -> dict:
    d = {"__cls__": cls_name or type(o).__name__}
    for f in dataclasses.fields(o):
        d[f.name] = view(_try(lambda f=f: getattr(o, f.name)))
    return d


def _ops_view(ops):
    if ops is None:
        return None
    out = []
    for w, tensor in ops:
        out.append([view(w), [[view(dict(q)), sorted(int(i) for i in inds)] for q, inds in tensor]])
    return out


def view(o):
    """Canonical, JSON-like, deterministic description of the public state of `o`."""
    if o is None or isinstance(o, (bool, str)):
        return o
    if isinstance(o, np.generic):
        return view(o.item())
    if isinstance(o, int):
        return int(o)
    if isinstance(o, float):
        return float(o)
    if isinstance(o, complex):
        return complex(o)
    if isinstance(o, enum.Enum):
        return o.name
    if isinstance(o, _uuid.UUID):
        return str(o)
    if isinstance(o, np.ndarray):
        return view(o.tolist())
    if isinstance(o, (list, tuple)):
        return [view(x) for x in o]
    if isinstance(o, (set, frozenset)):
        return sorted((view(x) for x in o), key=repr)
    if isinstance(o, dict):
        return {str(k): view(v) for k, v in o.items()}
    t = T()
    if isinstance(o, t["AbstractArray"]):
        return view(o.as_array(detach=True))
    if isinstance(o, t["Qobj"]):
        return {"__cls__": "Qobj", "dims": view(o.dims), "data": view(o.full())}
    if isinstance(o, t["Channel"]):
        d = _fields(o)
        d["basis"] = o.basis
        return d
    if isinstance(o, (t["BaseEOM"], t["NoiseModel"], t["BaseDevice"])):
        return _fields(o)
    if isinstance(o, t["SimConfig"]):
        d = _fields(o)
        d["eff_noise_opers"] = [view(q.full()) for q in o.eff_noise_opers]
        return d
    if isinstance(o, t["RegisterLayout"]):
        return {"__cls__": "RegisterLayout", "slug": o.slug, "dimensionality": _try(lambda: o.dimensionality),
                "number_of_traps": _try(lambda: o.number_of_traps), "coords": view(_try(lambda: o.coords))}
    if isinstance(o, t["WeightMap"]):
        sc, sw = np.asarray(o.sorted_coords), np.asarray(o.sorted_weights)
        return {"__cls__": type(o).__name__, "slug": o.slug,
                "map": [[view(c), view(w)] for c, w in zip(sc.tolist(), sw.tolist())],
                "as_given": {"trap_coordinates": view(o.trap_coordinates), "weights": view(o.weights)}}
    if isinstance(o, t["BaseRegister"]):
        li = getattr(o, "_layout_info", None)
        return {"__cls__": type(o).__name__, "ids": view(list(o.qubit_ids)),
                "coords": [view(c) for c in o.qubits.values()], "layout": view(o.layout),
                "trap_ids": None if li is None else view(li.trap_ids)}
    if isinstance(o, t["State"]):
        d = {"__cls__": type(o).__name__, "eigenstates": view(_try(lambda: o.eigenstates)),
             "n_qudits": _try(lambda: o.n_qudits), "qudit_dim": _try(lambda: o.qudit_dim),
             "amplitudes": view(getattr(o, "_amplitudes", None))}
        if hasattr(o, "_state"):
            d["qobj"] = view(o._state)
        return d
    if isinstance(o, t["Operator"]):
        d = {"__cls__": type(o).__name__, "eigenstates": view(getattr(o, "_eigenstates", None)),
             "n_qudits": getattr(o, "_n_qudits", None), "operations": _ops_view(getattr(o, "_operations", None))}
        if hasattr(o, "_operator"):
            d["qobj"] = view(o._operator)
        return d
    if isinstance(o, t["Observable"]):
        d = {"__cls__": type(o).__name__, "tag": o.tag, "tag_suffix": o._tag_suffix,
             "evaluation_times": view(o.evaluation_times), "uuid": str(o.uuid)}
        for a in ("num_shots", "one_state", "state", "operator"):
            if hasattr(o, a):
                d[a] = view(getattr(o, a))
        return d
    if isinstance(o, t["EmulationConfig"]):
        d = {"__cls__": type(o).__name__}
        for k, v in o._backend_options.items():
            d[k] = view(v)
        # ... and what the object answers when asked (an option kept outside the options dict still is a field)
        for k in ("observables", "callbacks", "default_evaluation_times", "initial_state", "with_modulation",
                  "prefer_device_noise_model", "noise_model", "sampling_rate", "interaction_matrix"):
            try:
                d["attr:" + k] = view(getattr(o, k))
            except AttributeError:
                pass
        return d
    if isinstance(o, t["Results"]):
        return {"__cls__": "Results", "atom_order": view(o.atom_order), "total_duration": view(o.total_duration),
                "tagmap": {k: str(v) for k, v in o._tagmap.items()},
                "results": {str(k): view(v) for k, v in o._results.items()},
                "times": {str(k): view(v) for k, v in o._times.items()}}
    if dataclasses.is_dataclass(o):
        return _fields(o)
    return {"__cls__": type(o).__name__, "repr": repr(o)[:200]}


def cheap_ser(o) -> str:
    """The object's own serialisation without schema validation (used in registry snapshots)."""
    from pulser.json.abstract_repr.serializer import AbstractReprEncoder

    t = T()
    try:
        if isinstance(o, t["Channel"]):
            return json.dumps(o._to_abstract_repr("id"), cls=AbstractReprEncoder)
        if isinstance(o, t["BaseRegister"]):
            return json.dumps({"register": o._to_abstract_repr(), "layout": o.layout}, cls=AbstractReprEncoder)
        if isinstance(o, t["Results"]):
            return json.dumps(o._to_abstract_repr(), cls=AbstractReprEncoder)
        if isinstance(o, t["SimConfig"]):
            return "n/a"
        return json.dumps(o, cls=AbstractReprEncoder)
    except Exception as e:  # noqa: BLE001
        return "ERR:" + type(e).__name__


def snapshot(o) -> dict:
    return {"attrs": view(o), "ser": cheap_ser(o)}


# =============================================================================== registry (aliasing monitor)
class ObjRegistry:
    """Every object made in a case; after each later construction / decoding all earlier ones are re-snapshotted."""

    def __init__(self, ctx):
        self.ctx = ctx
        self.items: list[dict] = []

    def event(self, what: str, new: list) -> None:
        """`what` happened (construction / decoding) and produced the objects `new` = [(label, obj)]."""
        ctx = self.ctx
        new = [(lb, o) for lb, o in new if o is not None]
        for it in self.items:
            if any(it["obj"] is o for _, o in new):
                continue  # the very same (singleton) object was handed back
            snap = snapshot(it["obj"])
            ctx.count("aliasing_resnapshots")
            d = ref.diff(it["snap"], snap, 0.0)
            if d:
                path, a, b, _ = d[0]
                if path and path[0] == "ser":
                    cls, field = it["snap"]["attrs"].get("__cls__", "?"), "serialisation"
                else:
                    cls, field = ref.locate(it["snap"], path)
                ctx.violation("aliasing",
                              f"{it['label']} (made earlier) changed at {'/'.join(map(str, path))}: "
                              f"{ref.jsonable(a)!r} -> {ref.jsonable(b)!r} after {what}",
                              mech=f"aliasing:{cls}.{field}")
                it["snap"] = snap
        for lb, o in new:
            if not any(it["obj"] is o for it in self.items):
                self.items.append({"label": lb, "obj": o, "snap": snapshot(o)})
        ctx.count("registry_events")


# =============================================================================== spec -> objects
def cx(v):
    """Spec number: x | [re, im]."""
    if isinstance(v, list):
        return complex(v[0], v[1])
    return v


def build_matrix(m: dict):
    re = np.array(m["re"], dtype=float)
    arr = re if m.get("im") is None else re + 1j * np.array(m["im"], dtype=float)
    how = m.get("as", "list")
    if how == "ndarray":
        return arr
    if how == "qobj":
        import qutip

        return qutip.Qobj(arr)
    if m.get("im") is None and m.get("ints"):
        lst = [[int(x) for x in row] for row in re.tolist()]
    else:
        lst = arr.tolist()
    return tuple(tuple(r) for r in lst) if how == "tuple" else lst


def noise_kwargs(s: dict) -> dict:
    kw = {k: v for k, v in s.items() if k not in ("eff_noise_opers", "eff_noise_rates", "_as")}
    if "eff_noise_opers" in s:
        ops = [build_matrix(m) for m in s["eff_noise_opers"]]
        rates = list(s["eff_noise_rates"])
        if s.get("_as") == "list":
            kw["eff_noise_opers"], kw["eff_noise_rates"] = ops, rates
        else:
            kw["eff_noise_opers"], kw["eff_noise_rates"] = tuple(ops), tuple(rates)
    return kw


def ref_noise_kwargs(s: dict) -> dict:
    """The same keyword arguments for the reference (operators as plain nested lists)."""
    kw = {k: v for k, v in s.items() if k not in ("eff_noise_opers", "_as")}
    if "eff_noise_opers" in s:
        kw["eff_noise_opers"] = [m["re"] for m in s["eff_noise_opers"]]
    return kw


def build_noise(s: dict):
    import pulser

    return pulser.NoiseModel(**noise_kwargs(s))


def state_cls(name: str):
    if name == "QutipState":
        from pulser_simulation import QutipState

        return QutipState
    from pulser.backend.state import StateRepr

    return StateRepr


def op_cls(name: str):
    if name == "QutipOperator":
        from pulser_simulation import QutipOperator

        return QutipOperator
    from pulser.backend.operator import OperatorRepr

    return OperatorRepr


AMP_MODES = {"plain": 0, "numpy-scalars": 0, "caller-edits-its-dict-afterwards": 0}


def build_state(s: dict):
    """The way the amplitudes are handed over varies with the spec (deterministically, so that a replay does the same):
    plain Python numbers; numpy scalars (complex64 / float32, accepted as SupportsComplex by the QuTiP state); or a
    dict the caller goes on to edit after the state was made (a QuTiP state keeps its own converted amplitudes)."""
    import zlib

    eig = tuple(s["eig"]) if s.get("eig_as", "tuple") == "tuple" else list(s["eig"])
    amps = {k: cx(v) for k, v in s["amps"].items()}
    mode = "plain"
    if s["type"] == "QutipState":
        mode = ["plain", "numpy-scalars", "caller-edits-its-dict-afterwards", "plain"][zlib.crc32(repr(sorted(s["amps"])).encode()) % 4]
    if mode == "numpy-scalars" and not all(float(np.float32(x)) == x for v in amps.values() for x in (complex(v).real, complex(v).imag)):
        mode = "plain"  # (single precision would change the state: only values it represents exactly are handed over so)
    AMP_MODES[mode] += 1
    if mode == "numpy-scalars":
        amps = {k: (np.complex64(v) if isinstance(v, complex) else np.float32(v)) for k, v in amps.items()}
    st = state_cls(s["type"]).from_state_amplitudes(eigenstates=eig, amplitudes=amps)
    if mode == "caller-edits-its-dict-afterwards":
        for k in list(amps):
            amps[k] = amps[k] * 2 + 1
        amps["not a basis state"] = 0.0
    return st


def build_operations(ops: list, coll: str = "list"):
    mk = {"list": list, "set": set, "tuple": tuple}[coll]
    return [(cx(w), [({k: cx(c) for k, c in q.items()}, mk(inds)) for q, inds in tensor]) for w, tensor in ops]


def build_operator(s: dict):
    eig = tuple(s["eig"]) if s.get("eig_as", "tuple") == "tuple" else list(s["eig"])
    return op_cls(s["type"]).from_operator_repr(eigenstates=eig, n_qudits=s["n"],
                                                operations=build_operations(s["ops"], s.get("coll", "list")))


def build_observable(s: dict):
    import pulser.backend as B

    kw = {}
    if s.get("evaluation_times") is not None:
        et = s["evaluation_times"]
        kw["evaluation_times"] = tuple(et) if s.get("et_as") == "tuple" else list(et)
    if "tag_suffix" in s:
        kw["tag_suffix"] = s["tag_suffix"]
    for k in ("num_shots", "one_state"):
        if k in s:
            kw[k] = s[k]
    cls = getattr(B, s["o"])
    if s["o"] == "Fidelity":
        return cls(build_state(s["state"]), **kw)
    if s["o"] == "Expectation":
        return cls(build_operator(s["operator"]), **kw)
    return cls(**kw)


def build_config(s: dict):
    if s["type"] == "QutipConfig":
        from pulser_simulation import QutipConfig as cls
    else:
        from pulser.backend.config import EmulationConfig as cls
    kw: dict = {"observables": [build_observable(o) for o in s["observables"]]}
    if "default_evaluation_times" in s:
        kw["default_evaluation_times"] = s["default_evaluation_times"]
    if s.get("initial_state") is not None:
        kw["initial_state"] = build_state(s["initial_state"])
    for k in ("with_modulation", "prefer_device_noise_model", "sampling_rate", "interaction_matrix"):
        if k in s:
            kw[k] = s[k]
    if "noise_model" in s:
        kw["noise_model"] = build_noise(s["noise_model"])
    kw.update(s.get("extra", {}))
    return cls(**kw)


def build_value(v: dict):
    from collections import Counter

    k = v["k"]
    if k == "float":
        return float(v["v"])
    if k == "npfloat":
        return np.float64(v["v"])
    if k == "int":
        return int(v["v"])
    if k == "complex":
        return complex(v["v"][0], v["v"][1])
    if k == "counter":
        return Counter(v["v"])
    if k == "list":
        return list(v["v"])
    if k == "array":
        return np.array(v["v"], dtype=float)
    raise ValueError(k)


def build_results(s: dict):
    from pulser.backend.results import Results

    r = Results(atom_order=tuple(s["atom_order"]), total_duration=s["total_duration"])
    for e in s["entries"]:
        ob = build_observable(e["obs"])
        for t, v in zip(e["times"], e["values"]):
            r._store(observable=ob, time=t, value=build_value(v))
    return r


def build_device(s: dict):
    import pulser
    from pulser.devices import Device, VirtualDevice

    if s["kind"] == "builtin":
        return getattr(pulser, s["name"])
    kw: dict = dict(
        name=s.get("name", "GenDevice"), dimensions=s["dimensions"], rydberg_level=s["rydberg_level"],
        min_atom_distance=s["min_atom_distance"], max_atom_num=s.get("max_atom_num"),
        max_radial_distance=s.get("max_radial_distance"),
        channel_objects=tuple(objs.build_channel(c) for c in s["channels"]),
        dmm_objects=tuple(objs.build_dmm(d) for d in s.get("dmm", [])),
    )
    if s.get("channel_ids", "custom") == "custom":
        kw["channel_ids"] = tuple(c["id"] for c in s["channels"])
    for k in ("interaction_coeff_xy", "supports_slm_mask", "max_layout_filling", "optimal_layout_filling",
              "min_layout_traps", "max_layout_traps", "max_sequence_duration", "max_runs", "requires_layout",
              "short_description"):
        if k in s:
            kw[k] = s[k]
    if "default_noise_model" in s:
        kw["default_noise_model"] = build_noise(s["default_noise_model"])
    if s["kind"] == "virtual":
        if "reusable_channels" in s:
            kw["reusable_channels"] = s["reusable_channels"]
        return VirtualDevice(**kw)
    if "accepts_new_layouts" in s:
        kw["accepts_new_layouts"] = s["accepts_new_layouts"]
    if "pre_calibrated_layouts" in s:
        kw["pre_calibrated_layouts"] = tuple(objs.build_layout(la["traps"], la.get("slug"))
                                             for la in s["pre_calibrated_layouts"])
    return Device(**kw)


def build_register(s: dict):
    if s["kind"] == "reg":
        return objs.build_register(s)
    layout = objs.build_layout(s["traps"], s.get("slug"))
    return layout.define_register(*s["trap_ids"], qubit_ids=s["ids"])


def build_detmap(s: dict):
    from pulser.register.weight_maps import DetuningMap

    if s.get("via") == "register":
        reg = build_register(s["register"])
        return reg.define_detuning_map({q: w for q, w in zip(s["ids"], s["weights"])}, **({"slug": s["slug"]} if "slug" in s else {}))
    if s.get("via") == "layout":
        layout = objs.build_layout(s["traps"])
        return layout.define_detuning_map({i: w for i, w in zip(s["trap_ids"], s["weights"])}, **({"slug": s["slug"]} if "slug" in s else {}))
    return DetuningMap(np.array(s["traps"], dtype=float), list(s["weights"]), **({"slug": s["slug"]} if "slug" in s else {}))


def build_simconfig(s: dict):
    import qutip
    from pulser_simulation import SimConfig

    kw = {k: v for k, v in s.items() if k not in ("eff_noise_opers", "noise")}
    kw["noise"] = tuple(s["noise"])
    if kw.get("laser_waist") == "inf":
        kw["laser_waist"] = float("inf")
    if "eff_noise_opers" in s:
        kw["eff_noise_opers"] = [qutip.Qobj(build_matrix(dict(m, **{"as": "ndarray"}))) for m in s["eff_noise_opers"]]
    return SimConfig(**kw)


BUILDERS = {
    "device": lambda s: build_device(s), "channel": lambda s: objs.build_channel(s), "dmm": lambda s: objs.build_dmm(s),
    "register": build_register, "layout": lambda s: objs.build_layout(s["traps"], s.get("slug")),
    "detmap": build_detmap, "noise": build_noise, "state": build_state, "operator": build_operator,
    "config": build_config, "results": build_results, "simconfig": build_simconfig,
}


# =============================================================================== checks
def _has_eq(o) -> bool:
    return type(o).__eq__ is not object.__eq__


def _fmt(d) -> str:
    path, a, b, why = d
    return f"{'/'.join(map(str, path))}: {ref.jsonable(a)!r} != {ref.jsonable(b)!r} ({why})"


class Checker:
    """Round-trip / schema / conversion clauses for one case (one registry)."""

    def __init__(self, ctx, schemas: Schemas):
        self.ctx, self.sch = ctx, schemas
        self.reg = ObjRegistry(ctx)

    # ---- generic pieces ---------------------------------------------------------------------
    def compare(self, cls: str, clause: str, prefix: str, a, b, drop: tuple = (), gray_drop: tuple = ()) -> bool:
        """Field-wise comparison of the views of original `a` and replica `b`; then `==` where offered."""
        ctx = self.ctx
        va, vb = view(a), view(b)
        for g in gray_drop:  # fields the format deliberately does not carry: no verdict, but counted
            if ref.diff(_collect(va, g), _collect(vb, g), TOL, cap=1):
                ctx.gray(f"{cls}:{g}-not-preserved")
        va, vb = ref.strip(va, drop + gray_drop), ref.strip(vb, drop + gray_drop)
        ds = ref.diff(va, vb, TOL)
        ok = True
        seen = set()
        for d in ds:
            c, f = ref.locate(va, d[0])
            if d[3] == "value" and f == "coords" and ref.is_num(d[1]) and ref.is_num(d[2]) and abs(d[1] - d[2]) <= COORD_TOL:
                ctx.gray("coords-rounded-to-COORD_PRECISION")
                continue
            ok = False
            mech = f"{prefix}:{c}:{f}" + (f":{d[3]}" if d[3] not in ("value",) else "")
            if mech in seen:
                continue
            seen.add(mech)
            ctx.violation(clause, f"{cls}: replica differs at {_fmt(d)}", mech=mech)
        if ok and _has_eq(a):
            try:
                eq = (b == a)
                eq = bool(eq)
            except Exception as e:  # noqa: BLE001 - e.g. ambiguous truth value of arrays stored in Results
                ctx.gray(f"{cls}:eq-raises:{type(e).__name__}")
                eq = True
            ctx.count(f"eq_checked:{cls}")
            if not eq:
                ok = False
                ctx.violation(clause, f"{cls}: replica is field-wise equal but `replica == original` is False",
                              mech=f"{prefix}-neq:{cls}")
        return ok

    def abstract(self, cls: str, label: str, obj, *, ser, deser, schema, qual=None, drop=(), gray_drop=(),
                 refusal=None):
        """serialise -> direct schema validation -> deserialise -> compare. Returns the replica or None."""
        ctx = self.ctx
        qual = qual or (lambda e: type(e).__name__)
        try:
            s = ser(obj)
        except _Reported:
            return None
        except Exception as e:  # noqa: BLE001 - verdict below
            if refusal is not None and refusal(e):
                ctx.count(f"documented_refusal:{cls}")
                return None
            q = qual(e)
            if f"{cls}:{q}" == "DetuningMap:3d" or q == "DetuningMap:3d":
                # the abstract format has no z coordinate for detuning-map traps: outside the format (as in C04)
                ctx.gray("3d-detuning-map-not-in-abstract-format")
                return None
            ctx.violation("serialise", f"{cls}: serialisation raised {type(e).__name__}: {str(e)[:300]}",
                          mech=f"serialise-raises:{q}" if ":" in q else f"serialise-raises:{cls}:{q}")
            return None
        inst = json.loads(s)
        try:
            errs = schema(inst)
        except Exception as e:  # noqa: BLE001
            ctx.violation("schema", f"{cls}: validator crashed on the produced document: {type(e).__name__}: {str(e)[:200]}",
                          mech=f"schema-unusable:{cls}:{type(e).__name__}")
            errs = []
        ctx.count(f"schema_checked:{cls}")
        if errs:
            p, m = errs[0]
            ctx.violation("schema", f"{cls}: document invalid under its schema at /{'/'.join(map(str, p))}: {m}",
                          mech=f"schema-invalid:{cls}:{_schema_qual(inst, p)}")
        try:
            rep = deser(s)
        except Exception as e:  # noqa: BLE001
            q = qual(e)
            ctx.violation("roundtrip", f"{cls}: deserialising its own serialisation raised {type(e).__name__}: {str(e)[:300]}",
                          mech=f"deserialise-raises:{q}" if ":" in q else f"deserialise-raises:{cls}:{q}")
            return None
        self.reg.event(f"decoding {label}", [(label + "'", rep)])
        ctx.count(f"roundtrip:{cls}")
        if self.compare(cls, "roundtrip", "roundtrip-differs", obj, rep, drop, gray_drop):
            # equal objects must serialise equally
            s2 = cheap_ser(rep)
            s1 = cheap_ser(obj)
            if s1 != s2 and not s1.startswith("ERR:"):
                try:
                    d = ref.diff(json.loads(s1), json.loads(s2), TOL)
                except Exception:  # noqa: BLE001
                    d = [((), s1[:80], s2[:80], "value")]
                if d:
                    ctx.violation("roundtrip", f"{cls}: replica serialises differently: {_fmt(d[0])}",
                                  mech=f"reserialise-differs:{cls}:{d[0][0][0] if d[0][0] else ''}")
        return rep

    def legacy(self, cls: str, label: str, obj, drop=(), gray_drop=()):
        from pulser.json.coders import PulserDecoder, PulserEncoder

        ctx = self.ctx
        try:
            s = json.dumps(obj, cls=PulserEncoder)
        except Exception as e:  # noqa: BLE001 - legacy format not offered for this object
            ctx.count(f"legacy_not_offered:{cls}:{type(e).__name__}")
            return None
        try:
            rep = json.loads(s, cls=PulserDecoder)
        except Exception as e:  # noqa: BLE001
            ctx.violation("legacy", f"{cls}: legacy decoding of its own encoding raised {type(e).__name__}: {str(e)[:300]}",
                          mech=f"legacy-decode-raises:{cls}:{type(e).__name__}")
            return None
        self.reg.event(f"legacy decoding {label}", [(label + "''", rep)])
        ctx.count(f"legacy_roundtrip:{cls}")
        self.compare(cls, "legacy", "legacy-differs", obj, rep, drop, gray_drop)
        return rep

    # ---- per class ------------------------------------------------------------------------------
    def device(self, label, spec, dev):
        cls = type(dev).__name__
        self.abstract(cls, label, dev, ser=lambda d: d.to_abstract_repr(),
                      deser=lambda s: type(dev).from_abstract_repr(s),
                      schema=lambda i: self.sch.errors("device", i), gray_drop=("short_description",))
        self.legacy(cls, label, dev, gray_drop=("short_description",))

    def channel(self, label, spec, ch):
        from pulser.channels.dmm import DMM
        from pulser.json.abstract_repr.deserializer import _deserialize_channel
        from pulser.json.abstract_repr.serializer import AbstractReprEncoder

        cls = type(ch).__name__
        is_dmm = isinstance(ch, DMM)
        ptrs = ["#/definitions/DMMChannel" if is_dmm else "#/definitions/GenericChannel"]
        if not ch.is_virtual():
            ptrs.append("#/definitions/PhysicalDMMChannel" if is_dmm else "#/definitions/PhysicalChannel")

        def schema(inst):
            out = []
            for p in ptrs:
                out += self.sch.errors("device", inst, p)
            return out

        cid = spec.get("id", "dmm_0")
        self.abstract(cls, label, ch, ser=lambda c: json.dumps(c._to_abstract_repr(cid), cls=AbstractReprEncoder),
                      deser=lambda s: _deserialize_channel(json.loads(s)), schema=schema)
        self.legacy(cls, label, ch)

    def register(self, label, spec, reg):
        cls = type(reg).__name__
        self.abstract(cls, label, reg, ser=lambda r: r.to_abstract_repr(),
                      deser=lambda s: type(reg).from_abstract_repr(s),
                      schema=lambda i: self.sch.errors("register", i))
        self.legacy(cls, label, reg)

    def layout(self, label, spec, lay):
        self.abstract("RegisterLayout", label, lay, ser=lambda x: x.to_abstract_repr(),
                      deser=lambda s: type(lay).from_abstract_repr(s),
                      schema=lambda i: self.sch.errors("layout", i))
        self.legacy("RegisterLayout", label, lay)

    def detmap(self, label, spec, dm):
        from pulser.json.abstract_repr.deserializer import _deserialize_det_map
        from pulser.json.abstract_repr.serializer import AbstractReprEncoder

        dim = np.asarray(dm.trap_coordinates).shape[1]
        self.abstract("DetuningMap", label, dm, ser=lambda x: json.dumps(x, cls=AbstractReprEncoder),
                      deser=lambda s: _deserialize_det_map(json.loads(s)),
                      schema=lambda i: self.sch.errors("sequence", i, "#/definitions/WeightMap"),
                      qual=lambda e: f"{dim}d" if dim == 3 else type(e).__name__, gray_drop=("as_given",))
        self.legacy("DetuningMap", label, dm, gray_drop=("as_given",))

    def noise(self, label, spec, nm):
        import pulser

        ctx = self.ctx
        kw = ref_noise_kwargs(spec)
        exp = ref.expected_noise_types(kw)
        got = tuple(nm.noise_types)
        ctx.count("noise_types_checked")
        if len(set(got)) != len(got) or set(got) != exp:
            delta = sorted(set(got) ^ exp)
            ctx.violation("noise-types", f"noise_types={got} but the parameters set activate {sorted(exp)}",
                          mech="noise-types:" + "+".join(delta))
        has_qobj = any(m.get("as") == "qobj" for m in spec.get("eff_noise_opers", []))

        if has_qobj:  # the annotation of eff_noise_opers is ArrayLike; a Qobj is accepted but not promised to serialise
            try:
                nm.to_abstract_repr()
            except TypeError:
                ctx.gray("NoiseModel:qobj-operator-not-serialisable")
            self.simconfig(label, spec, nm, kw)
            return
        self.abstract("NoiseModel", label, nm, ser=lambda x: x.to_abstract_repr(),
                      deser=lambda s: pulser.NoiseModel.from_abstract_repr(s),
                      schema=lambda i: self.sch.errors("noise", i))
        self.simconfig(label, spec, nm, kw)

    def simconfig(self, label, spec, nm, kw):
        from pulser_simulation import SimConfig

        ctx = self.ctx
        try:
            sc = SimConfig.from_noise_model(nm)
        except Exception as e:  # noqa: BLE001
            ctx.violation("simconfig", f"SimConfig.from_noise_model raised {type(e).__name__}: {str(e)[:300]}",
                          mech=f"from_noise_model-raises:{type(e).__name__}")
            return
        self.reg.event(f"SimConfig.from_noise_model({label})", [(label + ".sc", sc)])
        ctx.count("simconfig_from_checked")
        rel = ref.relevant_params(kw)
        if set(sc.noise) != set(nm.noise_types) or len(sc.noise) != len(set(sc.noise)):
            ctx.violation("simconfig", f"from_noise_model: noise={sc.noise} vs noise_types={nm.noise_types}",
                          mech="simconfig-types:from")
        for p in sorted(rel):
            a = getattr(nm, p)
            if p == "with_leakage":
                b = sc.with_leakage
            else:
                b = getattr(sc, ref.SIMCONFIG_NAME.get(p, p))
            if p == "temperature":
                b = b * 1e6  # SimConfig stores K, NoiseModel µK
            if p == "eff_noise_opers":
                a, b = [view(_as_array(x)) for x in a], [view(q.full()) for q in b]
            if ref.diff(view(a), view(b), TOL):
                ctx.violation("simconfig", f"from_noise_model: {p}={ref.jsonable(view(a))!r} became {ref.jsonable(view(b))!r}",
                              mech=f"simconfig-param:from:{p}")
        if "amplitude" in nm.noise_types and nm.laser_waist is None and sc.laser_waist != float("inf"):
            ctx.violation("simconfig", f"undefined laser_waist became {sc.laser_waist}", mech="simconfig-param:from:laser_waist")
        try:
            back = sc.to_noise_model()
        except Exception as e:  # noqa: BLE001
            ctx.violation("simconfig", f"SimConfig.to_noise_model raised {type(e).__name__}: {str(e)[:300]}",
                          mech=f"to_noise_model-raises:{type(e).__name__}")
            return
        self.reg.event(f"{label}.sc.to_noise_model()", [(label + ".back", back)])
        ctx.count("simconfig_to_checked")
        if set(back.noise_types) != set(nm.noise_types):
            ctx.violation("simconfig", f"to_noise_model: noise_types {nm.noise_types} became {back.noise_types}",
                          mech="simconfig-types:to")
        for p in sorted(rel):
            a, b = getattr(nm, p), getattr(back, p)
            if p == "eff_noise_opers":
                a, b = [view(_as_array(x)) for x in a], [view(_as_array(x)) for x in b]
            if ref.diff(view(a), view(b), TOL):
                ctx.violation("simconfig", f"to_noise_model: {p}={ref.jsonable(view(a))!r} became {ref.jsonable(view(b))!r}",
                              mech=f"simconfig-param:to:{p}")

    def simconfig_first(self, label, spec, sc):
        """SimConfig -> NoiseModel -> SimConfig: active types and every relevant parameter survive."""
        from pulser_simulation import SimConfig

        ctx = self.ctx
        inv = {v: k for k, v in ref.SIMCONFIG_NAME.items()}
        types = set(sc.noise)
        orig = {}
        for f in dataclasses.fields(sc):
            if f.name in ("noise", "solver_options"):
                continue
            v = getattr(sc, f.name)
            if f.name == "temperature":
                v = v * 1e6
            if f.name == "laser_waist" and v == float("inf"):
                v = None
            if f.name == "eff_noise_opers":
                v = [view(q.full()) for q in v]
            orig[inv.get(f.name, f.name)] = v
        orig["with_leakage"] = "leakage" in types
        rel = ref.relevant_params(orig, types)
        try:
            nm = sc.to_noise_model()
        except Exception as e:  # noqa: BLE001
            ctx.violation("simconfig", f"SimConfig.to_noise_model raised {type(e).__name__}: {str(e)[:300]}",
                          mech=f"to_noise_model-raises:{type(e).__name__}")
            return
        self.reg.event(f"{label}.to_noise_model()", [(label + ".nm", nm)])
        ctx.count("simconfig_first_checked")
        if set(nm.noise_types) != types:
            ctx.violation("simconfig", f"to_noise_model: noise {sorted(types)} became {nm.noise_types}", mech="simconfig-types:to")
        for p in sorted(rel):
            a, b = orig[p], getattr(nm, p)
            if p == "eff_noise_opers":
                b = [view(_as_array(x)) for x in b]
            if ref.diff(view(a), view(b), TOL):
                ctx.violation("simconfig", f"to_noise_model: {p}={ref.jsonable(view(a))!r} became {ref.jsonable(view(b))!r}",
                              mech=f"simconfig-param:to:{p}")
        try:
            sc2 = SimConfig.from_noise_model(nm)
        except Exception as e:  # noqa: BLE001
            ctx.violation("simconfig", f"SimConfig.from_noise_model raised {type(e).__name__}: {str(e)[:300]}",
                          mech=f"from_noise_model-raises:{type(e).__name__}")
            return
        self.reg.event(f"SimConfig.from_noise_model({label}.nm)", [(label + ".sc2", sc2)])
        if set(sc2.noise) != types:
            ctx.violation("simconfig", f"from_noise_model: noise {sorted(types)} became {sc2.noise}", mech="simconfig-types:from")
        for p in sorted(rel - {"with_leakage"}):
            n = ref.SIMCONFIG_NAME.get(p, p)
            a, b = getattr(sc, n), getattr(sc2, n)
            if p == "eff_noise_opers":
                a, b = [view(q.full()) for q in a], [view(q.full()) for q in b]
            if ref.diff(view(a), view(b), TOL):
                ctx.violation("simconfig", f"round trip through NoiseModel: {n}={ref.jsonable(view(a))!r} became "
                                           f"{ref.jsonable(view(b))!r}", mech=f"simconfig-param:from:{p}")

    def state(self, label, spec, st):
        from pulser.json.abstract_repr.backend import _deserialize_state
        from pulser.json.abstract_repr.serializer import AbstractReprEncoder

        cls = type(st).__name__
        unit = spec.get("norm", "unit") == "unit"
        self.abstract(cls, label, st, ser=lambda x: json.dumps(x, cls=AbstractReprEncoder),
                      deser=lambda s: _deserialize_state(json.loads(s), type(st)),
                      schema=lambda i: self.sch.errors("config", i, "#/state"),
                      qual=lambda e: type(e).__name__ if unit else "not-unit-norm")

    def operator(self, label, spec, op):
        from pulser.json.abstract_repr.backend import _deserialize_operator
        from pulser.json.abstract_repr.serializer import AbstractReprEncoder

        cls = type(op).__name__
        self.abstract(cls, label, op, ser=lambda x: json.dumps(x, cls=AbstractReprEncoder),
                      deser=lambda s: _deserialize_operator(json.loads(s), type(op)),
                      schema=lambda i: self.sch.errors("config", i, "#/operator"))

    def config(self, label, spec, cfg):
        ctx = self.ctx
        cls = type(cfg).__name__
        feats = config_features(spec)

        def qual(e):
            return config_cause(e, feats)

        def refusal(e):
            return "StateResult" in feats and type(e).__name__ == "AbstractReprError" and "StateResult" in str(e)

        crashed = {}

        def schema(inst):
            errs, crash = self.sch.config_errors(inst)
            if crash:
                crashed["t"] = crash
            return errs

        def ser(c):
            try:
                return c.to_abstract_repr()
            except Exception as e:  # noqa: BLE001 - classify, then look at the unvalidated document
                if refusal(e):
                    raise
                try:
                    s = c.to_abstract_repr(skip_validation=True)
                except Exception:  # noqa: BLE001
                    raise e from None
                inst = json.loads(s)
                errs = schema(inst)
                if errs:
                    p, m = errs[0]
                    ctx.violation("schema", f"{cls}: to_abstract_repr raised {type(e).__name__}; the document is invalid "
                                            f"under config-schema.json at /{'/'.join(map(str, p))}: {m}",
                                  mech=f"schema-invalid:config:{_schema_qual(inst, p)}")
                else:
                    ctx.violation("serialise", f"{cls}: to_abstract_repr raised {type(e).__name__} ({str(e)[:160]}) on a "
                                               "document that is valid when every schema file is applied in its own dialect",
                                  mech=f"serialise-raises:{qual(e)}")
                ctx.count(f"schema_checked:{cls}")
                raise _Reported() from None

        try:
            self.abstract(cls, label, cfg, ser=ser, deser=lambda s: type(cfg).from_abstract_repr(s), schema=schema,
                          qual=qual, refusal=refusal, gray_drop=("uuid",))
        finally:
            if crashed:
                ctx.count("config_schema_validated_per_dialect")

    def results(self, label, spec, res):
        from pulser.backend.results import Results

        self.abstract("Results", label, res, ser=lambda x: x.to_abstract_repr(),
                      deser=lambda s: Results.from_abstract_repr(s),
                      schema=lambda i: self.sch.errors("results", i))


class _Reported(Exception):
    pass


def _as_array(x):
    if hasattr(x, "full"):
        return np.array(x.full(), dtype=complex)
    return np.array(x, dtype=complex)


def _collect(v, key: str, out: list | None = None) -> list:
    """All values stored under `key` at any depth of a view, in traversal order."""
    out = [] if out is None else out
    if isinstance(v, dict):
        for k, x in v.items():
            if k == key:
                out.append(x)
            else:
                _collect(x, key, out)
    elif isinstance(v, list):
        for x in v:
            _collect(x, key, out)
    return out


def _schema_qual(inst, path: tuple) -> str:
    """Stable qualifier of a schema error: the observable tag if the error sits in an observable, else the JSON
    path without indices."""
    cur = inst
    for k in path:
        try:
            cur = cur[k]
        except (KeyError, IndexError, TypeError):
            break
        if isinstance(cur, dict) and "observable" in cur:
            return str(cur["observable"])
    return "/".join(str(k) for k in path if not isinstance(k, int)) or "root"


def config_cause(e: Exception, feats: list[str]) -> str:
    """Mechanism of a failing config (de)serialisation, from the exception and the features of the witness."""
    name, msg = type(e).__name__, str(e)
    if name == "AbstractReprError" and "modified in place" in msg and "not-unit-norm" in feats:
        return "QutipState:not-unit-norm"  # same mechanism as for the bare state
    if name == "AttributeError" and "eff_noise" in feats:
        return "config:eff_noise"
    return "config:" + name


def config_features(spec: dict) -> list[str]:
    """Features of a config spec that name the mechanism of a failure (stable, derived from the witness)."""
    f = []
    nm = spec.get("noise_model") or {}
    if nm.get("eff_noise_opers"):
        f.append("eff_noise")
    names = {o["o"] for o in spec.get("observables", [])}
    for n in ("StateResult", "EnergySecondMoment"):
        if n in names:
            f.append(n)
    sts = [spec.get("initial_state")] + [o.get("state") for o in spec.get("observables", [])]
    if any(s is not None and s.get("norm", "unit") != "unit" and s.get("type") == "QutipState" for s in sts):
        f.append("not-unit-norm")
    return f
