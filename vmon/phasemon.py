"""C07 monitor: shadow accumulator of phase references + scheduled pulse phases + barriers."""
from __future__ import annotations

import math

from vmon.prog import Event, Monitor, Runner
from vmon.seqmon import ADD_OPS

TWO_PI = 2 * math.pi


def wrap_diff(x: float, y: float) -> float:
    return abs((x - y + math.pi) % TWO_PI - math.pi)


class PhaseMonitor(Monitor):
    def __init__(self, ctx):
        self.ctx = ctx
        self.shadow: dict[str, dict[str, float]] = {}
        self.tainted = False
        self.last_end: dict = {}  # basis -> atom -> end of the latest pulse seen on it
        self.sbar: dict = {}      # basis -> atom -> time its latest phase shift took effect (lower bound)
        self.subset_shift = False
        self.multi_basis_channels = False

    def after(self, r: Runner, ev: Event) -> None:
        ctx = self.ctx
        if ev.stage != "call" or self.tainted:
            return
        from vmon.snap import state_key

        if ev.exc is not None:
            if state_key(ev.pre) != state_key(ev.post):
                self.tainted = True
                ctx.count("discarded_after_C09")
            return
        pre, post = ev.pre, ev.post
        if not post["flags"]["building"]:
            return
        qids = [str(q) for q in r.seq._register.qubit_ids]
        for b in post["bref"]:
            if b not in self.shadow:
                self.shadow[b] = {q: 0.0 for q in qids}
        if ev.ro:
            return
        op = ev.op
        name = ev.name
        # ---- what the history says must have been added -------------------------------------------
        absorbed = None
        if name in ("phase_shift", "phase_shift_index"):
            basis = op.get("basis", "digital")
            tg = op.get("targets") or None
            if tg is None:
                tgs = qids
            elif name == "phase_shift_index":
                tgs = [qids[i] for i in tg]
            else:
                tgs = [str(t) for t in tg]
            phi = float(ev.args[0])
            for q in set(tgs):
                self.shadow[basis][q] += phi
                # the shift acts when the atom was last driven (lower bound: the pulses this monitor saw scheduled)
                sb = self.sbar.setdefault(basis, {})
                sb[q] = max(sb.get(q, 0), self.last_end.get(basis, {}).get(q, 0))
            if len(set(tgs)) < len(qids):
                self.subset_shift = True
            ctx.count("explicit_shifts")
        elif name in ADD_OPS:
            ch = op["ch"]
            cpre = pre["chans"].get(ch)
            cpost = post["chans"].get(ch)
            if cpre is not None and cpre["slots"] and cpost is not None:
                basis = cpre["obj"].basis
                tgs = list(cpre["slots"][-1]["targets"])
                new = [s for s in cpost["slots"][len(cpre["slots"]):] if s["pulse"] is not None]
                slot = new[-1] if new else None
                req_phase = req_pps = None
                if name == "add":
                    pulse = ev.args[0] if ev.args else ev.kwargs["pulse"]
                    req_phase, req_pps = float(pulse.phase), float(pulse.post_phase_shift)
                    # (what the history asked for, not what the Pulse object says it carries)
                    spec = op.get("pulse", {})
                    if isinstance(spec.get("pps", 0.0), (int, float)):
                        req_pps = float(spec.get("pps", 0.0))
                    if spec.get("kind") != "arbphase" and isinstance(spec.get("phase"), (int, float)):
                        req_phase = float(spec["phase"]) % TWO_PI
                elif name == "add_eom_pulse":
                    req_phase = float(ev.args[2] if len(ev.args) > 2 else ev.kwargs["phase"]) % TWO_PI
                    req_pps = float(ev.kwargs.get("post_phase_shift", 0.0)) % TWO_PI
                cpd = bool(op.get("cpd"))
                if slot is not None:
                    # barrier kept by the monitor itself (independent of the sequence's own bookkeeping)
                    sb, le = self.sbar.setdefault(basis, {}), self.last_end.setdefault(basis, {})
                    mine = max([sb.get(q, 0) for q in tgs] + [0])
                    ctx.count("barrier_shadow_checks")
                    if slot["ti"] < mine and name != "add_dmm_detuning":
                        ctx.violation("barrier", f"{name} on {ch}: pulse starts at {slot['ti']} although a phase shift of its "
                                      f"targets took effect at {mine}, when an earlier pulse on them ended", "barrier-shadow")
                    for q in tgs:
                        le[q] = max(le.get(q, 0), slot["tf"])
                    if req_pps and not cpd:
                        for q in tgs:
                            sb[q] = max(sb.get(q, 0), le[q])
                if slot is not None and req_phase is not None and name != "add_dmm_detuning":
                    ref0 = {round(self.shadow[basis][q] % TWO_PI, 9) for q in tgs}
                    ctx.count("pulse_phases_checked")
                    if cpd:
                        ctx.gray("drift-corrected-pulse-phase")
                    elif len(ref0) == 1 or max(wrap_diff(a, b) for a in ref0 for b in ref0) < 1e-9:
                        want = (req_phase + self.shadow[basis][tgs[0]]) % TWO_PI
                        if wrap_diff(slot["phase"], want) > 1e-9:
                            ctx.violation("pulse-phase", f"{name} on {ch}: scheduled phase {slot['phase']!r}, programmed "
                                          f"{req_phase!r} + reference {self.shadow[basis][tgs[0]] % TWO_PI!r} = {want!r}",
                                          "pulse-phase")
                    # barrier: never before the latest phase shift of its targets
                    bar = max(pre["bref"][basis][q][0][-1] for q in tgs) if tgs else 0
                    ctx.count("barriers_checked")
                    if slot["ti"] < bar:
                        ctx.violation("barrier", f"{name} on {ch}: pulse starts at {slot['ti']} before the latest phase shift of "
                                      f"its targets at {bar}", "barrier")
                if cpd and name == "add_eom_pulse" and slot is not None and cpre["eom"]:
                    # documented: corrects the drift accumulated at the off-detuning since the last pulse (or the start
                    # of the EOM mode): the reference moves by post_phase_shift + delta_off * elapsed
                    blk = cpre["eom"][-1]
                    lastp = next((s for s in reversed(cpre["slots"]) if s["kind"] == "pulse"), None)
                    tref = max(blk[0], lastp["tf"] if lastp is not None else 0)
                    inc = (req_pps or 0.0) + blk[4] * (slot["ti"] - tref) * 1e-3
                    for q in tgs:
                        self.shadow[basis][q] += inc
                    ctx.count("drift_corrected_pulse_shifts")
                    if req_pps:
                        ctx.count("post_phase_shifts")
                elif req_pps:
                    for q in tgs:
                        self.shadow[basis][q] += req_pps
                    ctx.count("post_phase_shifts")
                if len(ch_bases(post)) < len(post["chans"]):
                    self.multi_basis_channels = True
        elif name in ("enable_eom_mode", "modify_eom_setpoint", "disable_eom_mode") and op.get("cpd"):
            c = post["chans"].get(op["ch"])
            if c is not None and c["slots"]:
                absorbed = (c["obj"].basis, list(c["slots"][-1]["targets"]))
        # ---- drift corrections: amount defined by C15; here: only the right atoms, all equally ----------
        if absorbed is not None:
            basis, tgs = absorbed
            incs = {q: (post["bref"][basis][q][1][-1] - self.shadow[basis][q]) % TWO_PI for q in tgs}
            vals = list(incs.values())
            ctx.count("drift_corrections_absorbed")
            if vals and max(wrap_diff(v, vals[0]) for v in vals) > 1e-9:
                ctx.violation("drift-uniform", f"{name}: drift correction moved the targets {tgs} by different amounts {incs}",
                              "drift-nonuniform")
            for q in tgs:
                self.shadow[basis][q] += incs[q]
        # ---- compare every reference with the shadow ------------------------------------------------
        for b, d in post["bref"].items():
            for q in qids:
                ctx.count("refs_compared")
                try:
                    got = r.seq.current_phase_ref(r_q(r, q), b)
                except Exception as e:
                    ctx.violation("ref-query", f"current_phase_ref({q}, {b}) raised {e!r}", "ref-query")
                    continue
                want = self.shadow[b][q] % TWO_PI
                if wrap_diff(got, want) > 1e-9:
                    ctx.violation("reference", f"after {name}: phase reference of {q} in {b} is {got!r}, the shifts applied so far "
                                  f"sum to {want!r} (mod 2pi)", f"reference:{name}")
                    self.shadow[b][q] = got  # re-synchronise so that one defect is reported once
                if not (0 <= got < TWO_PI + 1e-12):
                    ctx.violation("reference-range", f"current_phase_ref({q},{b})={got!r} outside [0, 2pi)", "reference-range")

    def end(self, r: Runner) -> None:
        if self.subset_shift and self.multi_basis_channels and not self.tainted:
            self.ctx.mark_nontrivial(("c07", self.ctx.case_idx))


def ch_bases(snap: dict) -> set:
    return {c["obj"].basis for c in snap["chans"].values()}


def r_q(r: Runner, q: str):
    for x in r.seq._register.qubit_ids:
        if str(x) == q:
            return x
    return q
