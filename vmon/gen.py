"""Seeded, boundary-heavy generators: devices, registers, waveforms, pulses, programs.

Programs are generated *online*: the next op is drawn from the generator's own
bookkeeping of what succeeded so far (never from the code under test's introspection).
"""
from __future__ import annotations

import math
from typing import Any

TWO_PI = 2 * math.pi
INTERP_KW_P = 0.0  # opt-in (set by a property module): share of interpolated waveforms built with interpolator options
CLOCKS = [1, 1, 2, 4, 4, 5, 8]
MIN_DURS = [1, 4, 16, 17]
BWS = [None, None, 0.5, 1.3, 4.0, 8.0, 20.0, 40.0]
PHASES = [0.0, 0.0, 1.0, -1.0, math.pi, 3.0, 7.5, -4.2, TWO_PI, TWO_PI - 1e-12, 0.5, 2.5]


def pick(rng, xs):
    return xs[rng.randrange(len(xs))]


def wchoice(rng, weights: dict):
    ks = [k for k, w in weights.items() if w > 0]
    tot = sum(weights[k] for k in ks)
    x = rng.random() * tot
    for k in ks:
        x -= weights[k]
        if x <= 0:
            return k
    return ks[-1]


# ------------------------------------------------------------------------- channels / devices
def gen_eom(rng, bw_parent) -> dict:
    ctrl = pick(rng, [["BLUE"], ["RED"], ["BLUE", "RED"], ["RED", "BLUE"]])
    e = {
        "mod_bandwidth": pick(rng, [b for b in (20.0, 40.0, 24.0, 100.0) if b >= (bw_parent or 0)]),
        "limiting_beam": pick(rng, ["RED", "BLUE"]),
        "max_limiting_amp": pick(rng, [30 * TWO_PI, 40 * TWO_PI, 10 * TWO_PI]),
        "intermediate_detuning": pick(rng, [500 * TWO_PI, 700 * TWO_PI, 300 * TWO_PI]),
        "controlled_beams": ctrl,
    }
    if rng.random() < 0.4:
        e["multiple_beam_control"] = rng.random() < 0.5
    if rng.random() < 0.35:
        e["custom_buffer_time"] = pick(rng, [1, 13, 40, 240])
    if rng.random() < 0.3:
        e["blue_shift_coeff"] = pick(rng, [0.5, 1.5, 2.0])
    if rng.random() < 0.3:
        e["red_shift_coeff"] = pick(rng, [0.5, 1.5, 2.0])
    return e


def gen_channel(rng, cid: str, cls: str, addr: str, physical: bool, want_eom: float = 0.0,
                limits: str = "mixed") -> dict:
    c: dict[str, Any] = {"id": cid, "cls": cls, "addr": addr}
    if limits == "none" and not physical:
        c["max_abs_detuning"] = None
        c["max_amp"] = None
    else:
        c["max_amp"] = pick(rng, [TWO_PI * 2.5, 10.0, 15.0, TWO_PI * 10, 3.0])
        c["max_abs_detuning"] = pick(rng, [TWO_PI * 20, 40.0, 25.0, 12.5])
        if not physical and rng.random() < 0.25:
            # (max_abs_detuning set, max_amp None) is exercised by C12 only
            c["max_abs_detuning"] = None
            if rng.random() < 0.5:
                c["max_amp"] = None
    c["clock_period"] = pick(rng, CLOCKS)
    c["min_duration"] = pick(rng, MIN_DURS)
    c["max_duration"] = pick(rng, [2 ** 26, 100000, 2000, 800]) if physical or rng.random() < 0.6 else None
    if c["max_duration"] is not None and c["max_duration"] < c["min_duration"]:
        c["max_duration"] = c["min_duration"] * 50
    if rng.random() < 0.2:
        c["min_avg_amp"] = pick(rng, [0.1, 0.5, 1.0])
    bw = pick(rng, BWS)
    if want_eom and cls == "Rydberg" and rng.random() < want_eom:
        bw = bw or pick(rng, [4.0, 8.0, 2.0])
        c["eom"] = gen_eom(rng, bw)
    if bw is not None:
        c["mod_bandwidth"] = bw
    if rng.random() < 0.35:
        c["custom_phase_jump_time"] = pick(rng, [0, 13, 100, 40])
    if addr == "Local":
        c["min_retarget_interval"] = pick(rng, [0, 0, 30, 50, 220])
        c["fixed_retarget_t"] = pick(rng, [0, 0, 0, 13, 30, 100])
        c["max_targets"] = pick(rng, [1, 2, 3, 8]) if physical or rng.random() < 0.7 else None
    return c


def gen_dmm(rng, physical: bool) -> dict:
    d: dict[str, Any] = {
        "clock_period": pick(rng, CLOCKS), "min_duration": pick(rng, MIN_DURS),
        "max_duration": pick(rng, [2 ** 26, 100000, 2000]) if physical or rng.random() < 0.6 else None,
    }
    if physical or rng.random() < 0.7:
        d["bottom_detuning"] = pick(rng, [-TWO_PI * 20, -30.0, -12.5, -100.0])
    if physical or rng.random() < 0.6:
        bd = d.get("bottom_detuning", -30.0)
        d["total_bottom_detuning"] = pick(rng, [bd * 2, bd * 10, bd * 100, bd])
    bw = pick(rng, BWS)
    if bw is not None:
        d["mod_bandwidth"] = bw
    return d


BUILTINS = ["DigitalAnalogDevice", "AnalogDevice", "MockDevice"]


def gen_device(rng, *, p_builtin=0.25, p_physical=0.2, xy=False, want_eom=0.3, max_seq=0.3,
               reusable=0.25, limits="mixed", need=("rg",)) -> dict:
    if not xy and rng.random() < p_builtin:
        return {"kind": "builtin", "name": pick(rng, BUILTINS)}
    physical = rng.random() < p_physical
    chans = []
    kinds = {"rg": ("Rydberg", "Global", 0.85), "rl": ("Rydberg", "Local", 0.6),
             "dl": ("Raman", "Local", 0.5), "dg": ("Raman", "Global", 0.35),
             "rl2": ("Rydberg", "Local", 0.15), "rg2": ("Rydberg", "Global", 0.15)}
    for cid, (cls, addr, p) in kinds.items():
        if cid in need or rng.random() < p:
            chans.append(gen_channel(rng, cid, cls, addr, physical, want_eom, limits))
    if xy or rng.random() < 0.2:
        chans.append(gen_channel(rng, "mw", "Microwave", "Global", physical, 0.0, limits))
        if rng.random() < 0.3:
            chans.append(gen_channel(rng, "mw2", "Microwave", "Global", physical, 0.0, limits))
    rng.shuffle(chans)
    ndmm = pick(rng, [0, 1, 1, 1, 2])
    s: dict[str, Any] = {
        "kind": "physical" if physical else "virtual", "name": "GenDev",
        "dimensions": pick(rng, [2, 3, 3]), "rydberg_level": pick(rng, [50, 60, 70, 85, 100]),
        "min_atom_distance": pick(rng, [0, 1, 4, 5]),
        "max_atom_num": pick(rng, [20, 100]) if physical or rng.random() < 0.5 else None,
        "max_radial_distance": pick(rng, [40, 60]) if physical or rng.random() < 0.5 else None,
        "channels": chans, "dmm": [gen_dmm(rng, physical) for _ in range(ndmm)],
        "supports_slm_mask": ndmm > 0 and rng.random() < 0.8,
        "interaction_coeff_xy": 3700.0,
    }
    if rng.random() < max_seq:
        s["max_sequence_duration"] = pick(rng, [600, 1500, 4000, 20000])
    if not physical and rng.random() < reusable:
        s["reusable_channels"] = True
    return s


def gen_register(rng, dev: dict, nmin=1, nmax=5, kind: str | None = None, ids: str = "str") -> dict:
    if dev["kind"] == "builtin":
        lim = {"DigitalAnalogDevice": (4, 50, 2), "AnalogDevice": (5, 38, 2), "MockDevice": (0, None, 3)}[dev["name"]]
        dmin, rmax, dim = lim
    else:
        dmin, rmax, dim = dev.get("min_atom_distance", 1), dev.get("max_radial_distance"), dev.get("dimensions", 3)
    n = rng.randint(nmin, nmax)
    spacing = max(dmin, 4) + pick(rng, [0, 1, 2.5, 4, 8])
    use3d = dim == 3 and rng.random() < 0.35
    side = 3
    pts = [(i, j, k) for i in range(-side, side + 1) for j in range(-side, side + 1)
           for k in (range(-1, 2) if use3d else [0])]
    rng.shuffle(pts)
    coords = []
    for p in pts:
        c = [p[0] * spacing, p[1] * spacing] + ([p[2] * spacing] if use3d else [])
        if rmax is not None and math.sqrt(sum(x * x for x in c)) > rmax - 1e-3:
            continue
        coords.append(c)
        if len(coords) >= max(n, 8):
            break
    kind = kind or wchoice(rng, {"reg": 0.75, "layout": 0.25})
    if ids == "str":
        names = pick(rng, [["q%d" % i for i in range(n)], ["b", "a", "d", "c", "e", "g", "f", "h"][:n],
                           ["atom%d" % (n - i) for i in range(n)]])
    else:
        names = list(range(n))
        if ids == "int-permuted":  # integer ids that are not the atoms' positions in the register
            names = pick(rng, [names[::-1], names[1:] + names[:1], [2 * i + 3 for i in names[::-1]]])
    if kind == "reg":
        return {"kind": "reg", "ids": names, "coords": coords[:n]}
    traps = coords[:max(n * 2, 4)] if len(coords) >= max(n * 2, 4) else coords
    n = min(n, max(1, len(traps) // 2))
    tids = rng.sample(range(len(traps)), n)
    return {"kind": kind, "traps": traps, "trap_ids": tids, "ids": names[:n]}


# ------------------------------------------------------------------------- waveforms / pulses
def r6(x: float) -> float:
    return float(round(x, 6))


def gen_wf(rng, d: int, lo: float, hi: float, kinds: dict | None = None, nonneg=False) -> dict:
    """Waveform of duration d with all samples inside [lo, hi] (by construction)."""
    kinds = kinds or {"const": 4, "ramp": 2, "blackman": 1.5, "kaiser": 0.7, "custom": 0.8, "interp": 1, "composite": 0.6}
    if d < 4:
        kinds = {k: v for k, v in kinds.items() if k in ("const", "custom", "ramp")}
        if d < 2:
            kinds.pop("ramp", None)
    k = wchoice(rng, kinds)
    u = lambda: r6(lo + (hi - lo) * pick(rng, [0.0, 1.0, rng.random(), rng.random(), 0.5]))  # noqa: E731
    if k == "const":
        return {"k": "const", "d": d, "v": u()}
    if k == "ramp":
        return {"k": "ramp", "d": d, "a": u(), "b": u()}
    if k in ("blackman", "kaiser"):
        # window peak ~ area / (0.42*(d)*1e-3) for blackman; keep the peak inside [lo,hi]
        top = hi if hi > 0 else 0.0
        bot = lo if lo < 0 else 0.0
        peak = r6(pick(rng, [top, bot, top * rng.random(), bot * rng.random()]) * 0.9)
        area = r6(peak * 0.42 * max(d - 1, 1) * 1e-3) if k == "blackman" else r6(peak * 0.25 * d * 1e-3)
        if nonneg and area < 0:
            area = -area
        w = {"k": k, "d": d, "area": area}
        if k == "kaiser" and rng.random() < 0.5:
            w["beta"] = pick(rng, [2.0, 14.0, 25.0])
        return w
    if k == "custom":
        return {"k": "custom", "samples": [u() for _ in range(d)]}
    if k == "interp":
        n = rng.randint(2, 5)
        # PCHIP is monotone between points: samples stay inside [min,max] of the values
        w = {"k": "interp", "d": d, "values": [u() for _ in range(n)]}
        if INTERP_KW_P and rng.random() < INTERP_KW_P:
            # scipy's interp1d with an option (kinds that do not overshoot the values either)
            w["interpolator"] = "interp1d"
            w["kwargs"] = {"kind": pick(rng, ["next", "previous", "nearest", "linear"])}
        return w
    if k == "composite":
        d1 = max(1, min(d - 1, rng.randint(1, max(1, d - 1))))
        sub = {"const": 3, "ramp": 2, "custom": 1}
        return {"k": "composite", "parts": [gen_wf(rng, d1, lo, hi, sub), gen_wf(rng, d - d1, lo, hi, sub)]}
    raise AssertionError(k)


def gen_duration(rng, c: dict, big=False, nonmult=0.15) -> int:
    clk, mn = c.get("clock_period", 1), c.get("min_duration", 1)
    mx = c.get("max_duration") or 10 ** 7
    first = -(-mn // clk) * clk
    k = pick(rng, [0, 0, 1, 2, 3, 5, 8, 13, 25, 40] + ([100, 300] if big else []))
    d = first + k * clk
    if rng.random() < nonmult and clk > 1:
        d = max(mn, d - rng.randint(1, clk - 1))
    return int(min(d, mx))


def gen_pulse(rng, c: dict, *, d: int | None = None, phase=None, pps_p=0.2, big=False,
              kinds: dict | None = None, arb=0.05) -> dict:
    d = d if d is not None else gen_duration(rng, c, big)
    amax = c.get("max_amp")
    amax = 12.0 if amax is None else float(amax)
    dmax = c.get("max_abs_detuning")
    dmax = 30.0 if dmax is None else float(dmax)
    mavg = c.get("min_avg_amp", 0) or 0
    if rng.random() < 0.12:
        amp = {"k": "const", "d": d, "v": 0.0}
    else:
        lo = min(amax, mavg * 1.05) if mavg else 0.0
        amp = gen_wf(rng, d, lo, amax, kinds, nonneg=True)
        if mavg and amp["k"] in ("blackman", "kaiser"):
            amp = {"k": "const", "d": d, "v": r6(lo + (amax - lo) * rng.random())}
    if rng.random() < 0.35:
        det = {"k": "const", "d": d, "v": 0.0}
    else:
        det = gen_wf(rng, d, -dmax, dmax, kinds)
    p = {"amp": amp, "det": det, "phase": phase if phase is not None else pick(rng, PHASES)}
    if rng.random() < pps_p:
        p["pps"] = pick(rng, [0.5, -1.0, math.pi, 7.0, 1e-3])
    if rng.random() < arb and d >= 4 and amp["k"] != "composite":
        return {"kind": "arbphase", "amp": amp,
                "phase_wf": gen_wf(rng, d, -min(dmax, 20) * 1e-3 * d / 8, min(dmax, 20) * 1e-3 * d / 8,
                                   {"ramp": 1, "const": 1}),
                **({"pps": p["pps"]} if "pps" in p else {})}
    return p


def dmm_floor(c: dict, weights: list[float]) -> float:
    """Most negative detuning a DMM pulse may take given the map weights."""
    lo = -40.0
    if c.get("bottom_detuning") is not None and max(weights, default=0) > 0:
        lo = max(lo, c["bottom_detuning"] / max(weights))
    if c.get("total_bottom_detuning") is not None and sum(weights) > 0:
        lo = max(lo, c["total_bottom_detuning"] / sum(weights))
    return lo


# ------------------------------------------------------------------------- online program generator
DEFAULT_WEIGHTS = {
    "declare_channel": 2.0, "target": 2.0, "target_index": 0.4, "add": 9.0, "add_eom_pulse": 3.0,
    "add_dmm_detuning": 1.5, "delay": 3.0, "align": 1.5, "phase_shift": 1.5, "phase_shift_index": 0.4,
    "enable_eom_mode": 1.2, "modify_eom_setpoint": 0.8, "disable_eom_mode": 0.8, "config_slm_mask": 0.4,
    "config_detuning_map": 0.8, "measure": 0.15, "set_magnetic_field": 0.1,
    # read-only
    "get_duration": 0.5, "str": 0.2, "sample": 0.3, "current_phase_ref": 0.3, "estimate_added_delay": 0.4,
    "to_abstract_repr": 0.1, "build_copy": 0.1, "queries": 0.2, "is_in_eom_mode": 0.2,
}


class ProgGen:
    """Draws the next op from its own view of the history (updated on success only)."""

    def __init__(self, rng, dev: dict, reg: dict, chspecs: dict, weights: dict | None = None,
                 bad: float = 0.0, protocols=("min-delay", "min-delay", "no-delay", "wait-for-all"),
                 big=False, styles=False, same_phase=0.45, max_channels=4):
        self.rng, self.dev, self.reg, self.chspecs = rng, dev, reg, chspecs
        self.w = dict(DEFAULT_WEIGHTS)
        self.w.update(weights or {})
        self.bad, self.protocols, self.big, self.styles = bad, list(protocols), big, styles
        self.same_phase = same_phase
        self.max_channels = max_channels
        self.qids = list(reg["ids"])
        self.mappable = reg["kind"] == "mappable"
        self.chans: dict[str, dict] = {}
        self.used_ids: set[str] = set()
        self.measured = False
        self.mode = None  # None | "ising" | "xy"
        self.slm = False
        self.mag_set = False
        self.nonempty = False
        self.reusable = dev.get("reusable_channels", False) or dev.get("name") == "MockDevice"
        self.last_phase: dict[str, float] = {}
        self.n_names = 0
        self.refs: dict[str, dict] = {}
        self.cpd_used = False
        self.frac_delay_p = 0.0  # opt-in: share of delays asked for with a non-integral duration (e.g. 31.4 ns)
        self.odd_names: list[str] = []  # opt-in: e.g. ["", "0", "None"] used for the first declared channels
        self.cpd_given = 0.4  # how often disable_eom_mode states correct_phase_drift explicitly
        self.pending: list[dict] = []  # directed follow-ups (motifs) queued by update(); served before random ops
        self.motifs: dict[str, float] = {}  # motif name -> probability of being queued when its trigger is seen
        self.pulse_fn = None   # optional override: (rng, channel spec, phase) -> pulse spec
        self.dmm_wf_fn = None  # optional override: (rng, channel spec, weights) -> waveform spec

    def _refs_equal(self, c: dict) -> bool:
        d = self.refs.get(c["basis"], {})
        vals = {round(d.get(q, 0.0) % TWO_PI, 9) for q in c["targets"]}
        return len(vals) <= 1

    def _bump(self, basis: str, qs, phi: float) -> None:
        d = self.refs.setdefault(basis, {})
        for q in qs:
            d[q] = d.get(q, 0.0) + phi

    def _motif_drift(self, op: dict) -> None:
        """After an EOM pulse: a pulse on another channel sharing an atom ('no-delay', so it may overlap), then an
        EOM pulse of the *same* nominal phase with drift correction that has to wait for it."""
        r = self.rng
        if self.pending or r.random() >= self.motifs.get("drift", 0.0):
            return
        n = op["ch"]
        mine = set(self.chans[n]["targets"])
        others = [m for m, c in self.chans.items() if m != n and not c["dmm"] and not c["eom"]
                  and mine & set(c["targets"]) and not c.get("slm_wait")]
        if not others:
            return
        m = pick(r, others)
        self.pending.append({"op": "add", "pulse": gen_pulse(r, self.chans[m]["spec"], phase=self._phase(m), big=self.big),
                             "ch": m, "protocol": "no-delay"})
        self.pending.append({"op": "add_eom_pulse", "ch": n, "duration": gen_duration(r, self.chans[n]["spec"], self.big),
                             "phase": op["phase"], "cpd": True,
                             "protocol": pick(r, ["min-delay", "min-delay", "wait-for-all"])})

    def _motif_retarget(self, op: dict) -> None:
        """After a retarget: (optionally a short pulse, then) another retarget on the same channel, so that the two
        target instructions fall within the minimum retarget interval of each other."""
        r = self.rng
        n = op["ch"]
        c = self.chans[n]
        if self.pending or c["eom"] or len(self.qids) < 2 or r.random() >= self.motifs.get("retarget", 0.0):
            return
        if r.random() < 0.5 and self._refs_equal(c):
            p = gen_pulse(r, c["spec"], phase=self._phase(n), big=False)
            self.pending.append({"op": "add", "pulse": p, "ch": n})
        cur = set(c["targets"])
        t = self._targets_for(c)
        if set(t) == cur:
            t = [q for q in self.qids if q not in cur][:1] or t
        self.pending.append({"op": "target", "qubits": t[0] if len(t) == 1 and r.random() < 0.5 else t, "ch": n})

    def _motif_fall(self, op: dict) -> None:
        """After a pulse on a local channel: one to three short delays (shorter, together, than typical fall times),
        then a retarget to other atoms, which has to wait for the rest of the pulse's fall."""
        r = self.rng
        n = op["ch"]
        c = self.chans.get(n)
        if c is None or self.pending or not c["local"] or c["eom"] or len(self.qids) < 2 \
                or r.random() >= self.motifs.get("fall", 0.0):
            return
        clk, mn = int(c["spec"].get("clock_period", 1)), int(c["spec"].get("min_duration", 1))
        unit = -(-max(mn, 1) // clk) * clk
        for _ in range(r.randint(1, 3)):
            self.pending.append({"op": "delay", "duration": unit * pick(r, [1, 1, 2, 3, 5]), "ch": n})
        cur = set(c["targets"])
        t = [q for q in self.qids if q not in cur][:1] or self._targets_for(c)
        self.pending.append({"op": "target", "qubits": t[0] if r.random() < 0.5 else t, "ch": n})

    def _motif_short_behind(self, op: dict) -> None:
        """After a pulse: a long pulse on the same channel, a short 'no-delay' pulse on another channel sharing an atom
        (ending while the long one still plays), a phase shift on the shared atom, and another 'no-delay' pulse on
        that other channel - which has to wait for the end of the long pulse, when the shift takes effect. (opt-in)"""
        if "short-behind" not in self.motifs or self.pending:
            return
        r = self.rng
        n = op["ch"]
        c = self.chans.get(n)
        if c is None or c["eom"] or c["dmm"] or r.random() >= self.motifs["short-behind"]:
            return
        mine = set(c["targets"])
        others = [m for m, o in self.chans.items() if m != n and not o["dmm"] and not o["eom"] and o["basis"] == c["basis"]
                  and mine & set(o["targets"]) and not o.get("slm_wait")]
        if not others:
            return
        m = pick(r, others)
        shared = sorted(mine & set(self.chans[m]["targets"]), key=str)
        sp, so = c["spec"], self.chans[m]["spec"]
        unit = lambda spec: -(-max(int(spec.get("min_duration", 1)), 1) // int(spec.get("clock_period", 1))) * int(spec.get("clock_period", 1))  # noqa: E731
        long_d = int(min(unit(sp) * pick(r, [40, 80, 150]), sp.get("max_duration") or 10 ** 7))
        self.pending.append({"op": "add", "pulse": gen_pulse(r, sp, d=long_d, phase=self._phase(n), pps_p=0.0), "ch": n})
        self.pending.append({"op": "add", "pulse": gen_pulse(r, so, d=unit(so) * pick(r, [1, 2, 4]), phase=self._phase(m), pps_p=0.3),
                             "ch": m, "protocol": "no-delay"})
        if r.random() < 0.75:
            self.pending.append({"op": "phase_shift", "phi": pick(r, PHASES[2:]), "targets": [pick(r, shared)], "basis": c["basis"]})
        self.pending.append({"op": "add", "pulse": gen_pulse(r, so, d=unit(so) * pick(r, [1, 3, 8]), phase=self._phase(m)),
                             "ch": m, "protocol": "no-delay"})

    def _motif_idle_twice(self, op: dict) -> None:
        """After a pulse on a channel with a modulation bandwidth: a short delay and then one of about the rise time,
        together shorter than the pulse's fall time (the ramp-down is still pending behind two idle slots). (opt-in)"""
        if "idle-twice" not in self.motifs or self.pending:
            return
        r = self.rng
        n = op["ch"]
        c = self.chans.get(n)
        if c is None or c["eom"] or c["dmm"] or not c["spec"].get("mod_bandwidth") or r.random() >= self.motifs["idle-twice"]:
            return
        sp = c["spec"]
        clk, mn = int(sp.get("clock_period", 1)), int(sp.get("min_duration", 1))
        unit = -(-max(mn, 1) // clk) * clk
        rise = int(0.48 / float(sp["mod_bandwidth"]) * 1e3)
        second = max(unit, -(-int(rise * pick(r, [1.0, 1.1, 1.5])) // clk) * clk)
        self.pending.append({"op": "delay", "duration": unit * pick(r, [1, 1, 2]), "ch": n})
        self.pending.append({"op": "delay", "duration": second, "ch": n})

    def _motif_idle_then_eom(self, op: dict) -> None:
        """After a pulse on a channel with an EOM (not in EOM mode): two or three delays - a short one first, then one
        of about the rise time - that together stay below the pulse's fall time, then enable_eom_mode (whose buffer
        has to wait for the rest of the ramp-down). (opt-in)"""
        if "idle-then-eom" not in self.motifs or self.pending:
            return
        r = self.rng
        n = op["ch"]
        c = self.chans.get(n)
        if c is None or c["eom"] or c["dmm"] or not c["spec"].get("eom") or not c["spec"].get("mod_bandwidth") \
                or r.random() >= self.motifs["idle-then-eom"]:
            return
        sp = c["spec"]
        clk, mn = int(sp.get("clock_period", 1)), int(sp.get("min_duration", 1))
        unit = -(-max(mn, 1) // clk) * clk
        rise = int(0.48 / float(sp["mod_bandwidth"]) * 1e3)
        second = max(unit, -(-int(rise * pick(r, [1.0, 1.1, 1.5])) // clk) * clk)
        durs = [unit * pick(r, [1, 1, 2])] + ([unit] if r.random() < 0.3 else []) + [second]
        for d in durs:
            self.pending.append({"op": "delay", "duration": d, "ch": n})
        amax = sp.get("max_amp") or 12.0
        self.pending.append({"op": "enable_eom_mode", "ch": n, "amp_on": r6(amax * pick(r, [0.3, 0.6, 1.0])),
                             "detuning_on": pick(r, [0.0, 1.0, -2.0]),
                             **({"opt_off": pick(r, [0.0, -10.0, 10.0])} if r.random() < 0.3 else {})})

    def _motif_eom_at_zero(self, op: dict, c: dict) -> None:
        """EOM mode entered on a channel that is still empty (for a local one right after its first, zero-length,
        target instruction): blocks starting at t = 0."""
        r = self.rng
        if self.pending or not c.get("eom") or r.random() >= self.motifs.get("eom-at-zero", 0.12):
            return
        n = op["name"]
        if c["addr"] == "Local":
            first = op.get("initial_target")
            if first is None:
                first = self._targets_for({"spec": c}, 1)
                self.pending.append({"op": "target", "qubits": first[0], "ch": n})
            cur = set(first if isinstance(first, list) else [first])
            other = [q for q in self.qids if q not in cur]
            if other and r.random() < 0.6:  # a retarget at t = 0 (zero-length when the channel has no retarget times)
                self.pending.append({"op": "target", "qubits": pick(r, other), "ch": n})
        amax = c.get("max_amp") or 12.0
        self.pending.append({"op": "enable_eom_mode", "ch": n, "amp_on": r6(amax * pick(r, [0.3, 0.6, 1.0])),
                             "detuning_on": pick(r, [0.0, 1.0, -2.0]),
                             **({"opt_off": pick(r, [0.0, -10.0, 10.0])} if r.random() < 0.5 else {})})

    def _motif_dmm_twice(self, op: dict, cnt: int) -> None:
        """On a device with reusable channels: the same DMM configured again with *other* weights, then a detuning
        waveform on the second declaration (whose own map decides its limits)."""
        if "dmm-twice" not in self.motifs or not self.reusable or self.pending or self.mappable:
            return
        r = self.rng
        if r.random() >= self.motifs["dmm-twice"] or "weights" not in op["map"]:
            return
        import copy
        op2 = copy.deepcopy(op)
        ws = list(op["map"]["weights"])
        how = pick(r, ["half", "flip", "one"])
        ws2 = {"half": [r6(w * 0.5) for w in ws], "flip": [r6(1.0 - w) for w in ws],
               "one": [1.0 if i == 0 else 0.0 for i in range(len(ws))]}[how]
        if not any(ws2) or ws2 == ws:
            return
        op2["map"]["weights"] = ws2
        usable = [n for n, c in self.chans.items() if not c["dmm"] and not c.get("slm_wait") and not c["eom"]
                  and (not c["local"] or c["targets"])]
        if usable and r.random() < 0.5:  # something with a number in it in between (a template may turn it into a variable)
            n = pick(r, usable)
            self.pending.append({"op": "delay", "duration": gen_duration(r, self.chans[n]["spec"], self.big), "ch": n})
        self.pending.append(op2)
        spec = self.chspecs[op["dmm_id"]]
        name2 = f"{op['dmm_id']}_{cnt + 1}"
        if self.dmm_wf_fn is not None:
            wf = self.dmm_wf_fn(r, spec, ws2)
        else:
            wf = gen_wf(r, gen_duration(r, spec, self.big), dmm_floor(spec, ws2), 0.0)
        self.pending.append({"op": "add_dmm_detuning", "wf": wf, "ch": name2})

    def _motif_equalize(self, basis: str) -> None:
        """After a phase shift left the atoms of a basis with different references: shift the others so that all
        references are equal again (each shift acts at its own atom's last-used time, so the *times* of the latest
        shifts differ), then a multi-target pulse with 'no-delay' on a global / multi-target channel of that basis."""
        if "equalize" not in self.motifs or self.pending or self.mappable:
            return
        r = self.rng
        if r.random() >= self.motifs["equalize"]:
            return
        d = self.refs.get(basis, {})
        vals = {q: round(d.get(q, 0.0) % TWO_PI, 9) for q in self.qids}
        groups: dict = {}
        for q, v in vals.items():
            groups.setdefault(v, []).append(q)
        if len(groups) < 2:
            return
        target = pick(r, sorted(groups))
        for v, qs in sorted(groups.items()):
            if v != target:
                self.pending.append({"op": "phase_shift", "phi": r6((target - v) % TWO_PI), "targets": qs, "basis": basis})
        multi = [n for n, c in self.chans.items() if c["basis"] == basis and not c["dmm"] and not c["eom"]
                 and not c.get("slm_wait") and len(c["targets"]) >= 2]
        if multi:
            n = pick(r, multi)
            self.pending.append({"op": "add", "pulse": gen_pulse(r, self.chans[n]["spec"], phase=self._phase(n), big=False),
                                 "ch": n, "protocol": "no-delay"})

    # -- helpers -------------------------------------------------------------
    def _style(self, op: dict) -> dict:
        if self.styles:
            x = self.rng.random()
            if x < 0.3:
                op["style"] = "kw"
            elif x < 0.6:
                op["style"] = "pos"
        return op

    def _avail_ids(self) -> list[str]:
        out = []
        for cid, c in self.chspecs.items():
            if c.get("dmm"):
                continue
            xy = c["cls"] == "Microwave"
            if self.mode == "xy" and not xy:
                continue
            if self.mode == "ising" and xy:
                continue
            if cid in self.used_ids and not self.reusable:
                continue
            out.append(cid)
        return out

    def _avail_dmm(self) -> list[str]:
        if self.mode == "xy":
            return []
        return [cid for cid, c in self.chspecs.items() if c.get("dmm") and (cid not in self.used_ids or self.reusable)]

    def _pulse_chans(self, eom: bool | None = None) -> list[str]:
        out = []
        for n, c in self.chans.items():
            if c["dmm"]:
                continue
            if c["local"] and not c["targets"]:
                continue
            if eom is not None and c["eom"] != eom:
                continue
            if not self._refs_equal(c) and self.rng.random() < 0.93:
                continue
            out.append(n)
        return out

    def applicable(self) -> dict:
        r = self.rng
        w = dict(self.w)
        if self.measured:
            for k in ("declare_channel", "target", "target_index", "add", "add_eom_pulse", "add_dmm_detuning",
                      "delay", "align", "enable_eom_mode", "modify_eom_setpoint", "disable_eom_mode",
                      "config_detuning_map", "measure"):
                w[k] = w.get(k, 0) * 0.03
        if not self._avail_ids() or len(self.chans) >= self.max_channels:
            w["declare_channel"] = 0
        elif len(self.chans) < 2:
            w["declare_channel"] = max(w["declare_channel"], 12.0 if not self.chans else 5.0)
        if not self.chans:
            for k in list(w):
                if k not in ("declare_channel", "config_slm_mask", "config_detuning_map", "set_magnetic_field",
                             "queries", "str", "to_abstract_repr"):
                    w[k] = 0
        locs = [n for n, c in self.chans.items() if c["local"] and not c["eom"]]
        if not locs:
            w["target"] = w["target_index"] = 0
        if self.mappable:
            w["target_index"] = w["phase_shift_index"] = w["config_slm_mask"] = 0
        if not self._pulse_chans(False):
            w["add"] = w["estimate_added_delay"] = 0
        if not self._pulse_chans(True):
            w["add_eom_pulse"] = w["modify_eom_setpoint"] = w["disable_eom_mode"] = 0
        if not [n for n in self._pulse_chans(False) if self.chans[n]["spec"].get("eom")]:
            w["enable_eom_mode"] = 0
        dm = [n for n, c in self.chans.items() if c["dmm"] and not c.get("slm_wait")]
        if not dm:
            w["add_dmm_detuning"] = 0
        if not self._avail_dmm():
            w["config_detuning_map"] = 0
        if self.slm or not self.dev.get("supports_slm_mask", self.dev.get("name") in ("MockDevice", "DigitalAnalogDevice")) \
                or not self._all_dmm_ids():
            w["config_slm_mask"] = 0
        if len([n for n, c in self.chans.items() if not c.get("slm_wait")]) < 2:
            w["align"] = 0
        if not [n for n, c in self.chans.items() if not c.get("slm_wait") and (not c["local"] or c["targets"])]:
            w["delay"] = 0
        if not self.chans:
            w["phase_shift"] = w["phase_shift_index"] = w["current_phase_ref"] = 0
        if self.mode == "ising" or self.nonempty or (self.mode is None and self.chans):
            w["set_magnetic_field"] = 0
        elif self.mode == "xy":
            w["set_magnetic_field"] = max(w["set_magnetic_field"], 1.0)
        return w

    def _all_dmm_ids(self) -> list[str]:
        return [cid for cid, c in self.chspecs.items() if c.get("dmm")]

    def _name(self) -> str:
        self.n_names += 1
        if self.odd_names and self.n_names <= len(self.odd_names) and self.rng.random() < 0.5:
            return self.odd_names[self.n_names - 1]  # valid names that are falsy / look like something else
        return "ch%d" % self.n_names

    def _targets_for(self, c: dict, k: int | None = None) -> list:
        mt = c["spec"].get("max_targets") or len(self.qids)
        k = k or self.rng.randint(1, max(1, min(mt, len(self.qids), 2)))
        return self.rng.sample(self.qids, k)

    def _phase(self, ch: str) -> float:
        if ch in self.last_phase and self.rng.random() < self.same_phase:
            return self.last_phase[ch]
        return pick(self.rng, PHASES)

    def _protocol(self, op: dict) -> dict:
        if self.rng.random() < 0.75:
            op["protocol"] = pick(self.rng, self.protocols)
        return op

    # -- next op ----------------------------------------------------------------
    def next_op(self) -> dict:
        r = self.rng
        if self.pending:
            return self._style(self.pending.pop(0))
        k = wchoice(r, self.applicable())
        try:
            return self._style(self.make(k))
        except (ValueError, IndexError):  # candidate set emptied by a randomised filter
            return {"op": "queries"}

    def make(self, k: str) -> dict:
        r = self.rng
        if k == "declare_channel":
            cid = pick(r, self._avail_ids())
            c = self.chspecs[cid]
            op = {"op": k, "name": self._name(), "ch_id": cid}
            if c["addr"] == "Local" and r.random() < 0.6:
                t = self._targets_for({"spec": c})
                op["initial_target"] = t[0] if len(t) == 1 and r.random() < 0.6 else t
            return op
        if k == "target":
            n = pick(r, [n for n, c in self.chans.items() if c["local"] and not c["eom"]])
            t = self._targets_for(self.chans[n])
            if self.chans[n]["targets"] and r.random() < 0.15:
                t = list(self.chans[n]["targets"])
            return {"op": k, "qubits": t[0] if len(t) == 1 and r.random() < 0.5 else t, "ch": n}
        if k == "target_index":
            n = pick(r, [n for n, c in self.chans.items() if c["local"] and not c["eom"]])
            t = [self.qids.index(q) for q in self._targets_for(self.chans[n])]
            return {"op": k, "qubits": t[0] if len(t) == 1 and r.random() < 0.5 else t, "ch": n}
        if k in ("add", "estimate_added_delay"):
            n = pick(r, self._pulse_chans(False))
            if self.pulse_fn is not None:
                self.cur_channel = n  # lets a pulse_fn look at the channel it is generating for
                p = self.pulse_fn(r, self.chans[n]["spec"], self._phase(n))
            else:
                p = gen_pulse(r, self.chans[n]["spec"], phase=self._phase(n), big=self.big)
            return self._protocol({"op": k, "pulse": p, "ch": n})
        if k == "add_eom_pulse":
            n = pick(r, self._pulse_chans(True))
            op = {"op": k, "ch": n, "duration": gen_duration(r, self.chans[n]["spec"], self.big),
                  "phase": self._phase(n)}
            if r.random() < 0.2:
                op["pps"] = pick(r, [0.5, -1.0, math.pi])
            if r.random() < 0.4:
                op["cpd"] = r.random() < 0.7
            return self._protocol(op)
        if k == "add_dmm_detuning":
            n = pick(r, [n for n, c in self.chans.items() if c["dmm"] and not c.get("slm_wait")])
            c = self.chans[n]
            if self.dmm_wf_fn is not None:
                return self._protocol({"op": k, "wf": self.dmm_wf_fn(r, c["spec"], c["weights"]), "ch": n})
            lo = dmm_floor(c["spec"], c["weights"])
            d = gen_duration(r, c["spec"], self.big)
            return self._protocol({"op": k, "wf": gen_wf(r, d, lo, 0.0), "ch": n})
        if k == "delay":
            n = pick(r, [n for n, c in self.chans.items() if not c.get("slm_wait") and (not c["local"] or c["targets"])])
            op = {"op": k, "duration": gen_duration(r, self.chans[n]["spec"], self.big), "ch": n}
            if r.random() < 0.1:
                op["duration"] = 0
            elif self.frac_delay_p and r.random() < self.frac_delay_p:
                op["duration"] = op["duration"] - pick(r, [0.6, 0.5, 0.1])  # castable to int, not integral
            if r.random() < 0.4:
                op["at_rest"] = r.random() < 0.7
            return op
        if k == "align":
            names = [n for n, c in self.chans.items() if not c.get("slm_wait")]
            chs = r.sample(names, r.randint(2, len(names)))
            op = {"op": k, "chs": chs}
            if r.random() < 0.5:
                op["at_rest"] = r.random() < 0.5
            return op
        if k in ("phase_shift", "phase_shift_index"):
            bases = sorted({c["basis"] for c in self.chans.values()})
            tg = r.sample(self.qids, r.randint(0 if r.random() < 0.15 else 1, len(self.qids)))
            if k == "phase_shift_index":
                tg = [self.qids.index(q) for q in tg]
            op = {"op": k, "phi": pick(r, PHASES[2:]), "targets": tg}
            b = pick(r, bases)
            if b != "digital" or r.random() < 0.6:
                op["basis"] = b
            return op
        if k in ("enable_eom_mode", "modify_eom_setpoint"):
            cands = [n for n in self._pulse_chans(k == "modify_eom_setpoint") if self.chans[n]["spec"].get("eom")]
            n = pick(r, cands)
            c = self.chans[n]["spec"]
            amax = c.get("max_amp") or 12.0
            dmax = c.get("max_abs_detuning") or 30.0
            op = {"op": k, "ch": n, "amp_on": r6(amax * pick(r, [0.3, 0.6, 1.0, r.random()])),
                  "detuning_on": r6(pick(r, [0.0, 0.0, 1.0, -2.0, dmax * 0.2 * (r.random() - 0.5)]))}
            if r.random() < 0.6:
                op["opt_off"] = r6(pick(r, [0.0, -10.0, 10.0, -dmax, dmax * (r.random() - 0.5)]))
            if r.random() < 0.4:
                op["cpd"] = r.random() < 0.7
            return op
        if k == "disable_eom_mode":
            n = pick(r, self._pulse_chans(True))
            op = {"op": k, "ch": n}
            if r.random() < self.cpd_given:
                op["cpd"] = r.random() < 0.7
            return op
        if k == "config_slm_mask":
            op = {"op": k, "qubits": r.sample(self.qids, r.randint(1, len(self.qids)))}
            dm = self._all_dmm_ids()
            if dm and (dm[0] != "dmm_0" or r.random() < 0.4):
                op["dmm_id"] = pick(r, dm)
            return op
        if k == "config_detuning_map":
            did = pick(r, self._avail_dmm())
            ws = [pick(r, [0.0, 1.0, 0.5, r6(r.random())]) for _ in self.qids]
            if not any(ws):
                ws[0] = 1.0
            if self.reg["kind"] == "reg" or r.random() < 0.5:
                m = {"by": "qubits", "ids": list(self.qids), "weights": ws}
            else:
                tr = self.reg["traps"]
                m = {"by": "traps", "traps": tr, "weights": [pick(r, [0.0, 1.0, 0.5]) for _ in tr]}
                if not any(m["weights"]):
                    m["weights"][0] = 1.0
            if self.mappable or getattr(self, "maps_by_traps", False):
                tr = self.reg["traps"]
                m = {"by": "traps", "traps": tr, "weights": [pick(r, [0.0, 1.0, 0.5]) for _ in tr]}
                if not any(m["weights"]):
                    m["weights"][0] = 1.0
            return {"op": k, "map": m, "dmm_id": did}
        if k == "set_magnetic_field":
            return {"op": k, "b": pick(r, [[0.0, 0.0, 30.0], [10.0, 0.0, 20.0], [1.0, 2.0, 3.0], [0.0, 25.0, 0.0]])}
        if k == "measure":
            bases = sorted({c["basis"] for c in self.chans.values()}) or ["ground-rydberg"]
            op = {"op": k}
            b = pick(r, bases)
            if b != "ground-rydberg" or r.random() < 0.5:
                op["basis"] = b
            return op
        # read-only
        if k == "get_duration":
            op = {"op": k}
            if self.chans and r.random() < 0.7:
                op["ch"] = pick(r, list(self.chans))
            if r.random() < 0.5:
                op["ift"] = r.random() < 0.7
            return op
        if k == "current_phase_ref":
            return {"op": k, "q": pick(r, self.qids), "basis": pick(r, sorted({c["basis"] for c in self.chans.values()}))}
        if k == "is_in_eom_mode":
            return {"op": k, "ch": pick(r, list(self.chans))}
        if k == "sample":
            op = {"op": k}
            if r.random() < 0.3:
                op["modulation"] = True
            return op
        return {"op": k}

    # -- bookkeeping on success -----------------------------------------------------
    def update(self, op: dict, ok: bool) -> None:
        if not ok:
            return
        k = op["op"]
        if k == "declare_channel":
            c = self.chspecs[op["ch_id"]]
            it = op.get("initial_target")
            basis = {"Rydberg": "ground-rydberg", "Raman": "digital", "Microwave": "XY"}[c["cls"]]
            self.chans[op["name"]] = {
                "id": op["ch_id"], "spec": c, "local": c["addr"] == "Local", "dmm": False, "basis": basis,
                "eom": False, "targets": (it if isinstance(it, list) else [it]) if it is not None else
                ([] if c["addr"] == "Local" else list(self.qids)),
            }
            self.used_ids.add(op["ch_id"])
            self._motif_eom_at_zero(op, c)
            self.mode = "xy" if c["cls"] == "Microwave" else "ising"
            if self.mode == "ising":
                self._slm_dmm_declare()
        elif k == "target":
            q = op["qubits"]
            self.chans[op["ch"]]["targets"] = q if isinstance(q, list) else [q]
            self._motif_retarget(op)
        elif k == "target_index":
            q = op["qubits"]
            self.chans[op["ch"]]["targets"] = [self.qids[i] for i in (q if isinstance(q, list) else [q])]
        elif k == "add":
            self.nonempty = True
            self._motif_fall(op)
            self._motif_short_behind(op)
            self._motif_idle_then_eom(op)
            self._motif_idle_twice(op)
            if "phase" in op["pulse"]:
                self.last_phase[op["ch"]] = op["pulse"]["phase"]
            if op["pulse"].get("pps"):
                self._bump(self.chans[op["ch"]]["basis"], self.chans[op["ch"]]["targets"], op["pulse"]["pps"])
            self._slm_started(op["ch"])
        elif k == "add_eom_pulse":
            self.nonempty = True
            self.last_phase[op["ch"]] = op["phase"]
            self._motif_drift(op)
            if op.get("pps"):
                self._bump(self.chans[op["ch"]]["basis"], self.chans[op["ch"]]["targets"], op["pps"])
            self._slm_started(op["ch"])
        elif k == "add_dmm_detuning":
            self.nonempty = True
        elif k == "enable_eom_mode":
            self.chans[op["ch"]]["eom"] = True
            self.chans[op["ch"]]["touched"] = True
        elif k == "delay":
            self.chans[op["ch"]]["touched"] = True
        elif k == "disable_eom_mode":
            self.chans[op["ch"]]["eom"] = False
        elif k == "config_detuning_map":
            self.mode = "ising"
            self._slm_dmm_declare()  # a pending SLM mask claims its DMM first
            name = op["dmm_id"]
            cnt = len([n for n, c in self.chans.items() if c["dmm"] and c["id"] == op["dmm_id"]])
            if cnt:
                name = f"{op['dmm_id']}_{cnt}"
            ws = list(op["map"]["weights"])
            self.chans[name] = {"id": op["dmm_id"], "spec": self.chspecs[op["dmm_id"]], "local": False,
                                "dmm": True, "basis": "ground-rydberg", "eom": False,
                                "targets": list(self.qids), "weights": ws}
            self.used_ids.add(op["dmm_id"])
            self._motif_dmm_twice(op, cnt)
        elif k == "config_slm_mask":
            self.slm = True
            self.slm_op = op
            if self.mode == "ising":
                self._slm_dmm_declare(force=True)
            else:
                self.slm_pending = op.get("dmm_id", "dmm_0")
                if not self.reusable:
                    self.used_ids.add(self.slm_pending)
        elif k in ("phase_shift", "phase_shift_index"):
            tg = op.get("targets") or list(self.qids)
            if k == "phase_shift_index" and op.get("targets"):
                tg = [self.qids[i] for i in tg]
            self._bump(op.get("basis", "digital"), tg, op["phi"])
            self._motif_equalize(op.get("basis", "digital"))
        elif k == "measure":
            self.measured = True
        elif k == "set_magnetic_field":
            self.mode = "xy"
            self.mag_set = True

    def _slm_dmm_declare(self, force=False) -> None:
        """In Ising mode a configured SLM mask occupies a DMM channel (named by the sequence)."""
        pend = getattr(self, "slm_pending", None)
        if force:
            pend = self.slm_op.get("dmm_id", "dmm_0")
        if pend is None or self.mode != "ising" or pend not in self.chspecs:
            return
        self.slm_pending = None
        cnt = len([n for n, c in self.chans.items() if c["dmm"] and c["id"] == pend])
        name = pend if not cnt else f"{pend}_{cnt}"
        started = self.nonempty and any((not c["local"]) and not c["dmm"] and c.get("pulsed") for c in self.chans.values())
        self.chans[name] = {"id": pend, "spec": self.chspecs[pend], "local": False, "dmm": True,
                            "basis": "ground-rydberg", "eom": False, "targets": list(self.qids),
                            "weights": [1.0 if q in self.slm_op["qubits"] else 0.0 for q in self.qids],
                            "slm_wait": not started, "slm": True}
        self.used_ids.add(pend)

    def _motif_slm_late(self, ch: str) -> None:
        """A global channel has just received a pulse while another declared global channel is still empty: the SLM
        mask configured *now* (its DMM pulse is derived from the samples of the global channels so far)."""
        if "slm-late" not in self.motifs or self.pending or self.slm or self.mappable or self.mode != "ising":
            return
        c = self.chans[ch]
        if c["local"] or c["dmm"]:
            return
        if not self.dev.get("supports_slm_mask", self.dev.get("name") in ("MockDevice", "DigitalAnalogDevice")) \
                or not self._all_dmm_ids():
            return
        empty_global = [n for n, d in self.chans.items() if n != ch and not d["local"] and not d["dmm"]
                        and not d.get("pulsed") and not d.get("touched")]
        r = self.rng
        if not empty_global or r.random() >= self.motifs["slm-late"]:
            return
        op = {"op": "config_slm_mask", "qubits": r.sample(self.qids, r.randint(1, len(self.qids)))}
        dm = self._all_dmm_ids()
        if dm and dm[0] != "dmm_0":
            op["dmm_id"] = pick(r, dm)
        self.pending.append(op)

    def _slm_started(self, ch: str) -> None:
        c = self.chans[ch]
        first = not c.get("pulsed")
        c["pulsed"] = True
        if first:
            self._motif_slm_late(ch)
        if not c["local"]:
            for d in self.chans.values():
                if d.get("slm_wait"):
                    d["slm_wait"] = False


def declared_order_pending_slm(gen: ProgGen) -> None:  # pragma: no cover - documentation helper
    """When a channel is declared after config_slm_mask (mode undecided), the sequence configures the DMM."""


def header(rng, **kw) -> tuple[dict, dict]:
    regkw = {k: kw.pop(k) for k in ("nmin", "nmax", "kind", "ids") if k in kw}
    dev = gen_device(rng, **kw)
    if "ids" not in regkw and rng.random() < 0.15:
        regkw["ids"] = "int"  # the default integer ids 0, 1, ... (0 is falsy, ints collide with indices)
    reg = gen_register(rng, dev, **regkw)
    return dev, reg
