"""C05 monitor: the emulator's Hamiltonian vs the documented formula (reference: vmon.ref.ham)."""
from __future__ import annotations

import warnings

import numpy as np

from vmon.ref import ham as refham
from vmon.ref import render
from vmon.rendermon import plain_channels
from vmon.snap import arr, snapshot


def slm_window(snap: dict, chans: list[dict]):
    if not (snap["flags"]["slm_targets"] and snap["flags"]["in_xy"]):
        return None
    firsts = []
    for c in chans:
        if c["addr"] == "Global" and not c["dmm"]:
            f = next((s for s in c["slots"] if s["real"]), None)
            if f:
                firsts.append((f["ti"], f["tf"]))
    if not firsts:
        return None
    t0 = min(f[0] for f in firsts)
    cands = {f[1] for f in firsts if f[0] == t0}
    return (set(snap["flags"]["slm_targets"]), cands.pop()) if len(cands) == 1 else "tie"


class _TourAbandoned(Exception):
    pass


def config_tour(ctx, emu, rng, log: list) -> bool:
    """Takes the emulator through noisy configurations and back to the default one: the emulator is then a
    noiseless emulator of the same sequence again (configuration history, cf. 'configurations' in the quantifier)."""
    from pulser_simulation import SimConfig

    menu = [dict(noise="SPAM", eta=0.95, runs=3, samples_per_run=2),
            dict(noise=("SPAM", "doppler"), eta=0.6, temperature=500.0, runs=2),
            dict(noise="doppler", temperature=2000.0, runs=2),
            dict(noise="amplitude", amp_sigma=0.3, laser_waist=40.0, runs=2),
            dict(noise="dephasing", dephasing_rate=0.2),
            dict(noise=("SPAM", "amplitude"), eta=0.8, amp_sigma=0.2, runs=2),
            dict(noise="leakage", eff_noise_rates=[0.1], eff_noise_opers="leak"),
            dict(noise="relaxation", relaxation_rate=0.1)]
    done = 0
    for _ in range(rng.randint(1, 3)):
        kw = dict(rng.choice(menu))
        how = rng.choice(["set", "set", "add"])
        try:
            if kw.get("eff_noise_opers") == "leak":
                import qutip
                kw["eff_noise_opers"] = [qutip.Qobj(np.diag([0.0, 0.0, 1.0]))]
                kw["noise"] = ("leakage", "eff_noise")
            cfg = SimConfig(**kw)
            log.append([how, {k: (v if k != "eff_noise_opers" else "diag(0,0,1)") for k, v in kw.items()}])
            (emu.set_config if how == "set" else emu.add_config)(cfg)
            done += 1
            ctx.count("config_tour_steps:" + "+".join([kw["noise"]] if isinstance(kw["noise"], str) else kw["noise"]))
            if rng.random() < 0.5:
                log.append(["get_hamiltonian", 0])
                emu.get_hamiltonian(0)
        except (NotImplementedError, ValueError, TypeError):
            ctx.count("config_tour_step_refused")
        except Exception:
            # a noisy configuration that crashes is outside this property (it speaks of the noiseless emulator);
            # what state the emulator is left in is undefined: the caller starts over with a fresh one
            ctx.count("config_tour_step_crashed")
            raise _TourAbandoned()
    if rng.random() < 0.5:
        log.append(["reset_config"])
        emu.reset_config()
    else:
        log.append(["set", {}])
        emu.set_config(SimConfig())
    return done > 0


def check_hamiltonian(ctx, seq, case=None, tour_rng=None) -> bool:
    """Returns True when the comparison actually took place."""
    from pulser_simulation import QutipEmulator

    snap = snapshot(seq)
    if not snap["flags"]["building"] or not snap["chans"] or seq.is_register_mappable():
        return False
    chans, _ = plain_channels(snap, seq)
    T = max([c["end"] for c in chans] + [0])
    if T < 8:
        return False
    qids = [str(q) for q in seq.register.qubit_ids]
    coords = [arr(seq.register.qubits[q]) for q in seq.register.qubit_ids]
    slm = slm_window(snap, chans)
    if slm == "tie":
        ctx.gray("slm-mask-tie")
        return False
    try:
        with warnings.catch_warnings():
            warnings.simplefilter("ignore")
            emu = QutipEmulator.from_sequence(seq)
    except Exception as e:
        ctx.violation("emulator-raises", f"QutipEmulator.from_sequence raised {type(e).__name__}: {str(e)[:200]}",
                      f"emulator-raises:{type(e).__name__}", case=case)
        return False
    if tour_rng is not None and tour_rng.random() < 0.4:
        try:
            with warnings.catch_warnings():
                warnings.simplefilter("ignore")
                log: list = []
                if isinstance(case, dict):
                    case["emulator_config_history"] = log
                if config_tour(ctx, emu, tour_rng, log):
                    ctx.count("emulators_reset_to_default_after_noisy_configs")
        except _TourAbandoned:
            with warnings.catch_warnings():
                warnings.simplefilter("ignore")
                emu = QutipEmulator.from_sequence(seq)
        except Exception as e:
            ctx.violation("config-history", f"configuring the emulator and resetting it raised {type(e).__name__}: "
                          f"{str(e)[:200]}", f"config-history-raises:{type(e).__name__}", case=case)
            return False
    # ---- states in use / ordering ------------------------------------------------------------------
    used = set()
    for c in chans:
        if any(np.any(s["amp"]) or np.any(s["det"]) for s in c["slots"]) or c["eom_off"]:
            used.add(c["basis"])  # (a channel still in EOM mode idles at its off-detuning until the end)
    in_xy = snap["flags"]["in_xy"]
    states = refham.states_in_use(used, in_xy)
    got_states = list(emu.basis.keys())
    ctx.count("basis_checks")
    if got_states != states:
        ctx.violation("basis-order", f"emulator basis {got_states}, documented ordering of the states in use {states}",
                      "basis-order", case=case)
        return False
    for k, (st, vec) in enumerate(emu.basis.items()):
        v = np.asarray(vec.full()).ravel()
        if not (abs(v[k] - 1) < 1e-12 and np.count_nonzero(v) == 1):
            ctx.violation("basis-order", f"basis vector of {st} is not unit vector {k}", "basis-vectors", case=case)
    per = render.per_atom(chans, qids, T + 1, slm if slm else None)
    # open EOM blocks: a *global* channel left in EOM mode idles at the off-detuning of its latest setpoint until the
    # emulation ends (C15's clause; the emulator pads its samples that way), for every atom. For a local channel the
    # statement does not say which atoms keep it beyond the channel's own end: gray from there.
    gray_from = T + 1
    for c in chans:
        if not c["eom_off"]:
            continue
        if c["addr"] == "Global" and not c["dmm"]:
            if c["end"] < T + 1:
                ctx.count("open_global_eom_blocks_padded")
                for q in qids:
                    d = per.setdefault(c["basis"], {}).setdefault(
                        q, {"amp": np.zeros(T + 1), "det": np.zeros(T + 1), "ncover": np.zeros(T + 1, dtype=int),
                            "phase_one": np.full(T + 1, np.nan)})
                    d["det"][c["end"]:] += c["eom_off"]
        else:
            gray_from = min(gray_from, c["end"])
    # (several drives of one basis on one atom at the same time: decided per time step below)
    several = False
    for b in used:
        if len([c for c in chans if c["basis"] == b and not c["dmm"] and c["slots"]]) > 1:
            several = True
    dev = seq.device
    c6 = refham.c6(dev.rydberg_level)
    c3 = dev.interaction_coeff_xy if in_xy else None
    field = np.asarray(snap["flags"]["mag"]) if in_xy else None
    times = list(range(T + 1)) if T <= 300 else sorted(
        set(range(0, T + 1, 7)) | {T, T - 1} | {t for c in chans for s in c["slots"] for t in
                                              (s["ti"] - 1, s["ti"], s["ti"] + 1, s["tf"] - 1, s["tf"]) if 0 <= t <= T})
    worst = 0.0
    for t in times:
        if t >= gray_from:
            ctx.gray("open-eom-after-channel-end")
            break
        if slm and abs(t - slm[1]) <= 1:
            ctx.gray("slm-mask-boundary-ns")  # whether the mask's last/first ns is in or out is a 1-ns discretisation choice
            continue
        drives = {}
        for b, d in per.items():
            for q, a in d.items():
                i = qids.index(q)
                # complex half-Rabi coupling: sum over the covering pulse slots of Omega/2 * exp(-i phi)
                drives[(i, b)] = (0.0 + 0j, float(a["det"][t]))
        # couplings need the per-slot phases: recompute from the slots covering t
        ndrv: dict = {}
        for c in chans:
            for s in c["slots"]:
                if not (s["ti"] <= t < s["tf"]) or not np.any(s["amp"]):
                    continue
                for q in s["targets"]:
                    if q not in qids:
                        continue
                    if slm and c["basis"] == "XY" and q in slm[0] and t < slm[1]:
                        continue
                    i = qids.index(q)
                    cc, dd = drives.get((i, c["basis"]), (0j, 0.0))
                    drives[(i, c["basis"])] = (cc + 0.5 * s["amp"][t - s["ti"]] * np.exp(-1j * s["phase"]), dd)
                    ndrv[(i, c["basis"])] = ndrv.get((i, c["basis"]), 0) + 1
        # several driving pulses of one basis on one atom *at this time*: the statement defines no combined phase
        multi = any(v > 1 for v in ndrv.values())
        decoupled = {qids.index(q) for q in slm[0] if q in qids} if (slm and t < slm[1]) else None
        Href = refham.hamiltonian(states, coords, drives, c6_coeff=None if in_xy else c6, c3_coeff=c3, field=field,
                                  decoupled=decoupled)
        try:
            H = np.asarray(emu.get_hamiltonian(t).full())
        except Exception as e:
            ctx.violation("get-hamiltonian-raises", f"get_hamiltonian({t}) raised {e!r}"[:300], "get-hamiltonian-raises", case=case)
            return True
        ctx.count("hamiltonians_compared")
        scale = 1 + np.max(np.abs(Href))
        herm = np.max(np.abs(H - H.conj().T))
        # couplings that are real up to ~1e-6 relative (phase within 1e-6 of 0 or pi): candidates for the known artefact
        tiny_im = max([abs(c.imag) for (c, _) in drives.values() if abs(c) > 0 and 0 < abs(c.imag) < 1e-5 * abs(c)] + [0.0])
        if herm > 1e-10 * (1 + np.max(np.abs(H))):
            ctx.violation("hermitian", f"H({t}) is not Hermitian: max|H-H^dag| = {herm:.3g}",
                          "nearly-real-coupling-merged-with-its-conjugate" if 0 < herm <= 2.5 * tiny_im else "not-hermitian", case=case)
        if several and not multi:
            ctx.count("hamiltonians_compared_with_several_channels_on_a_basis_taking_turns")
        if multi:
            ctx.gray("several-drives-one-basis:off-diagonal")
            diff = np.max(np.abs(np.diag(H) - np.diag(Href)))
            part = "diagonal"
        else:
            diff = np.max(np.abs(H - Href))
            part = "matrix"
        worst = max(worst, diff / scale)
        if diff > 1e-9 * scale:
            k = np.unravel_index(np.argmax(np.abs(H - Href)), H.shape) if not multi else \
                (int(np.argmax(np.abs(np.diag(H) - np.diag(Href)))),) * 2
            kind = "diagonal" if k[0] == k[1] else "off-diagonal"
            ctx.violation("hamiltonian", f"H({t} ns) differs from the documented formula in its {part}: entry {k} is "
                          f"{H[k]!r}, formula gives {Href[k]!r} (states {states}, atoms {qids})",
                          "nearly-real-coupling-merged-with-its-conjugate" if (kind == "off-diagonal" and diff <= 2.5 * tiny_im)
                          else f"hamiltonian:{kind}:{'xy' if in_xy else 'ising'}", case=case)
            return True
    ctx.count("sequences_compared")
    return True
