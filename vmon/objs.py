"""JSON specs -> real Pulser objects (devices, registers, waveforms, pulses, expressions)."""
from __future__ import annotations

import math
from typing import Any

import numpy as np


# --------------------------------------------------------------------------- devices
def build_eom(e: dict):
    from pulser.channels.eom import RydbergBeam, RydbergEOM

    beams = {"BLUE": RydbergBeam.BLUE, "RED": RydbergBeam.RED}
    kw = dict(
        mod_bandwidth=e["mod_bandwidth"], limiting_beam=beams[e["limiting_beam"]],
        max_limiting_amp=e["max_limiting_amp"], intermediate_detuning=e["intermediate_detuning"],
        controlled_beams=tuple(beams[b] for b in e["controlled_beams"]),
    )
    for k in ("multiple_beam_control", "custom_buffer_time", "blue_shift_coeff", "red_shift_coeff"):
        if k in e:
            kw[k] = e[k]
    return RydbergEOM(**kw)


def build_channel(c: dict):
    from pulser.channels import Microwave, Raman, Rydberg

    cls = {"Rydberg": Rydberg, "Raman": Raman, "Microwave": Microwave}[c["cls"]]
    kw = {k: c[k] for k in ("clock_period", "min_duration", "max_duration", "min_avg_amp",
                            "mod_bandwidth", "custom_phase_jump_time", "propagation_dir") if k in c}
    if c.get("eom"):
        kw["eom_config"] = build_eom(c["eom"])
    if c["addr"] == "Global":
        return cls.Global(c.get("max_abs_detuning"), c.get("max_amp"), **kw)
    return cls.Local(c.get("max_abs_detuning"), c.get("max_amp"),
                     min_retarget_interval=c.get("min_retarget_interval", 0),
                     fixed_retarget_t=c.get("fixed_retarget_t", 0),
                     max_targets=c.get("max_targets"), **kw)


def build_dmm(d: dict):
    from pulser.channels.dmm import DMM

    return DMM(**{k: d[k] for k in ("bottom_detuning", "total_bottom_detuning", "clock_period",
                                    "min_duration", "max_duration", "mod_bandwidth", "min_avg_amp") if k in d})


def build_device(s: dict):
    import pulser
    from pulser.devices import Device, VirtualDevice

    if s["kind"] == "builtin":
        return getattr(pulser, s["name"])
    kw = dict(
        name=s.get("name", "GenDevice"), dimensions=s.get("dimensions", 3),
        rydberg_level=s.get("rydberg_level", 70), min_atom_distance=s.get("min_atom_distance", 1),
        max_atom_num=s.get("max_atom_num"), max_radial_distance=s.get("max_radial_distance"),
        channel_objects=tuple(build_channel(c) for c in s["channels"]),
        channel_ids=tuple(c["id"] for c in s["channels"]),
        dmm_objects=tuple(build_dmm(d) for d in s.get("dmm", [])),
        supports_slm_mask=s.get("supports_slm_mask", False),
        max_sequence_duration=s.get("max_sequence_duration"),
    )
    for k in ("interaction_coeff_xy", "max_layout_filling", "min_layout_traps", "max_layout_traps",
              "optimal_layout_filling", "max_runs", "requires_layout"):
        if k in s:
            kw[k] = s[k]
    if s["kind"] == "virtual":
        return VirtualDevice(reusable_channels=s.get("reusable_channels", False), **kw)
    if "accepts_new_layouts" in s:
        kw["accepts_new_layouts"] = s["accepts_new_layouts"]
    return Device(**kw)


def device_channel_specs(s: dict) -> dict[str, dict]:
    """id -> channel spec (for builtin devices derived from the object)."""
    if s["kind"] != "builtin":
        d = {c["id"]: dict(c, dmm=False) for c in s["channels"]}
        for i, m in enumerate(s.get("dmm", [])):
            d[f"dmm_{i}"] = dict(m, id=f"dmm_{i}", dmm=True, addr="Global", cls="DMM")
        return d
    dev = build_device(s)
    out = {}
    for cid, ch in {**dev.channels, **dev.dmm_channels}.items():
        out[cid] = channel_to_spec(cid, ch)
    return out


def channel_to_spec(cid: str, ch) -> dict:
    from pulser.channels.dmm import DMM

    c = {"id": cid, "cls": type(ch).__name__, "addr": ch.addressing, "dmm": isinstance(ch, DMM)}
    for k in ("max_abs_detuning", "max_amp", "clock_period", "min_duration", "max_duration",
              "min_avg_amp", "mod_bandwidth", "custom_phase_jump_time", "min_retarget_interval",
              "fixed_retarget_t", "max_targets", "bottom_detuning", "total_bottom_detuning"):
        if hasattr(ch, k):
            c[k] = getattr(ch, k)
    if ch.eom_config is not None:
        e = ch.eom_config
        c["eom"] = {
            "mod_bandwidth": e.mod_bandwidth, "limiting_beam": e.limiting_beam.name,
            "max_limiting_amp": e.max_limiting_amp, "intermediate_detuning": e.intermediate_detuning,
            "controlled_beams": [b.name for b in e.controlled_beams],
            "multiple_beam_control": e.multiple_beam_control, "custom_buffer_time": e.custom_buffer_time,
            "blue_shift_coeff": e.blue_shift_coeff, "red_shift_coeff": e.red_shift_coeff,
        }
    return c


# --------------------------------------------------------------------------- registers
def build_layout(traps: list, slug: str | None = None):
    from pulser.register.register_layout import RegisterLayout

    return RegisterLayout(np.array(traps, dtype=float), slug=slug)


def build_register(r: dict):
    from pulser import Register, Register3D
    from pulser.register.mappable_reg import MappableRegister

    if r["kind"] == "reg":
        coords = np.array(r["coords"], dtype=float)
        cls = Register if coords.shape[1] == 2 else Register3D
        return cls(dict(zip(r["ids"], coords)))
    layout = build_layout(r["traps"])
    if r["kind"] == "layout":
        return layout.define_register(*r["trap_ids"], qubit_ids=r["ids"])
    if r["kind"] == "mappable":
        return MappableRegister(layout, *r["ids"])
    raise ValueError(r["kind"])


SHARED_MAPS: dict = {}  # "share" key -> the one DetuningMap object handed to several sequences (cleared by the case)


def build_detuning_map(m: dict, register=None):
    from pulser.register.weight_maps import DetuningMap

    if m.get("share") is not None:
        if m["share"] not in SHARED_MAPS:
            SHARED_MAPS[m["share"]] = DetuningMap(np.array(m["traps"], dtype=float), list(m["weights"]))
        return SHARED_MAPS[m["share"]]
    if m.get("by") == "qubits":
        return register.define_detuning_map({q: w for q, w in zip(m["ids"], m["weights"])})
    return DetuningMap(np.array(m["traps"], dtype=float), list(m["weights"]))


# --------------------------------------------------------------------------- expressions
class Env:
    """Evaluation environment: 'param' (Variables) or 'direct' (plain numbers)."""

    def __init__(self, mode: str = "direct", variables: dict | None = None, values: dict | None = None):
        self.mode = mode
        self.variables = variables or {}
        self.values = values or {}


_UN = {"neg": lambda x: -x, "abs": abs}
_NPUN = ("sqrt", "exp", "sin", "cos", "tan", "tanh", "log2", "log", "ceil", "floor", "round")
_BIN = {
    "+": lambda a, b: a + b, "-": lambda a, b: a - b, "*": lambda a, b: a * b,
    "/": lambda a, b: a / b, "//": lambda a, b: a // b, "%": lambda a, b: a % b,
    "**": lambda a, b: a ** b,
}


_FOREIGN: dict = {}


def _foreign_var(name: str):
    if name not in _FOREIGN:
        import pulser

        other = pulser.Sequence(pulser.Register({"f0": (0.0, 0.0)}), pulser.MockDevice)
        _FOREIGN[name] = other.declare_variable(name, dtype=int)
    return _FOREIGN[name]


def is_expr(x: Any) -> bool:
    return isinstance(x, dict) and "e" in x


def has_expr(x: Any) -> bool:
    if is_expr(x):
        return True
    if isinstance(x, dict):
        return any(has_expr(v) for v in x.values())
    if isinstance(x, (list, tuple)):
        return any(has_expr(v) for v in x)
    return False


def ev(x: Any, env: Env) -> Any:
    """Evaluate a value spec: number | {"e": ...} expression."""
    if not is_expr(x):
        return x
    k = x["e"]
    if k == "var":
        if env.mode == "param":
            v = env.variables[x["name"]]
            if x.get("sl") is not None:
                return v[slice(*x["sl"])]
            return v[x["i"]] if x.get("i") is not None else v
        val = np.asarray(env.values[x["name"]])
        if x.get("sl") is not None:
            return val.reshape(-1)[slice(*x["sl"])]
        return val.reshape(-1)[x["i"]].item() if x.get("i") is not None else val
    if k == "lit":
        return x["v"]
    if k == "foreign":  # a variable declared in *another* sequence
        return _foreign_var(x.get("name", "zz"))
    if k in _BIN:
        return _BIN[k](ev(x["l"], env), ev(x["r"], env))
    if k in _UN:
        return _UN[k](ev(x["a"], env))
    if k in _NPUN:
        return getattr(np, k)(ev(x["a"], env))
    raise ValueError(k)


def ref_eval(x: Any, values: dict) -> Any:
    """Independent evaluator on plain python floats (C08 reference)."""
    if not is_expr(x):
        return x
    k = x["e"]
    if k == "var":
        v = values[x["name"]]
        if x.get("sl") is not None:
            a, b, c = x["sl"]
            seq = list(v) if isinstance(v, (list, tuple, np.ndarray)) else [v]
            n = len(seq)
            c = 1 if c is None else c
            if c > 0:
                idx, stop = (0 if a is None else a + n if a < 0 else a), (n if b is None else b + n if b < 0 else b)
                out = []
                while idx < min(stop, n):
                    out.append(seq[idx])
                    idx += c
                return out
            idx, stop = (n - 1 if a is None else a + n if a < 0 else a), (-1 if b is None else b + n if b < 0 else b)
            out = []
            while idx > stop:
                if idx < n:
                    out.append(seq[idx])
                idx += c
            return out
        if x.get("i") is not None:
            return (list(v) if isinstance(v, (list, tuple, np.ndarray)) else [v])[x["i"]]
        return v
    if k == "lit":
        return x["v"]
    if k in _BIN:
        a, b = ref_eval(x["l"], values), ref_eval(x["r"], values)
        return {"+": lambda: a + b, "-": lambda: a - b, "*": lambda: a * b, "/": lambda: a / b,
                "//": lambda: a // b, "%": lambda: a % b, "**": lambda: a ** b}[k]()
    a = ref_eval(x["a"], values)
    if k == "neg":
        return -a
    if k == "abs":
        return abs(a)
    # transcendental primitives: the same correctly-rounded-or-not libm as the code under test (numpy),
    # so that a 1-ulp libm difference is not mistaken for a build/direct discrepancy
    f = {k2: (lambda v, _k=k2: float(getattr(np, _k)(np.float64(v)))) for k2 in
         ("sqrt", "exp", "sin", "cos", "tan", "tanh", "log2", "log", "ceil", "floor", "round")}[k]
    return f(a)


# --------------------------------------------------------------------------- waveforms / pulses
def build_wf(w: dict, env: Env | None = None):
    from pulser import waveforms as W

    env = env or Env()
    k = w["k"]
    d = ev(w.get("d"), env)
    if k == "const":
        return W.ConstantWaveform(d, ev(w["v"], env))
    if k == "ramp":
        return W.RampWaveform(d, ev(w["a"], env), ev(w["b"], env))
    if k == "blackman":
        return W.BlackmanWaveform(d, ev(w["area"], env))
    if k == "blackman_max":
        return W.BlackmanWaveform.from_max_val(ev(w["max_val"], env), ev(w["area"], env))
    if k == "kaiser":
        return W.KaiserWaveform(d, ev(w["area"], env), ev(w.get("beta", 14.0), env))
    if k == "kaiser_max":
        return W.KaiserWaveform.from_max_val(ev(w["max_val"], env), ev(w["area"], env), ev(w.get("beta", 14.0), env))
    if k == "custom":
        return W.CustomWaveform(np.array([ev(v, env) for v in w["samples"]], dtype=float)
                                if not is_expr(w["samples"]) else ev(w["samples"], env))
    if k == "interp":
        vals = ev(w["values"], env) if is_expr(w["values"]) else [ev(v, env) for v in w["values"]]
        kw = {}
        if w.get("times") is not None:
            kw["times"] = w["times"]
        if w.get("interpolator"):
            kw["interpolator"] = w["interpolator"]
        kw.update(w.get("kwargs") or {})  # extra keyword arguments of the interpolator (e.g. kind="quadratic")
        return W.InterpolatedWaveform(d, vals, **kw)
    if k == "composite":
        return W.CompositeWaveform(*[build_wf(x, env) for x in w["parts"]])
    raise ValueError(k)


def wf_duration(w: dict) -> int | None:
    if w["k"] == "custom":
        return len(w["samples"])
    if w["k"] == "composite":
        ds = [wf_duration(x) for x in w["parts"]]
        return None if any(d is None for d in ds) else sum(ds)
    d = w.get("d")
    return d if isinstance(d, int) else None


def build_pulse(p: dict, env: Env | None = None):
    from pulser import Pulse

    env = env or Env()
    if p.get("kind") == "arbphase":
        return Pulse.ArbitraryPhase(build_wf(p["amp"], env), build_wf(p["phase_wf"], env),
                                    post_phase_shift=ev(p.get("pps", 0.0), env))
    if p.get("kind") == "constpulse":
        return Pulse.ConstantPulse(ev(p["d"], env), ev(p["amp"], env), ev(p["det"], env),
                                   ev(p["phase"], env), post_phase_shift=ev(p.get("pps", 0.0), env))
    if p.get("kind") == "constamp":
        return Pulse.ConstantAmplitude(ev(p["amp"], env), build_wf(p["det"], env), ev(p["phase"], env),
                                       post_phase_shift=ev(p.get("pps", 0.0), env))
    if p.get("kind") == "constdet":
        return Pulse.ConstantDetuning(build_wf(p["amp"], env), ev(p["det"], env), ev(p["phase"], env),
                                      post_phase_shift=ev(p.get("pps", 0.0), env))
    return Pulse(build_wf(p["amp"], env), build_wf(p["det"], env), ev(p["phase"], env),
                 post_phase_shift=ev(p.get("pps", 0.0), env))
