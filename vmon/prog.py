"""Program executor: JSON ops -> calls of the real public API, with monitors attached."""
from __future__ import annotations

import warnings
from dataclasses import dataclass, field
from typing import Any

from vmon import objs
from vmon.snap import snapshot

MUTATORS = {
    "declare_channel", "declare_variable", "target", "target_index", "add", "add_eom_pulse",
    "add_dmm_detuning", "delay", "align", "phase_shift", "phase_shift_index", "enable_eom_mode",
    "modify_eom_setpoint", "disable_eom_mode", "config_slm_mask", "config_detuning_map",
    "set_magnetic_field", "measure",
}
READONLY = {
    "get_duration", "estimate_added_delay", "current_phase_ref", "str", "sample", "to_abstract_repr",
    "serialize", "build_copy", "is_in_eom_mode", "draw", "queries", "switch_register_same",
}


@dataclass
class Event:
    seq: Any
    op: dict
    name: str
    args: tuple
    kwargs: dict
    pre: dict
    post: dict
    exc: BaseException | None
    ret: Any
    warns: list
    ro: bool
    stage: str = "call"  # "build" when constructing the arguments already failed
    idx: int = 0


class Monitor:
    def start(self, runner: "Runner") -> None: ...
    def before(self, runner: "Runner", op: dict, name: str, args: tuple, kwargs: dict, pre: dict) -> None: ...
    def after(self, runner: "Runner", ev: Event) -> None: ...
    def end(self, runner: "Runner") -> None: ...


class Runner:
    """Owns one Sequence and the program (op list) that produced it."""

    def __init__(self, ctx, device_spec: dict, register_spec: dict, monitors: list[Monitor] = (),
                 env: objs.Env | None = None, meta: dict | None = None):
        from pulser import Sequence

        self.ctx = ctx
        self.prog = {"device": device_spec, "register": register_spec, "ops": [], **(meta or {})}
        ctx.case = self.prog
        self.device = objs.build_device(device_spec)
        self.register = objs.build_register(register_spec)
        self.chspecs = objs.device_channel_specs(device_spec)
        self.seq = Sequence(self.register, self.device)
        self.monitors = list(monitors)
        self.env = env or objs.Env("direct")
        self.n = 0
        for m in self.monitors:
            m.start(self)

    # -- spec -> call ---------------------------------------------------------
    def resolve(self, op: dict):
        e = self.env
        k = op["op"]
        seq = self.seq
        V = lambda x: objs.ev(x, e)  # noqa: E731
        self._names = None

        def call(fn, pos: list, names: list[str], opt: dict):
            """pos: required values; names: their keyword names; opt: optional name->value (only if present).
            Canonical form (required positional, optional by keyword); step() restyles the actual call."""
            self._names = names
            return fn, tuple(pos), dict(opt)

        if k == "declare_channel":
            opt = {}
            if "initial_target" in op:
                it = op["initial_target"]
                opt["initial_target"] = it if not isinstance(it, list) else list(it)
            return call(seq.declare_channel, [op["name"], op["ch_id"]], ["name", "channel_id"], opt)
        if k == "declare_variable":
            opt = {"dtype": {"float": float, "int": int}[op.get("dtype", "float")]}
            if op.get("size") is not None:
                opt["size"] = op["size"]
            return seq.declare_variable, (op["name"],), opt
        if k == "target":
            q = op["qubits"]
            return call(seq.target, [q if not isinstance(q, list) else list(q), op["ch"]], ["qubits", "channel"], {})
        if k == "target_index":
            q = op["qubits"]
            q = V(q) if objs.is_expr(q) else ([V(x) for x in q] if isinstance(q, list) else q)
            return call(seq.target_index, [q, op["ch"]], ["qubits", "channel"], {})
        if k == "add":
            opt = {"protocol": op["protocol"]} if "protocol" in op else {}
            return call(seq.add, [objs.build_pulse(op["pulse"], e), op["ch"]], ["pulse", "channel"], opt)
        if k == "add_eom_pulse":
            opt = {}
            for a, b in (("pps", "post_phase_shift"), ("protocol", "protocol"), ("cpd", "correct_phase_drift")):
                if a in op:
                    opt[b] = V(op[a])
            return call(seq.add_eom_pulse, [op["ch"], V(op["duration"]), V(op["phase"])],
                        ["channel", "duration", "phase"], opt)
        if k == "add_dmm_detuning":
            opt = {"protocol": op["protocol"]} if "protocol" in op else {}
            return call(seq.add_dmm_detuning, [objs.build_wf(op["wf"], e), op["ch"]], ["waveform", "dmm_name"], opt)
        if k == "delay":
            opt = {"at_rest": op["at_rest"]} if "at_rest" in op else {}
            return call(seq.delay, [V(op["duration"]), op["ch"]], ["duration", "channel"], opt)
        if k == "align":
            opt = {"at_rest": op["at_rest"]} if "at_rest" in op else {}
            return seq.align, tuple(op["chs"]), opt
        if k in ("phase_shift", "phase_shift_index"):
            opt = {"basis": op["basis"]} if "basis" in op else {}
            fn = seq.phase_shift if k == "phase_shift" else seq.phase_shift_index
            return fn, (V(op["phi"]), *[V(t) for t in op.get("targets", [])]), opt
        if k in ("enable_eom_mode", "modify_eom_setpoint"):
            opt = {}
            if "opt_off" in op:
                opt["optimal_detuning_off"] = V(op["opt_off"])
            if "cpd" in op:
                opt["correct_phase_drift"] = op["cpd"]
            fn = seq.enable_eom_mode if k == "enable_eom_mode" else seq.modify_eom_setpoint
            return call(fn, [op["ch"], V(op["amp_on"]), V(op["detuning_on"])],
                        ["channel", "amp_on", "detuning_on"], opt)
        if k == "disable_eom_mode":
            opt = {"correct_phase_drift": op["cpd"]} if "cpd" in op else {}
            return call(seq.disable_eom_mode, [op["ch"]], ["channel"], opt)
        if k == "config_slm_mask":
            opt = {"dmm_id": op["dmm_id"]} if "dmm_id" in op else {}
            return call(seq.config_slm_mask, [list(op["qubits"])], ["qubits"], opt)
        if k == "config_detuning_map":
            reg = self.register
            return call(seq.config_detuning_map, [objs.build_detuning_map(op["map"], reg), op["dmm_id"]],
                        ["detuning_map", "dmm_id"], {})
        if k == "set_magnetic_field":
            b = op["b"]
            return seq.set_magnetic_field, tuple(b), {}
        if k == "measure":
            return (seq.measure, (op["basis"],), {}) if "basis" in op else (seq.measure, (), {})
        # ---- read-only ------------------------------------------------------
        if k == "get_duration":
            opt = {}
            if op.get("ch") is not None:
                opt["channel"] = op["ch"]
            if "ift" in op:
                opt["include_fall_time"] = op["ift"]
            return seq.get_duration, (), opt
        if k == "estimate_added_delay":
            opt = {"protocol": op["protocol"]} if "protocol" in op else {}
            return seq.estimate_added_delay, (objs.build_pulse(op["pulse"], e), op["ch"]), opt
        if k == "current_phase_ref":
            return seq.current_phase_ref, (op["q"], op["basis"]), {}
        if k == "str":
            return seq.__str__, (), {}
        if k == "sample":
            from pulser.sampler import sample

            opt = {}
            if op.get("modulation"):
                opt["modulation"] = True
            if op.get("extended") is not None:
                opt["extended_duration"] = op["extended"]
            return sample, (seq,), opt
        if k == "to_abstract_repr":
            return seq.to_abstract_repr, (), {}
        if k == "serialize":
            return seq._serialize, (), {}
        if k == "build_copy":
            return seq.build, (), {}
        if k == "switch_register_same":
            return seq.switch_register, (self.register,), {}
        if k == "is_in_eom_mode":
            return seq.is_in_eom_mode, (op["ch"],), {}
        if k == "queries":
            def q():
                return (seq.is_parametrized(), seq.is_measured(), sorted(seq.available_channels),
                        sorted(seq.declared_channels), seq.get_addressed_bases(), seq.is_register_mappable())
            return q, (), {}
        if k == "draw":
            def d():
                import matplotlib.pyplot as plt
                try:
                    seq.draw(show=False) if "show" in seq.draw.__code__.co_varnames else seq.draw()
                finally:
                    plt.close("all")
            return d, (), {}
        raise ValueError(f"unknown op {k}")

    def restyle(self, fn, args: tuple, kwargs: dict, style) -> tuple[tuple, dict]:
        """The same call written the way a user might: everything by keyword ('kw'), or the optional arguments
        positionally too ('pos': in signature order, documented defaults filled in for skipped ones)."""
        if style == "kw" and self._names is not None:
            return (), {**dict(zip(self._names, args)), **kwargs}
        if style == "pos" and self._names is not None and kwargs:
            import inspect
            try:
                sig = inspect.signature(fn)
                ba = sig.bind(*args, **kwargs)
            except (TypeError, ValueError):
                return args, kwargs
            params = list(sig.parameters.values())
            given = [i for i, p in enumerate(params) if p.name in ba.arguments]
            last = max(given)
            head = params[:last + 1]
            if any(p.kind is not inspect.Parameter.POSITIONAL_OR_KEYWORD for p in head):
                return args, kwargs
            if any(p.name not in ba.arguments and p.default is inspect.Parameter.empty for p in head):
                return args, kwargs
            self.ctx.count("calls_with_positional_optional_arguments")
            return tuple(ba.arguments[p.name] if p.name in ba.arguments else p.default for p in head), {}
        return args, kwargs

    # -- one step -----------------------------------------------------------------
    def step(self, op: dict) -> Event:
        self.prog["ops"].append(op)
        self.n += 1
        ro = op["op"] in READONLY
        pre = snapshot(self.seq)
        try:
            with warnings.catch_warnings():
                warnings.simplefilter("ignore")
                fn, args, kwargs = self.resolve(op)
        except Exception as e:  # constructing the arguments failed: no sequence call was made
            evn = Event(self.seq, op, op["op"], (), {}, pre, pre, e, None, [], ro, "build", self.n - 1)
            for m in self.monitors:
                m.after(self, evn)
            return evn
        name = op["op"]
        for m in self.monitors:
            m.before(self, op, name, args, kwargs, pre)
        cargs, ckwargs = self.restyle(fn, args, kwargs, op.get("style"))
        exc = ret = None
        with warnings.catch_warnings(record=True) as w:
            warnings.simplefilter("always")
            try:
                ret = fn(*cargs, **ckwargs)
            except Exception as e:
                exc = e
        post = snapshot(self.seq)
        evn = Event(self.seq, op, name, args, kwargs, pre, post, exc, ret, list(w), ro, "call", self.n - 1)
        if name == "declare_variable" and exc is None:
            self.env.variables[op["name"]] = ret
        for m in self.monitors:
            m.after(self, evn)
        return evn

    def finish(self) -> None:
        for m in self.monitors:
            m.end(self)


def replay_program(ctx, prog: dict, monitors: list[Monitor], env: objs.Env | None = None) -> Runner:
    r = Runner(ctx, prog["device"], prog["register"], monitors, env)
    for op in prog["ops"]:
        r.step(dict(op))
    r.finish()
    return r
