"""Turn a concrete program into a template with variable expressions (C04 / C08)."""
from __future__ import annotations

import copy
import json
import math
import os

from vmon import gen, objs


class Templ:
    def __init__(self, rng, p: float = 0.5, custom_var: bool = True, strided: bool = False):
        self.rng, self.p = rng, p
        self.custom_var = custom_var  # whole-array variables as CustomWaveform samples (not in the abstract format)
        self.strided = strided        # interpolation values as a strided slice of a longer variable (opt-in)
        self.decls: list[dict] = []   # declare_variable ops
        self.values: dict = {}        # name -> value (scalar or list)
        self.kinds: dict = {}         # name -> "float" | "int"
        self.n = 0
        self.composite = 0

    # -- variables ---------------------------------------------------------------------
    def _new(self, value, dtype: str, size=None) -> str:
        self.n += 1
        name = f"v{self.n}"
        d = {"op": "declare_variable", "name": name, "dtype": dtype}
        if size is not None:
            d["size"] = size
        self.decls.append(d)
        self.values[name] = value
        self.kinds[name] = dtype
        return name

    def fexpr(self, x: float):
        """Expression evaluating (up to rounding) to the float x."""
        r = self.rng
        if not isinstance(x, (int, float)) or isinstance(x, bool) or not math.isfinite(x):
            return x
        x = float(x)
        form = gen.wchoice(r, {"var": 3, "mul": 2, "add": 2, "rsub": 1, "div": 1.5, "neg": 1, "sqrt": 1 if x >= 0 else 0,
                               "sq": 1 if x >= 0 else 0, "item": 2, "rmul": 1, "rdiv": 1 if abs(x) > 1e-3 else 0,
                               "abs": 1 if x >= 0 else 0, "exp": 1 if 1e-3 < x < 1e3 else 0, "nest": 1})
        V = lambda n, i=None: {"e": "var", "name": n, **({"i": i} if i is not None else {})}  # noqa: E731
        if form == "var":
            return V(self._new(x, "float"))
        if form != "var":
            self.composite += 1
        if form == "mul":
            v = gen.pick(r, [2.0, 0.5, 3.0, 1.25])
            return {"e": "*", "l": V(self._new(v, "float")), "r": x / v}
        if form == "rmul":
            v = gen.pick(r, [2.0, 0.5, 3.0])
            return {"e": "*", "l": x / v, "r": V(self._new(v, "float"))}
        if form == "add":
            v = gen.pick(r, [1.0, -0.5, 0.25])
            return {"e": "+", "l": V(self._new(v, "float")), "r": x - v}
        if form == "rsub":
            v = gen.pick(r, [1.0, -0.5, 2.0])
            return {"e": "-", "l": x + v, "r": V(self._new(v, "float"))}
        if form == "div":
            v = gen.pick(r, [2.0, 4.0, 0.5])
            return {"e": "/", "l": V(self._new(x * v, "float")), "r": v}
        if form == "rdiv":
            v = gen.pick(r, [2.0, 3.0])
            return {"e": "/", "l": v, "r": V(self._new(v / x, "float"))}
        if form == "neg":
            return {"e": "neg", "a": V(self._new(-x, "float"))}
        if form == "sqrt":
            return {"e": "sqrt", "a": V(self._new(x * x, "float"))}
        if form == "sq":
            return {"e": "**", "l": V(self._new(math.sqrt(x), "float")), "r": 2}
        if form == "abs":
            return {"e": "abs", "a": V(self._new(-x, "float"))}
        if form == "exp":
            return {"e": "exp", "a": V(self._new(math.log(x), "float"))}
        if form == "item":
            n = r.randint(2, 4)
            i = r.randrange(n)
            vals = [round(r.uniform(-3, 3), 3) for _ in range(n)]
            vals[i] = x
            # (the same item through a negative index in a third of the cases: -n is the first element)
            return V(self._new(vals, "float", size=n), i - n if r.random() < 0.33 else i)
        if form == "nest":
            a = gen.pick(r, [2.0, 0.5])
            b = gen.pick(r, [1.0, -1.0])
            # (var * a + b) with var = (x - b) / a
            return {"e": "+", "l": {"e": "*", "l": V(self._new((x - b) / a, "float")), "r": a}, "r": b}
        raise AssertionError(form)

    def iexpr(self, d: int):
        r = self.rng
        if not isinstance(d, int) or isinstance(d, bool):
            return d
        V = lambda n, i=None: {"e": "var", "name": n, **({"i": i} if i is not None else {})}  # noqa: E731
        form = gen.wchoice(r, {"var": 3, "add": 2, "mul": 1.5 if d % 2 == 0 else 0, "item": 1.5, "floordiv": 1, "mod": 1,
                               "radd": 1})
        if form == "var":
            return V(self._new(d, "int"))
        self.composite += 1
        if form == "add":
            k = gen.pick(r, [1, 4, -3, 16])
            return {"e": "+", "l": V(self._new(d - k, "int")), "r": k}
        if form == "radd":
            k = gen.pick(r, [2, 8])
            return {"e": "+", "l": k, "r": V(self._new(d - k, "int"))}
        if form == "mul":
            return {"e": "*", "l": V(self._new(d // 2, "int")), "r": 2}
        if form == "floordiv":
            k = gen.pick(r, [2, 3])
            return {"e": "//", "l": V(self._new(d * k + r.randrange(k), "int")), "r": k}
        if form == "mod":
            big = d + gen.pick(r, [1, 7, 1000])
            return {"e": "%", "l": V(self._new(d + big * r.randint(0, 2), "int")), "r": big}
        if form == "item":
            n = r.randint(2, 4)
            i = r.randrange(n)
            vals = [r.randint(1, 50) for _ in range(n)]
            vals[i] = d
            return V(self._new(vals, "int", size=n), i - n if r.random() < 0.33 else i)
        raise AssertionError(form)

    def maybe_f(self, x):
        return self.fexpr(x) if self.rng.random() < self.p else x

    def maybe_i(self, x):
        return self.iexpr(x) if self.rng.random() < self.p else x

    # -- waveforms / pulses ------------------------------------------------------------
    def wf(self, w: dict, dexpr=None) -> dict:
        w = copy.deepcopy(w)
        k = w["k"]
        if "d" in w and dexpr is not None:
            w["d"] = dexpr
        if k == "const":
            w["v"] = self.maybe_f(w["v"])
        elif k == "ramp":
            w["a"], w["b"] = self.maybe_f(w["a"]), self.maybe_f(w["b"])
        elif k in ("blackman", "kaiser"):
            w["area"] = self.maybe_f(w["area"])
        elif k == "interp":
            if self.rng.random() < self.p:
                vals = [float(v) for v in w["values"]]
                if self.strided and w.get("times") is None and self.rng.random() < 0.4:
                    # the values are a strided selection of a longer variable (the omitted times are inferred from
                    # the number of selected items)
                    step = int(self.rng.choice([2, 3, -2]))
                    m = (len(vals) - 1) * abs(step) + 1 + self.rng.randrange(abs(step))
                    full = [round(self.rng.uniform(0, 1), 3) for _ in range(m)]
                    pos = list(range(m))[::step][:len(vals)]
                    if len(list(range(m))[::step]) == len(vals):
                        for j, v in zip(pos, vals):
                            full[j] = v
                        n = self._new(full, "float", size=m)
                        w["values"] = {"e": "var", "name": n, "sl": [None, None, step]}
                        self.composite += 1
                        return w
                n = self._new(vals, "float", size=len(vals))
                w["values"] = {"e": "var", "name": n}
                self.composite += 1
            # (a list mixing literals and parametrized items is documented as refused)
        elif k == "custom":
            if self.custom_var and self.rng.random() < self.p * 0.6 and len(w["samples"]) >= 1:
                n = self._new([float(v) for v in w["samples"]], "float", size=len(w["samples"]))
                w["samples"] = {"e": "var", "name": n}
        elif k == "composite":
            w["parts"] = [self.wf(x) for x in w["parts"]]
        return w

    def pulse(self, p: dict) -> dict:
        p = copy.deepcopy(p)
        if p.get("kind"):
            return p  # special constructors stay literal
        d = p["amp"].get("d")
        dexpr = None
        if isinstance(d, int) and p["amp"]["k"] not in ("custom", "composite") and \
                p["det"]["k"] not in ("custom", "composite") and p["det"].get("d") == d:
            dexpr = self.maybe_i(d)
            if not objs.is_expr(dexpr):
                dexpr = None
        p["amp"] = self.wf(p["amp"], dexpr)
        p["det"] = self.wf(p["det"], dexpr)
        p["phase"] = self.maybe_f(p["phase"])
        if "pps" in p:
            p["pps"] = self.maybe_f(p["pps"])
        return p

    def op(self, op: dict, qids: list) -> dict:
        o = copy.deepcopy(op)
        k = o["op"]
        if k == "add":
            o["pulse"] = self.pulse(o["pulse"])
        elif k == "add_eom_pulse":
            o["duration"] = self.maybe_i(o["duration"])
            o["phase"] = self.maybe_f(o["phase"])
            if "pps" in o:
                o["pps"] = self.maybe_f(o["pps"])
        elif k == "add_dmm_detuning":
            w = o["wf"]
            dex = None
            if isinstance(w.get("d"), int) and w["k"] not in ("custom", "composite") and self.rng.random() < self.p:
                dex = self.iexpr(w["d"])
            o["wf"] = self.wf(w, dex)
        elif k == "delay":
            if o["duration"]:
                o["duration"] = self.maybe_i(o["duration"])
        elif k in ("phase_shift", "phase_shift_index"):
            o["phi"] = self.maybe_f(o["phi"])
            if k == "phase_shift_index" and o.get("targets"):
                o["targets"] = [self.maybe_i(t) for t in o["targets"]]
        elif k == "target_index":
            q = o["qubits"]
            if isinstance(q, int):
                o["qubits"] = self.maybe_i(q)
            elif isinstance(q, list) and self.rng.random() < self.p:
                n = self._new(list(q), "int", size=len(q))
                o["qubits"] = {"e": "var", "name": n}
        elif k in ("enable_eom_mode", "modify_eom_setpoint"):
            o["amp_on"] = self.maybe_f(o["amp_on"])
            o["detuning_on"] = self.maybe_f(o["detuning_on"])
            if "opt_off" in o:
                o["opt_off"] = self.maybe_f(o["opt_off"])
        return o


def concretize(x, values: dict):
    """Template -> concrete program with reference-evaluated literals (pure python floats)."""
    if objs.is_expr(x):
        v = objs.ref_eval(x, values)
        if isinstance(v, (list, tuple)):
            return list(v)
        return v
    if isinstance(x, dict):
        return {k: concretize(v, values) for k, v in x.items()}
    if isinstance(x, list):
        return [concretize(v, values) for v in x]
    return x


def vars_used(x) -> set:
    if objs.is_expr(x):
        if x["e"] == "var":
            return {x["name"]}
        out = set()
        for k in ("l", "r", "a"):
            if k in x:
                out |= vars_used(x[k])
        return out
    if isinstance(x, dict):
        return set().union(*[vars_used(v) for v in x.values()]) if x else set()
    if isinstance(x, list):
        return set().union(*[vars_used(v) for v in x]) if x else set()
    return set()


def perturb(rng, values: dict, kinds: dict, clock_lcm: int = 40) -> dict:
    """Another assignment: floats scaled, ints shifted by a multiple of every clock."""
    out = {}
    f = gen.pick(rng, [0.9, 0.5, 1.0, 0.97])
    for n, v in values.items():
        if kinds[n] == "float":
            out[n] = [x * f for x in v] if isinstance(v, list) else v * f
        else:
            out[n] = list(v) if isinstance(v, list) else v
    return out


# ------------------------------------------------------------------------------- schema validation
_VALIDATORS: dict = {}


def schema_validator(name: str):
    """jsonschema validator for a published schema of the *tree* (loaded from the files, not through pulser)."""
    if name in _VALIDATORS:
        return _VALIDATORS[name]
    import jsonschema
    from referencing import Registry, Resource

    from vmon import bootstrap

    base = os.path.join(bootstrap.repo_root(), "pulser-core", "pulser", "json", "abstract_repr", "schemas")
    docs = {f: json.load(open(os.path.join(base, f))) for f in os.listdir(base) if f.endswith(".json")}
    reg = Registry().with_resources([(f, Resource.from_contents(d)) for f, d in docs.items()])
    sch = docs[f"{name}-schema.json"]
    cls = jsonschema.validators.validator_for(sch)
    v = cls(sch, registry=reg)
    _VALIDATORS[name] = v
    return v
