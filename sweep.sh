#!/bin/bash
# ./sweep.sh <tier> <seed>...   : run every claimed check for the given seeds without touching the evidence files
tier=$1; shift
for s in "$@"; do for p in $(python3 -c "import json;print(' '.join(c['property_id'] for c in json.load(open('MANIFEST.json'))['checks']))"); do
  out=$(./check $p $tier --no-evidence --seed $s 2>&1); rc=$?
  echo "seed=$s $p rc=$rc $(echo "$out" | grep -c VIOLATION) viol | $(echo "$out" | grep 'verdict' | sed 's/.*wall=//')"
  [ $rc -ne 0 ] && echo "$out" | grep "VIOLATION\|INCONCLUSIVE" | cut -c1-300
done; done
