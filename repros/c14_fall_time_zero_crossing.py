"""C14 repro: the accounted fall time does not cover the tail of a sign-changing detuning waveform.

Run: PYTHONPATH=/repo/pulser-core:/repo/pulser-simulation /venv/bin/python /verif/scratch/c14_fall_time_zero_crossing.py
Mechanism key: tail-above-bound:det:mixed:threshold

Channel.calc_modulation_buffer takes as end buffer the FIRST sample after the waveform at which |input - output| <= 0.01.
For a detuning waveform that changes sign the modulated tail crosses zero: the first sample below 0.01 is the zero
crossing, after which the tail grows again (here to 0.30 rad/us = 2.5x the bound max(0.01, 0.6% of the peak)).  With a zero
(or <= 0.01) amplitude the pulse's fall time is decided by the detuning alone, so Pulse.fall_time, the scheduler and
get_duration(include_fall_time=True) all stop 28 ns before the output's secondary maximum.
"""
import numpy as np

import pulser
from pulser import Pulse, Register, Sequence
from pulser.channels import Rydberg
from pulser.devices import VirtualDevice
from pulser.sampler import sample
from pulser.waveforms import CompositeWaveform, ConstantWaveform

assert pulser.__file__.startswith("/repo"), pulser.__file__
ch = Rydberg.Global(None, None, mod_bandwidth=4.0)
tr = ch.rise_time
det = CompositeWaveform(ConstantWaveform(30, -20.0), ConstantWaveform(30, 10.0))
pulse = Pulse(ConstantWaveform(60, 0.0), det, 0.0)
fall = pulse.fall_time(ch)
print("rise time", tr, "| detuning buffers", det.modulation_buffers(ch), "| Pulse.fall_time", fall)

dev = VirtualDevice(name="d", dimensions=2, rydberg_level=70, channel_objects=(ch,), channel_ids=("rg",))
seq = Sequence(Register({"q": (0, 0)}), dev)
seq.declare_channel("ch", "rg")
seq.delay(3 * tr, "ch")          # isolated pulse: 3 rise times of silence before ...
seq.add(pulse, "ch")
seq.delay(3 * tr, "ch")          # ... and after
tf = 3 * tr + 60
out = sample(seq, modulation=True).channel_samples["ch"].det.as_array()
tail = np.abs(out[tf + fall:])
bound = max(0.01, 0.006 * 20.0)
print(f"output at tf+fall_time = {out[tf + fall]:+.4f}; max |output| afterwards = {tail.max():.4f} "
      f"({tail.argmax()} ns later); bound = {bound}")
print("defect reproduced" if tail.max() > bound else "defect NOT reproduced")
