"""C17 / serialise-raises:DetuningMap:3d — a DetuningMap over 3D trap coordinates (what Register3D /
a 3D RegisterLayout .define_detuning_map() return) cannot be serialised to the abstract representation.

Run: PYTHONPATH=/repo/pulser-core:/repo/pulser-simulation /venv/bin/python c17_detuning_map_3d.py
Exit 1 = defect present, 0 = fixed.

WeightMap._to_abstract_repr unpacks every coordinate as `(x, y)` -> "ValueError: too many values to unpack"; the
WeightedTrap schema and _deserialize_det_map know x and y only. The legacy encoder round-trips the same object.
Fix: carry "z" (serializer + optional "z" in WeightedTrap + deserializer), or, minimally, refuse with an explicit
AbstractReprError saying that 3D detuning maps are not supported by the abstract representation.
"""
import json
import sys

import pulser

assert pulser.__file__.startswith("/repo"), pulser.__file__
from pulser.json.abstract_repr.deserializer import _deserialize_det_map
from pulser.json.abstract_repr.serializer import AbstractReprEncoder
from pulser.json.coders import PulserDecoder, PulserEncoder

reg = pulser.Register3D({"a": (0, 0, 0), "b": (5, 0, 1)})
dm = reg.define_detuning_map({"a": 1.0, "b": 0.5})
print("legacy round trip equal:", json.loads(json.dumps(dm, cls=PulserEncoder), cls=PulserDecoder) == dm)
try:
    s = json.dumps(dm, cls=AbstractReprEncoder)
    print("abstract round trip equal:", _deserialize_det_map(json.loads(s)) == dm)
    sys.exit(0 if _deserialize_det_map(json.loads(s)) == dm else 1)
except Exception as e:  # noqa: BLE001
    print(f"abstract serialisation raised {type(e).__name__}: {e}")
    sys.exit(1)
