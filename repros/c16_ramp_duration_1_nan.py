"""C16 repro: RampWaveform of duration 1 has a NaN sample.

Run: PYTHONPATH=/repo/pulser-core:/repo/pulser-simulation /venv/bin/python /verif/scratch/c16_ramp_duration_1_nan.py
Mechanism key: nonfinite:RampWaveform:d=1

RampWaveform._slope divides (stop - start) by (duration - 1) = 0 -> inf (or nan for start == stop); inf * arange(1) = nan,
and clip(nan) stays nan.  The constructor accepts the waveform, Pulse accepts it as amplitude (nan < 0 is False), and
RampWaveform(n, a, b).change_duration(1) produces the same object.
"""
import numpy as np

import pulser
from pulser import Pulse
from pulser.waveforms import CompositeWaveform, ConstantWaveform, RampWaveform

assert pulser.__file__.startswith("/repo"), pulser.__file__
np.seterr(all="ignore")
for a, b in ((0.0, 1.0), (2.0, 2.0)):
    w = RampWaveform(1, a, b)
    print(f"RampWaveform(1, {a}, {b}).samples =", w.samples.as_array(), "| first_value", w.first_value, "| integral", w.integral)
print("change_duration(1):", RampWaveform(10, 0.0, 1.0).change_duration(1).samples.as_array())
print("inside a composite:", CompositeWaveform(RampWaveform(1, 0.0, 1.0), ConstantWaveform(2, 3.0)).samples.as_array())
p = Pulse(RampWaveform(1, 0.0, 1.0), ConstantWaveform(1, 0.0), 0.0)
print("accepted as a pulse amplitude:", p.amplitude.samples.as_array())
bad = not np.all(np.isfinite(RampWaveform(1, 0.0, 1.0).samples.as_array()))
print("defect reproduced" if bad else "defect NOT reproduced")
