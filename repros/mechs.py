"""debug helper: run a property module in-process and histogram the violation mechanisms.
usage: cd /verif && PYTHONHASHSEED=0 /venv/bin/python scratch/mechs.py C12 0 2400"""
import sys, collections, importlib, warnings
sys.path.insert(0, "/verif")
from vmon import bootstrap, core
bootstrap.ensure_deps(); bootstrap.activate()
warnings.simplefilter("ignore")
import numpy as np
np.seterr(all="ignore")
pid, seed, n = sys.argv[1], int(sys.argv[2]), int(sys.argv[3])
mod = importlib.import_module(f"vmon.props.{pid.lower()}")
ctx = core.Ctx(pid, "quick", seed)
hist = collections.Counter(); first = {}
orig = ctx.violation
def viol(clause, msg, mech=None, case=None, extra=None):
    hist[(clause, mech)] += 1
    first.setdefault((clause, mech), (ctx.case_idx, msg, ctx.case))
    orig(clause, msg, mech, case, extra)
ctx.violation = viol
for idx in range(n):
    ctx.case_idx, ctx.case = idx, None
    rng = core.case_rng(seed, pid, idx); np.random.seed(core.np_seed(seed, pid, idx))
    mod.run_case(ctx, idx, rng, "quick")
for k, v in sorted(hist.items()):
    print(v, k, "first case", first[k][0])
    if "-v" in sys.argv:
        print("    ", first[k][1][:600]); print("    ", str(first[k][2])[:1500])
