"""C12 repro: register.with_automatic_layout(device) returns a register the same device rejects.

Run:  PYTHONPATH=/repo/pulser-core:/repo/pulser-simulation /venv/bin/python /verif/scratch/c12_auto_layout_rounding.py

with_automatic_layout builds the layout from the register's *1e-6-rounded* coordinates and returns
layout.define_register(...), i.e. a register whose atoms were moved by up to 0.7e-6 um although the docstring
promises "identical qubit IDs and coordinates".  An atom strictly inside r_max can thereby land outside it, and a
pair exactly d_min apart can land more than 1e-6 below d_min -> the device that accepted the input register rejects
the output register (closure of the device-aware constructor fails).
"""
import math
from fractions import Fraction as Fr

import numpy as np
import pulser
from pulser import Register, Sequence
from pulser.devices import AnalogDevice as dev

assert pulser.__file__.startswith("/repo"), pulser.__file__
found = 0

# --- (1) an atom strictly inside the maximal radius (exact arithmetic) is moved outside -------------------------------
R = dev.max_radial_distance  # 38
for k in range(1, 400):
    t = 0.37 + 0.01 * k
    p = ((R - 1e-7) * math.cos(t), (R - 1e-7) * math.sin(t))
    assert Fr(p[0]) ** 2 + Fr(p[1]) ** 2 < R * R          # strictly inside, exactly
    reg = Register({"q0": p, "q1": (0.0, 0.0)})
    dev.validate_register(reg)                             # accepted
    out = reg.with_automatic_layout(dev)
    try:
        dev.validate_register(out)
    except Exception as e:
        print("(1) input atom", p, "r_max - r = %.3g" % (R - math.hypot(*p)))
        print("    output atom", out.qubits["q0"].as_array(), "->", type(e).__name__, ":", e)
        try:
            Sequence(out, dev)
        except Exception as e2:
            print("    Sequence(out, device) also raises", type(e2).__name__)
        found += 1
        break

# --- (2) a pair at least d_min apart (exactly) ends up more than 1e-6 below d_min ---------------------------------------
d = float(dev.min_atom_distance)  # 5
rng = np.random.default_rng(0)
for k in range(20000):
    a = rng.uniform(-10, 10, 2)
    t = rng.uniform(0.2, 1.3)
    u = (math.cos(t), math.sin(t))
    b = (a[0] + d * (1 + 1e-15) * u[0], a[1] + d * (1 + 1e-15) * u[1])
    d2 = (Fr(b[0]) - Fr(a[0])) ** 2 + (Fr(b[1]) - Fr(a[1])) ** 2
    if d2 < Fr(d) ** 2:
        continue                                           # keep only pairs that are exactly >= d_min apart
    reg = Register({"q0": tuple(a), "q1": b})
    dev.validate_register(reg)
    out = reg.with_automatic_layout(dev)
    try:
        dev.validate_register(out)
    except Exception as e:
        print("(2) input pair", tuple(a), b, "exact d - d_min >= 0:", float(d2) ** 0.5 - d)
        co = [out.qubits[q].as_array() for q in ("q0", "q1")]
        print("    output pair", co, "d - d_min = %.3g" % (math.dist(*co) - d), "->", type(e).__name__, ":", e)
        found += 1
        break
print("closure failures demonstrated:", found)
