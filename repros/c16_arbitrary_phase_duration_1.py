"""C16 repro: Pulse.ArbitraryPhase raises for a 1-ns phase waveform that is neither Constant nor Ramp.

Run: PYTHONPATH=/repo/pulser-core:/repo/pulser-simulation /venv/bin/python /verif/scratch/c16_arbitrary_phase_duration_1.py
Mechanism key: arbitrary-phase-raises:sampled-phase:d=1

For a generic phase waveform the detuning is -diff(phase.samples) padded on the left with mode="edge"; with one sample the
diff is empty and numpy refuses to edge-pad an empty array.  A one-sample phase is perfectly defined (phi(0) = the sample,
any detuning with phase_c = phi(0) + det(0)*1e-3 reproduces it); the Constant branch handles the same situation fine.
"""
import pulser
from pulser import Pulse
from pulser.waveforms import BlackmanWaveform, ConstantWaveform, CustomWaveform, KaiserWaveform

assert pulser.__file__.startswith("/repo"), pulser.__file__
amp = ConstantWaveform(1, 1.0)
print("ConstantWaveform phase:", Pulse.ArbitraryPhase(amp, ConstantWaveform(1, 0.7)))
hit = False
for phi in (CustomWaveform([0.7]), BlackmanWaveform(1, 0.001), KaiserWaveform(1, 0.001)):
    try:
        print(type(phi).__name__, "->", Pulse.ArbitraryPhase(amp, phi))
    except Exception as e:
        hit = True
        print(type(phi).__name__, "-> raised", type(e).__name__ + ":", e)
print("defect reproduced" if hit else "defect NOT reproduced")
