"""C12 repro: a VirtualDevice whose channel defines max_abs_detuning but leaves max_amp undefined cannot be constructed.

Run:  PYTHONPATH=/repo/pulser-core:/repo/pulser-simulation /venv/bin/python /verif/scratch/c12_virtual_device_spec_text.py

BaseDevice._channel_lines(for_docs=True) formats `ch.max_amp` under the condition `ch.max_abs_detuning is not None`
(copy-paste of the next block), so float(None) raises TypeError inside __post_init__ (the instance docstring is
rendered there).  Both limits are documented as optional for virtual channels, the channel itself constructs.
"""
import pulser
from pulser.channels import Raman, Rydberg
from pulser.devices import VirtualDevice

assert pulser.__file__.startswith("/repo"), pulser.__file__
for ch in (Rydberg.Global(max_abs_detuning=40.0, max_amp=None), Raman.Local(0.0, None),
           Rydberg.Global(None, 10.0), Rydberg.Global(None, None)):
    try:
        d = VirtualDevice(name="V", dimensions=2, rydberg_level=70, channel_objects=(ch,))
        d.specs, d.__doc__
        print("constructed:   max_abs_detuning=%r max_amp=%r" % (ch.max_abs_detuning, ch.max_amp))
    except Exception as e:
        print("NOT constructed: max_abs_detuning=%r max_amp=%r -> %s: %s" % (ch.max_abs_detuning, ch.max_amp, type(e).__name__, e))
