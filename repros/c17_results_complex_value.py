"""C17 / roundtrip-differs:Results:results:complex->dict — complex values stored in Results (what Expectation gives
for a non-Hermitian operator) come back from from_abstract_repr as {"real": .., "imag": ..} dicts.

Run: PYTHONPATH=/repo/pulser-core:/repo/pulser-simulation /venv/bin/python c17_results_complex_value.py
Exit 1 = defect present, 0 = fixed.

AbstractReprEncoder writes a complex as {"real", "imag"}; Results._from_abstract_repr stores the JSON values as they
are (states and operators are passed through _convert_complex on decoding, results are not). The docstring only
announces the loss of the numpy/torch array class.
Minimal fix in Results._from_abstract_repr:
    results._results[uuid.UUID(key)] = _convert_complex(value)      # from pulser.json.abstract_repr.deserializer
(checked on a scratch copy: replica == original afterwards).
"""
import sys

import pulser

assert pulser.__file__.startswith("/repo"), pulser.__file__
from pulser.backend.default_observables import Expectation
from pulser.backend.results import Results
from pulser_simulation import QutipOperator, QutipState

op = QutipOperator.from_operator_repr(eigenstates=("r", "g"), n_qudits=1, operations=[(1.0, [({"rg": 1.0}, [0])])])
st = QutipState.from_state_amplitudes(eigenstates=("r", "g"), amplitudes={"r": 0.6, "g": 0.8j})
obs = Expectation(op)
res = Results(atom_order=("q0",), total_duration=100)
res._store(observable=obs, time=1.0, value=op.expect(st))  # (0.48j): <psi| |r><g| |psi>
back = Results.from_abstract_repr(res.to_abstract_repr())
print("stored :", res.expectation)
print("decoded:", back.expectation)
print("decoded == original:", back == res)
sys.exit(0 if back == res else 1)
