"""C17 / serialise-raises:QutipState:not-unit-norm — a QutipState built by from_state_amplitudes whose amplitudes
are not normalised to 1e-12 cannot be serialised (alone, as initial_state or inside Fidelity); the error claims the
state "was modified in place after its creation", which is false.

Run: PYTHONPATH=/repo/pulser-core:/repo/pulser-simulation /venv/bin/python c17_state_not_unit_norm.py
Exit 1 = defect present, 0 = fixed.

State._to_abstract_repr rebuilds the state from the stored amplitudes and demands |overlap - 1| <= 1e-12, i.e. it
conflates "unchanged" with "unit norm". from_state_amplitudes accepts such amplitudes silently; the docstrings'
own example is {"rgr": 0.5, "grg": 0.5}; amplitudes typed with 6 digits (0.57735) fail as well.
Minimal fix: compare with the overlap of the rebuilt state with itself
    ref = float(stashed_state.overlap(stashed_state))
    if abs(float(self.overlap(stashed_state)) - ref) > 1e-12 * max(1.0, ref): raise ...
(checked on a scratch copy: such states then round-trip equal).
"""
import json
import sys
import warnings

import pulser

assert pulser.__file__.startswith("/repo"), pulser.__file__
from pulser.backend.default_observables import Fidelity
from pulser.json.abstract_repr.serializer import AbstractReprEncoder
from pulser_simulation import QutipConfig, QutipState

bad = False
for amps in ({"rgr": 0.5, "grg": 0.5}, {"r": 0.57735, "g": 0.57735 + 0.57735j}, {"rr": 2 ** -0.5, "gg": 2 ** -0.5}):
    st = QutipState.from_state_amplitudes(eigenstates=("r", "g"), amplitudes=amps)
    try:
        json.dumps(st, cls=AbstractReprEncoder)
        print(amps, "-> serialised")
    except Exception as e:  # noqa: BLE001
        print(amps, f"-> {type(e).__name__}: {e}")
        bad = True
st = QutipState.from_state_amplitudes(eigenstates=("r", "g"), amplitudes={"rgr": 0.5, "grg": 0.5})
with warnings.catch_warnings():
    warnings.simplefilter("ignore")
    cfg = QutipConfig(observables=[Fidelity(st)], initial_state=st)
try:
    cfg.to_abstract_repr()
    print("config with that state: serialised")
except Exception as e:  # noqa: BLE001
    print(f"config with that state: {type(e).__name__}: {e}")
    bad = True
sys.exit(1 if bad else 0)
