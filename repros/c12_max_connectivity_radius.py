"""C12 repro: Register.max_connectivity(n, device, spacing) returns registers the same device rejects.

Run:  PYTHONPATH=/repo/pulser-core:/repo/pulser-simulation /venv/bin/python /verif/scratch/c12_max_connectivity_radius.py

max_connectivity documents `device: The device whose constraints must be obeyed` and checks n <= max_atom_num and
spacing >= min_atom_distance, but never the maximal radial distance; with min_atom_distance = 0 it also accepts a
spacing below the 1e-6 um precision under which the device regards two atoms as identical.
"""
import pulser
from pulser import Register, Sequence
from pulser.devices import AnalogDevice, DigitalAnalogDevice, MockDevice

assert pulser.__file__.startswith("/repo"), pulser.__file__

for dev, n, spacing in ((AnalogDevice, 80, 9.0), (DigitalAnalogDevice, 100, 10.0), (AnalogDevice, 2, 39.0),
                        (MockDevice, 3, 1e-7)):
    reg = Register.max_connectivity(n, dev, spacing=spacing)       # n <= max_atom_num, spacing >= min_atom_distance
    for what, f in (("validate_register", lambda: dev.validate_register(reg)), ("Sequence", lambda: Sequence(reg, dev))):
        try:
            f()
            print(dev.name, n, spacing, what, "accepted")
        except Exception as e:
            print(f"{dev.name}: max_connectivity({n}, spacing={spacing}) -> {what} raises {type(e).__name__}: {str(e)[:140]}")
