"""C19 repro: DetuningMap.get_qubit_weight_map gives a qubit the weight of traps that are NOT at its position.

Run:  PYTHONPATH=/repo/pulser-core:/repo/pulser-simulation /venv/bin/python /verif/scratch/c19_weight_map_relative_tolerance.py

WeightMap.get_qubit_weight_map matches positions with numpy.isclose(coords, pos, atol=1e-6) and forgets rtol=0, so the
default relative tolerance 1e-5*|pos| is added: at x = 30 um every trap within 3e-4 um counts as "at the position".
Traps 5e-6 um apart are distinct traps (the layout gives them distinct ids; coordinates are precise to 1e-6), yet a
qubit sitting exactly on one of them receives the sum of both weights, and a qubit 1e-4 um beside a trap (no trap at
its position: weight must be 0) receives that trap's weight.  (Pulser 1.9.1 uses an absolute distance instead.)
"""
import numpy as np
import pulser
from pulser.register.register_layout import RegisterLayout
from pulser.register.weight_maps import DetuningMap

assert pulser.__file__.startswith("/repo"), pulser.__file__

layout = RegisterLayout([[30.0, 10.0], [30.000005, 10.0], [0.0, 0.0]])       # ids 0, 1, 2 after canonical sorting
print("traps:", {i: list(c) for i, c in layout.traps_dict.items()})
dm = layout.define_detuning_map({1: 0.25, 2: 0.5})                            # trap 1 = (30, 10), trap 2 = (30.000005, 10)
reg = layout.define_register(1, 2, qubit_ids=["a", "b"])                      # a exactly on trap 1, b exactly on trap 2
got = dm.get_qubit_weight_map(reg.qubits)
print("weights by qubit:", got, " expected {'a': 0.25, 'b': 0.5}")
assert got != {"a": 0.25, "b": 0.5}

dm2 = DetuningMap([[30.0, 10.0]], [1.0])
w = dm2.get_qubit_weight_map({"beside": np.array([30.0001, 10.0]), "same-offset-near-origin": np.array([0.0001, 10.0])})
print("qubit 1e-4 um beside the only trap:", w, " expected 0.0 (no trap at its position)")
dm3 = DetuningMap([[0.0, 10.0]], [1.0])
print("same geometry shifted to x=0:     ", dm3.get_qubit_weight_map({"beside": np.array([0.0001, 10.0])}))
