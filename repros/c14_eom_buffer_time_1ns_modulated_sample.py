"""C14 repro: sample(seq, modulation=True) raises for an EOM block on a channel whose EOM has custom_buffer_time=1.

Run: PYTHONPATH=/repo/pulser-core:/repo/pulser-simulation /venv/bin/python /verif/scratch/c14_eom_buffer_time_1ns_modulated_sample.py
Mechanism key: modulated-sample-raises:eom-buffer-bandwidth>480MHz

ChannelSamples.modulate builds `replace(channel_obj, mod_bandwidth=channel_obj._eom_buffer_mod_bandwidth)` for the EOM
buffers; that bandwidth is 0.48 / (buffer_time/2 * 1e-3) MHz = 960 MHz for a 1-ns buffer, which Channel.__post_init__
refuses ("'mod_bandwidth' must be lower than 480.0 MHz").  The EOM configuration itself, the channel, the device and the
sequence are all accepted, and sample(seq) works.
"""
import numpy as np

import pulser
from pulser import Register, Sequence
from pulser.channels import Rydberg
from pulser.channels.eom import RydbergBeam, RydbergEOM
from pulser.devices import VirtualDevice
from pulser.sampler import sample

assert pulser.__file__.startswith("/repo"), pulser.__file__
eom = RydbergEOM(mod_bandwidth=24.0, limiting_beam=RydbergBeam.BLUE, max_limiting_amp=10 * 2 * np.pi,
                 intermediate_detuning=300 * 2 * np.pi, controlled_beams=(RydbergBeam.BLUE, RydbergBeam.RED),
                 custom_buffer_time=1)
ch = Rydberg.Global(None, None, mod_bandwidth=8.0, eom_config=eom)
dev = VirtualDevice(name="d", dimensions=2, rydberg_level=70, channel_objects=(ch,), channel_ids=("rg",))
seq = Sequence(Register({"q": (0, 0)}), dev)
seq.declare_channel("ch", "rg")
seq.enable_eom_mode("ch", amp_on=4.5, detuning_on=1.0)
seq.add_eom_pulse("ch", 40, 0.0)
print("sample(seq) ok, duration", sample(seq).channel_samples["ch"].duration)
try:
    sample(seq, modulation=True)
    print("sample(seq, modulation=True) ok -> defect NOT reproduced")
except Exception as e:
    print("sample(seq, modulation=True) raised", type(e).__name__ + ":", e, "-> defect reproduced")
