"""C16 repro: BlackmanWaveform of duration 2 has NaN samples.

Run: PYTHONPATH=/repo/pulser-core:/repo/pulser-simulation /venv/bin/python /verif/scratch/c16_blackman_duration_2_nan.py
Mechanism key: nonfinite:BlackmanWaveform:d<=2

numpy.blackman(2) is [-1.4e-17, -1.4e-17]; clipped at 0 it sums to 0, so the scaling area / sum * 1e3 is inf (nan for area 0)
and 0 * inf = nan.  Durations 1 and >= 3 are fine; change_duration(2) and w * k on a 2-ns waveform give the same result.
"""
import numpy as np

import pulser
from pulser.waveforms import BlackmanWaveform

assert pulser.__file__.startswith("/repo"), pulser.__file__
np.seterr(all="ignore")
for d in (1, 2, 3, 4):
    w = BlackmanWaveform(d, 1.0)
    print(f"BlackmanWaveform({d}, 1.0).samples =", w.samples.as_array(), "| integral", w.integral)
print("change_duration(2):", BlackmanWaveform(50, 1.0).change_duration(2).samples.as_array())
bad = not np.all(np.isfinite(BlackmanWaveform(2, 1.0).samples.as_array()))
print("defect reproduced" if bad else "defect NOT reproduced")
