"""C17 / schema-invalid:config:energy_second_moment — a config with the default observable EnergySecondMoment
does not validate under config-schema.json, so to_abstract_repr() raises ValidationError.

Run: PYTHONPATH=/repo/pulser-core:/repo/pulser-simulation /venv/bin/python c17_config_energy_second_moment_schema.py
Exit 1 = defect present, 0 = fixed.

In config-schema.json the "energy_second_moment" definition has its "tag_suffix" property *outside* "properties"
(a sibling of it) while "additionalProperties": false and "tag_suffix" is required -> every instance is invalid.
Minimal fix: move the "tag_suffix" block inside "properties" (as in the seven other observables).
"""
import sys
import warnings

import pulser

assert pulser.__file__.startswith("/repo"), pulser.__file__
from pulser.backend.config import EmulationConfig
from pulser.backend.default_observables import EnergySecondMoment, EnergyVariance

with warnings.catch_warnings():
    warnings.simplefilter("ignore")
    ok = EmulationConfig(observables=[EnergyVariance()]).to_abstract_repr()
print("EnergyVariance:", "ok")
try:
    s = EmulationConfig(observables=[EnergySecondMoment()]).to_abstract_repr()
    EmulationConfig.from_abstract_repr(s)
    print("EnergySecondMoment: ok")
    sys.exit(0)
except Exception as e:  # noqa: BLE001
    print(f"EnergySecondMoment: to_abstract_repr() raised {type(e).__name__}: {str(e)[:200]}")
    sys.exit(1)
