"""C14 repro: sample(seq, modulation=True) raises for a channel that is declared and left empty.

Run: PYTHONPATH=/repo/pulser-core:/repo/pulser-simulation /venv/bin/python /verif/scratch/c14_empty_channel_modulated_sample.py
Mechanism key: modulated-sample-raises:empty-channel

sample(seq) succeeds (the empty channel has zero-length arrays); with modulation=True ChannelSamples.modulate pads the
zero-length phase array with mode="edge" (pulser/sampler/samples.py, `new_samples["phase"] = pm.pad(self.phase, ..., mode="edge")`),
which numpy refuses for an empty axis.  Only channels with a modulation bandwidth are affected (without one the pad width is 0).
"""
import pulser
from pulser import Pulse, Register, Sequence
from pulser.channels import Rydberg
from pulser.devices import VirtualDevice
from pulser.sampler import sample

assert pulser.__file__.startswith("/repo"), pulser.__file__
dev = VirtualDevice(name="d", dimensions=2, rydberg_level=70,
                    channel_objects=(Rydberg.Global(None, None, mod_bandwidth=4.0), Rydberg.Global(None, None)),
                    channel_ids=("mod", "plain"))
seq = Sequence(Register({"q": (0, 0)}), dev)
seq.declare_channel("used", "plain")
seq.declare_channel("empty", "mod")            # declared, never used
seq.add(Pulse.ConstantPulse(100, 1.0, 0.0, 0.0), "used")
print("sample(seq) ok, durations:", {n: cs.duration for n, cs in sample(seq).channel_samples.items()})
try:
    sample(seq, modulation=True)
    print("sample(seq, modulation=True) ok -> defect NOT reproduced")
except Exception as e:
    print("sample(seq, modulation=True) raised", type(e).__name__ + ":", e, "-> defect reproduced")
