"""C19 repro: RegisterLayout.define_detuning_map (and MappableRegister.define_detuning_map) fails for ONE trap.

Run:  PYTHONPATH=/repo/pulser-core:/repo/pulser-simulation /venv/bin/python /verif/scratch/c19_define_detuning_map_single_trap.py

define_detuning_map builds the coordinates with operator.itemgetter(*ids)(traps_dict); with a single id itemgetter
returns the bare coordinate (shape (2,)) instead of a 1-tuple, and DetuningMap rejects it.  The equivalent map built
directly, and the same call through Register.define_detuning_map, work.  (Pulser 1.9.1 uses a list comprehension.)
"""
import pulser
from pulser.register.register_layout import RegisterLayout
from pulser.register.weight_maps import DetuningMap

assert pulser.__file__.startswith("/repo"), pulser.__file__
layout = RegisterLayout([[0.0, 0.0], [4.0, 0.0], [8.0, 0.0]])
print("two traps :", layout.define_detuning_map({0: 1.0, 2: 0.5}).get_qubit_weight_map(layout.define_register(0, 2).qubits))
print("direct    :", DetuningMap([layout.traps_dict[1]], [1.0]).get_qubit_weight_map(layout.define_register(1).qubits))
print("register  :", layout.define_register(1).define_detuning_map({"q0": 1.0}).get_qubit_weight_map({"q0": [4.0, 0.0]}))
for what, f in (("layout.define_detuning_map({1: 1.0})", lambda: layout.define_detuning_map({1: 1.0})),
                ("mappable.define_detuning_map({1: 1.0})", lambda: layout.make_mappable_register(2).define_detuning_map({1: 1.0}))):
    try:
        f()
        print(what, "ok")
    except Exception as e:
        print(what, "->", type(e).__name__, ":", e)
