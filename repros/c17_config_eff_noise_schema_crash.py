"""C17 / serialise-raises:config:eff_noise — an emulation config whose noise model has effective-noise
operators cannot be serialised: the schema validator crashes with AttributeError.

Run: PYTHONPATH=/repo/pulser-core:/repo/pulser-simulation /venv/bin/python c17_config_eff_noise_schema_crash.py
Exit 1 = defect present, 0 = fixed.

config-schema.json declares draft 2020-12 and $refs noise-schema.json#/definitions/NoiseModel, which is written in
draft-07 and describes `eff_noise` items with the tuple form `"items": [ {...}, {...} ]`. jsonschema keeps the
2020-12 validator across the $ref, where `items` must be a schema, and walks the list as a sub-schema
("'list' object has no attribute 'get'"). It only happens when `eff_noise` is non-empty (otherwise no item is visited).
The same NoiseModel serialises fine on its own / inside a device (both draft-07).
Minimal fix: make the two files the same dialect, e.g. declare config-schema.json as draft-07 and use the tuple form
`items` instead of `prefixItems` in it (checked on a scratch copy: alarm gone, nothing else changes).
"""
import sys
import warnings

import pulser

assert pulser.__file__.startswith("/repo"), pulser.__file__
from pulser.backend.config import EmulationConfig
from pulser.backend.default_observables import BitStrings

nm = pulser.NoiseModel(eff_noise_rates=(0.1,), eff_noise_opers=([[0, 1], [0, 0]],))
print("noise model alone:", nm.to_abstract_repr()[:60], "...")
with warnings.catch_warnings():
    warnings.simplefilter("ignore")
    cfg = EmulationConfig(observables=[BitStrings()], noise_model=nm)
try:
    s = cfg.to_abstract_repr()
    back = EmulationConfig.from_abstract_repr(s)
    print("config round trip ok:", back.noise_model == nm)
    sys.exit(0)
except Exception as e:  # noqa: BLE001
    print(f"EmulationConfig.to_abstract_repr() raised {type(e).__name__}: {e}")
    print("document without validation:", cfg.to_abstract_repr(skip_validation=True)[-120:])
    sys.exit(1)
