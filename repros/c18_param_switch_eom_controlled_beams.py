"""C18 known finding: switch_device(strict=True) of a parametrized sequence with a deferred enable_eom_mode accepts an
EOM that controls both beams instead of one; the built sequences then idle at different off-detunings."""
import dataclasses
import sys

sys.path[:0] = ["/repo/pulser-core", "/repo/pulser-simulation"]
import numpy as np

import pulser
from pulser.channels.eom import RydbergBeam, RydbergEOM

eom = RydbergEOM(mod_bandwidth=40.0, limiting_beam=RydbergBeam.BLUE, max_limiting_amp=40 * 2 * np.pi,
                 intermediate_detuning=500 * 2 * np.pi, controlled_beams=(RydbergBeam.RED,), custom_buffer_time=40)
ch = pulser.channels.Rydberg.Global(40.0, 10.0, clock_period=5, min_duration=1, max_duration=100000, mod_bandwidth=8.0, eom_config=eom)
dev = pulser.devices.VirtualDevice(name="D1", dimensions=2, rydberg_level=70, channel_objects=(ch,), channel_ids=("rg",))
ch2 = dataclasses.replace(ch, eom_config=dataclasses.replace(eom, controlled_beams=tuple(RydbergBeam)))
dev2 = dataclasses.replace(dev, name="D2", channel_objects=(ch2,))

seq = pulser.Sequence(pulser.Register({"a": (0, 0), "b": (0, 12)}), dev)
seq.declare_channel("c", "rg")
amp = seq.declare_variable("amp", dtype=float)
seq.enable_eom_mode("c", amp, -2.0, optimal_detuning_off=0.0)
seq.add_eom_pulse("c", 100, 0.0)
seq.delay(200, "c")
new = seq.switch_device(dev2, strict=True)  # returns
b1, b2 = seq.build(amp=10.0), new.build(amp=10.0)
o1, o2 = (float(b._schedule["c"].eom_blocks[0].detuning_off) for b in (b1, b2))
print("detuning_off original", o1, "switched", o2)
s1, s2 = (pulser.sampler.sample(b).channel_samples["c"].det for b in (b1, b2))
print("max |det difference| =", float(np.max(np.abs(np.asarray(s1) - np.asarray(s2)))))
sys.exit(1 if abs(o1 - o2) > 1e-9 else 0)
