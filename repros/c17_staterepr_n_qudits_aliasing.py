"""C17 / aliasing:StateRepr.n_qudits — StateRepr keeps `_n_qudits` on the *class*.

Run: PYTHONPATH=/repo/pulser-core:/repo/pulser-simulation /venv/bin/python c17_staterepr_n_qudits_aliasing.py
Exit 1 = defect present, 0 = fixed.

pulser/backend/state.py, StateRepr._from_state_amplitudes:
        state = cls(eigenstates=eigenstates)
        cls._n_qudits = n_qudits          # <- class attribute; minimal fix: state._n_qudits = n_qudits
"""
import sys
import warnings

import pulser

assert pulser.__file__.startswith("/repo"), pulser.__file__
from pulser.backend.config import EmulationConfig
from pulser.backend.default_observables import Fidelity
from pulser.backend.state import StateRepr

a = StateRepr.from_state_amplitudes(eigenstates=("r", "g"), amplitudes={"rr": 1.0})
before = a.n_qudits
b = StateRepr.from_state_amplitudes(eigenstates=("r", "g"), amplitudes={"rrr": 1.0})
print(f"a.n_qudits before / after constructing b: {before} / {a.n_qudits}   (b.n_qudits = {b.n_qudits})")
bad = a.n_qudits != 2
# consequence: a valid config is refused because the 2-qudit initial state now claims 3 qudits
try:
    with warnings.catch_warnings():
        warnings.simplefilter("ignore")
        EmulationConfig(observables=[Fidelity(b)], initial_state=a, interaction_matrix=[[0, 1], [1, 0]])
    print("EmulationConfig(initial_state=a [2 qudits], interaction_matrix 2x2): accepted")
except ValueError as e:
    print("EmulationConfig(initial_state=a [2 qudits], interaction_matrix 2x2) refused:", e)
    bad = True
sys.exit(1 if bad else 0)
