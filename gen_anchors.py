#!/usr/bin/env python3
"""Resolve the anchors of properties.jsonl (file:line at the pinned commit) to qualified names.

    python3 gen_anchors.py            # writes vmon/anchors.json

The properties anchor their mechanisms by line numbers of the pinned tree; `fix:` commits move lines, scratch copies
used by the self-test have no git history. So the line numbers are resolved ONCE, against the pinned snapshot
(`git show <base>:file`), to (file, qualified name) pairs, which the reach monitor (vmon/reach.py) looks up in whatever
tree a check runs against.  Nothing here is used to decide a property; it only tells which anchored code the
workload of a check actually entered.
"""
from __future__ import annotations

import ast
import json
import os
import re
import subprocess

HERE = os.path.dirname(os.path.abspath(__file__))
REPO = os.environ.get("VERIF_REPO", "/repo")
BASE = "0e306908"


def defs(src: str) -> list[tuple[str, int, int, str]]:
    """(qualname, first line incl. decorators, last line, kind) of every function / class."""
    out = []

    def walk(node, prefix):
        for ch in ast.iter_child_nodes(node):
            if isinstance(ch, (ast.FunctionDef, ast.AsyncFunctionDef, ast.ClassDef)):
                q = f"{prefix}{ch.name}"
                first = min([ch.lineno] + [d.lineno for d in ch.decorator_list])
                kind = "class" if isinstance(ch, ast.ClassDef) else "func"
                out.append((q, first, ch.end_lineno, kind))
                walk(ch, q + ("." if kind == "class" else ".<locals>."))
            else:
                walk(ch, prefix)

    walk(ast.parse(src), "")
    return out


def resolve_spec(path: str, spec: str | None, src: str) -> list[str]:
    d = defs(src)
    funcs = [x for x in d if x[3] == "func"]
    if spec is None:
        return ["*"]
    out: list[str] = []
    for part in spec.split(","):
        part = part.strip()
        m = re.fullmatch(r"(\d+)(?:-(\d+))?", part)
        if m:
            a = int(m.group(1))
            b = int(m.group(2)) if m.group(2) else a
            if a == b:
                # innermost function enclosing the line; a class line -> its __init__/__post_init__ and the class itself
                enc = [x for x in d if x[1] <= a <= x[2]]
                if enc:
                    inner = max(enc, key=lambda x: x[1])
                    if inner[3] == "class":
                        out += [x[0] for x in funcs if x[0].startswith(inner[0] + ".") and x[0].count(".") == inner[0].count(".") + 1][:6] or [inner[0]]
                    else:
                        out.append(inner[0])
            else:
                hit = [x[0] for x in funcs if x[1] <= b and x[2] >= a and ".<locals>." not in x[0]]
                out += hit
        else:
            name = part.split("(")[0].strip()
            cands = [x[0] for x in funcs if x[0] == name or x[0].endswith("." + name)]
            out += cands or [name + "?"]
    seen, res = set(), []
    for q in out:
        if q not in seen:
            seen.add(q)
            res.append(q)
    return res


def main() -> None:
    props = [json.loads(l) for l in open(os.path.join(HERE, "properties.jsonl"))]
    result = {}
    for p in props:
        mechs = []
        for m in p["anchors"]["mechanism"]:
            targets = []
            for piece in m["where"].split(";"):
                piece = piece.strip()
                if not piece:
                    continue
                path, _, spec = piece.partition(":")
                try:
                    src = subprocess.run(["git", "-C", REPO, "show", f"{BASE}:{path}"], capture_output=True, text=True, check=True).stdout
                except subprocess.CalledProcessError:
                    targets.append({"file": path, "qualnames": ["?"]})
                    continue
                targets.append({"file": path, "qualnames": resolve_spec(path, spec or None, src)})
            mechs.append({"name": m["name"], "where": m["where"], "targets": targets})
        result[p["id"]] = mechs
    with open(os.path.join(HERE, "vmon", "anchors.json"), "w") as f:
        json.dump({"base": BASE, "anchors": result}, f, indent=1)
    for pid, mechs in result.items():
        for m in mechs:
            print(pid, m["name"][:48].ljust(48), "->", "; ".join(f"{os.path.basename(t['file'])}:{','.join(t['qualnames'])}"[:150] for t in m["targets"]))


if __name__ == "__main__":
    main()
