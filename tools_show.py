import json,sys
d=json.load(open(sys.argv[1]))
print(d['clause'], '|', d['mech']); print(d['msg'])
c=d['case']
dev=c['device']
if dev['kind']!='builtin':
    for ch in dev['channels']: print('  CH',json.dumps(ch))
    for ch in dev.get('dmm',[]): print('  DMM',json.dumps(ch))
    print('  DEV',{k:v for k,v in dev.items() if k not in('channels','dmm')})
else: print('  DEV',dev)
print('  REG',json.dumps(c['register']))
for i,o in enumerate(c['ops']): print(i,json.dumps(o))
