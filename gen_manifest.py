#!/usr/bin/env python3
"""Regenerates MANIFEST.json from the property modules present in vmon/props (kept valid at all times)."""
import importlib.util, json, os, re, subprocess, sys
V = os.path.dirname(os.path.abspath(__file__))
props = [json.loads(l) for l in open(os.path.join(V, "properties.jsonl"))]
NOTES = json.load(open(os.path.join(V, "manifest_notes.json")))
checks, na = [], []
for p in props:
    pid = p["id"]
    f = os.path.join(V, "vmon", "props", pid.lower() + ".py")
    n = NOTES.get(pid, {})
    if not os.path.exists(f) or n.get("not_applicable") or "text" not in n:
        na.append({"property_id": pid, "reason": n.get("not_applicable", "check not built yet (runtime monitor planned, see DESIGN.md section 4)")})
        continue
    src = open(f).read()
    level = re.search(r'^LEVEL = "(\w+)"', src, re.M).group(1)
    checks.append({
        "property_id": pid,
        "quick_cmd": f"./check {pid} quick",
        "thorough_cmd": f"./check {pid} thorough",
        "evidence_file": f"evidence/{pid}.json",
        "replay_cmd_template": f"./check {pid} --replay {{path}}",
        "engine": "vmon",
        "level_claimed": {"category": level, "text": n["text"], "design_ref": f"DESIGN.md section 4, {pid}"},
        "level_note": n["note"],
        "technique": n["technique"],
    })
commits = subprocess.run(["git", "-C", "/repo", "log", "--format=%h %s"], capture_output=True, text=True).stdout.splitlines()
m = {
    "version": 1,
    "setup_cmd": "./check --setup",
    "hooks": {
        "guard": "PULSER_VERIF",
        "enable": "no source hooks: monitors are attached from the harness (vmon) in the check's own process, which sets PULSER_VERIF=1 and imports the working tree of /repo (pulser-core, pulser-simulation) ahead of site-packages",
        "baseline_off_cmd": "cd /repo && /venv/bin/python -m pytest -ra -q -p no:cacheprovider --timeout=900 --continue-on-collection-errors",
        "source_commits": [],
        "add_only": True,
    },
    "engines": [{"name": "vmon", "path": "vmon/", "serves_properties": [c["property_id"] for c in checks],
                 "kind_free_text": "runtime monitoring: seeded boundary-heavy workloads drive the real public API of the working tree; online invariants, reference-model monitors, conservation checks over recorded snapshots, invalid-call (fault) injection"}],
    "checks": checks,
    "not_applicable": na,
    "notes": "Exit codes: 0 held on everything observed, 1 VIOLATION (replay file written), 2 INCONCLUSIVE (tree not importable, monitor floors not reached, watchdog). Known findings: known_findings.json. Repairs of genuine defects are 'fix:' commits in /repo: " + "; ".join(c for c in commits if " fix:" in c),
}
json.dump(m, open(os.path.join(V, "MANIFEST.json"), "w"), indent=1)
print("checks:", [c["property_id"] for c in checks], "na:", [x["property_id"] for x in na])
