#!/usr/bin/env python3
"""Self-test of the monitors: apply a breaking change to a scratch copy of the tree and expect the check to fire.

  selftest/run.py reversions [--only COMMIT]      revert each recorded 'fix:' commit (selftest/reversions.json)
  selftest/run.py seeded [--only ID]              apply each /verif/seeded/<id>/patch.diff
  selftest/run.py patch FILE Cxx [Cyy ...]        apply one patch and run the given checks
Scratch copies live under $TMPDIR (default /tmp) and are removed after each run. /repo is never modified.
"""
import json, os, shutil, subprocess, sys, tempfile, time

V = os.path.dirname(os.path.dirname(os.path.abspath(__file__)))
REPO = "/repo"


def scratch():
    d = tempfile.mkdtemp(prefix="vmon-selftest-", dir=os.environ.get("TMPDIR", "/tmp"))
    for sub in ("pulser-core", "pulser-simulation"):
        shutil.copytree(os.path.join(REPO, sub), os.path.join(d, sub), ignore=shutil.ignore_patterns("__pycache__"))
    shutil.copy(os.path.join(REPO, "VERSION.txt"), d)
    return d


def run_checks(d, checks, tier="quick", seed="0"):
    out = {}
    for c in checks:
        t0 = time.time()
        p = subprocess.run([os.path.join(V, "check"), c, tier, "--no-evidence", "--repo", d, "--seed", seed],
                           capture_output=True, text=True, cwd=V)
        lines = [l for l in p.stdout.splitlines() if l.startswith(("VIOLATION", "INCONCLUSIVE"))]
        rc = p.returncode
        if rc == 1 and not any(l.startswith("VIOLATION") for l in lines):
            rc = 3  # crashed without a verdict: never counted as caught
        out[c] = (rc, round(time.time() - t0, 1), lines[:2])
    return out


def apply_patch(d, text, reverse=False):
    cmd = ["patch", "-p1", "-s", "--no-backup-if-mismatch"] + (["-R"] if reverse else [])
    p = subprocess.run(cmd, input=text, text=True, cwd=d, capture_output=True)
    return p.returncode == 0, p.stdout + p.stderr


def save(results, mode, key, only):
    """last_<mode>.json: a full run replaces it, a run restricted with --only updates the entries it re-ran."""
    path = os.path.join(V, "selftest", f"last_{mode}.json")
    if only and os.path.exists(path):
        redone = {(r.get(key), r.get("check")) for r in results}
        old = [r for r in json.load(open(path)) if (r.get(key), r.get("check")) not in redone]
        results = sorted(old + results, key=lambda r: (str(r.get(key)), str(r.get("check"))))
    json.dump(results, open(path, "w"), indent=1)


def opt(name, default=None):
    return sys.argv[sys.argv.index(name) + 1] if name in sys.argv else default


def run_seeded_one(sid, seeds):
    base = os.path.join(V, "seeded")
    meta = json.load(open(os.path.join(base, sid, "meta.json")))
    d = scratch()
    try:
        ok, msg = apply_patch(d, open(os.path.join(base, sid, "patch.diff")).read())
        if not ok:
            return sid, meta, None, msg
        checks = meta.get("checks_to_run") or [meta["property"]]
        per_seed = {sd: run_checks(d, checks, seed=sd) for sd in seeds}
    finally:
        shutil.rmtree(d, ignore_errors=True)
    return sid, meta, per_seed, ""


def main():
    mode = sys.argv[1]
    only = opt("--only")
    seeds = opt("--seeds", "0").split(",")
    jobs = int(opt("--jobs", "1"))
    results, bad = [], 0
    if mode == "seeded":
        # every seeded change against its property's check, for each requested seed (a change that is caught for one
        # seed only is detected by luck: 'robust' means caught for all of them)
        from concurrent.futures import ThreadPoolExecutor
        base = os.path.join(V, "seeded")
        sids = [s_ for s_ in sorted(os.listdir(base)) if not only or s_ == only or (only.endswith("*") and s_.startswith(only[:-1]))]
        with ThreadPoolExecutor(max_workers=jobs) as ex:
            for sid, meta, per_seed, msg in ex.map(lambda s_: run_seeded_one(s_, seeds), sids):
                if per_seed is None:
                    print(f"{sid}: patch does not apply: {msg[:200]}", flush=True)
                    bad += 1
                    continue
                caught_seeds = [sd for sd in seeds if any(rc == 1 for rc, _, _ in per_seed[sd].values())]
                caught = sorted({c for sd in seeds for c, (rc, _, _) in per_seed[sd].items() if rc == 1})
                verdict = "CAUGHT" if len(caught_seeds) == len(seeds) else ("PARTLY" if caught_seeds else "MISSED")
                print(f"{verdict} seeded {sid} ({meta['property']}): " + "; ".join(
                    f"seed {sd}: " + ", ".join(f"{c} rc={rc} {dt}s" for c, (rc, dt, _) in per_seed[sd].items()) for sd in seeds),
                    flush=True)
                bad += len(caught_seeds) != len(seeds)
                results.append({"seeded": sid, "property": meta["property"], "caught_by": caught,
                                "seeds": seeds, "caught_on_seeds": caught_seeds,
                                "results": {c: rc for c, (rc, _, _) in per_seed[seeds[0]].items()}})
        save(results, "seeded", "seeded", only)
        print(f"{len(results)} changes x {len(seeds)} seeds, {bad} not caught on every seed")
        return 1 if bad else 0
    if mode == "reversions":
        for r in json.load(open(os.path.join(V, "selftest", "reversions.json")))["reversions"]:
            if only and not r["commit"].startswith(only):
                continue
            d = scratch()
            try:
                ok, msg = True, ""
                # 'with': later repairs that would mask the defect again (a safety net added afterwards) are reverted
                # first, newest first; then the commit itself
                for c_ in list(r.get("with", [])) + [r["commit"]]:
                    diff = subprocess.run(["git", "-C", REPO, "show", "--format=", c_, "--", "pulser-core", "pulser-simulation"],
                                          capture_output=True, text=True).stdout
                    ok, msg = apply_patch(d, diff, reverse=True)
                    if not ok:
                        break
                if not ok:
                    print(f"{r['commit']}: reverse patch does not apply: {msg[:200]}")
                    bad += 1
                    continue
                per_seed = {sd: run_checks(d, r["checks"], seed=sd) for sd in seeds}
            finally:
                shutil.rmtree(d, ignore_errors=True)
            subj = subprocess.run(["git", "-C", REPO, "log", "-1", "--format=%s", r["commit"]], capture_output=True, text=True).stdout.strip()
            for c in r["checks"]:
                rcs = {sd: per_seed[sd][c][0] for sd in seeds}
                ok = all(rc == 1 for rc in rcs.values())
                verdict = "CAUGHT" if ok else ("PARTLY" if any(rc == 1 for rc in rcs.values()) else "MISSED")
                bad += not ok
                print(f"{verdict} revert {r['commit']} by {c} (rc per seed {rcs}) :: {subj[:70]}", flush=True)
                first = next((per_seed[sd][c][2] for sd in seeds if per_seed[sd][c][0] == 1), [])
                results.append({"commit": r["commit"], "check": c, "rc": rcs[seeds[0]], "caught": ok, "seeds": seeds,
                                "caught_on_seeds": [sd for sd in seeds if rcs[sd] == 1], "first": first[:1]})
    elif mode == "seeded":
        base = os.path.join(V, "seeded")
        for sid in sorted(os.listdir(base)):
            if only and sid != only:
                continue
            meta = json.load(open(os.path.join(base, sid, "meta.json")))
            d = scratch()
            try:
                ok, msg = apply_patch(d, open(os.path.join(base, sid, "patch.diff")).read())
                if not ok:
                    print(f"{sid}: patch does not apply: {msg[:200]}")
                    bad += 1
                    continue
                checks = meta.get("checks_to_run") or [meta["property"]]
                res = run_checks(d, checks)
            finally:
                shutil.rmtree(d, ignore_errors=True)
            caught = [c for c, (rc, _, _) in res.items() if rc == 1]
            print(f"{'CAUGHT' if caught else 'MISSED'} seeded {sid} ({meta['property']}): " +
                  ", ".join(f"{c} rc={rc} {dt}s" for c, (rc, dt, _) in res.items()))
            bad += not caught
            results.append({"seeded": sid, "property": meta["property"], "caught_by": caught,
                            "results": {c: rc for c, (rc, _, _) in res.items()}})
    elif mode == "mutants":  # hand-written patches selftest/mutants/<Cxx>-<name>.patch
        mdir = os.path.join(V, "selftest", "mutants")
        for f in sorted(os.listdir(mdir)):
            if not f.endswith(".patch") or (only and only not in f):
                continue
            d = scratch()
            try:
                ok, msg = apply_patch(d, open(os.path.join(mdir, f)).read())
                if not ok:
                    print(f"{f}: patch does not apply: {msg[:200]}")
                    bad += 1
                    continue
                res = run_checks(d, [f.split("-")[0]])
            finally:
                shutil.rmtree(d, ignore_errors=True)
            for c, (rc, dt, lines) in res.items():
                print(f"{'CAUGHT' if rc == 1 else 'MISSED'} mutant {f} by {c} (rc={rc}, {dt}s)")
                bad += rc != 1
                results.append({"mutant": f, "check": c, "rc": rc, "caught": rc == 1, "first": lines[:1]})
    elif mode == "patch":
        d = scratch()
        try:
            ok, msg = apply_patch(d, open(sys.argv[2]).read())
            print("applied" if ok else "PATCH FAILED " + msg[:300])
            for c, (rc, dt, lines) in run_checks(d, sys.argv[3:]).items():
                print(c, "rc=", rc, dt, "s", lines)
        finally:
            shutil.rmtree(d, ignore_errors=True)
        return 0
    save(results, mode, {"reversions": "commit", "mutants": "mutant"}.get(mode, "id"), only)
    print(f"{len(results)} runs, {bad} not caught")
    return 1 if bad else 0


if __name__ == "__main__":
    sys.exit(main())
