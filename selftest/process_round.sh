#!/bin/bash
# process_round.sh <worktree-prefix> <id-offset> <Cxx>... : verify, import and test the mutants of finished seeders
pre=$1; off=$2; shift 2
for p in "$@"; do ( for k in 1 2; do [ -d $pre-$p/MUTANTS/$k ] && /verif/selftest/verify_seeded.sh $pre-$p $k; done > /tmp/verify-r$off-$p.log 2>&1 ) & done; wait
for p in "$@"; do
  wt=$pre-$p
  grep -q "failed" /tmp/verify-r$off-$p.log && for k in 1 2; do
     if grep "\"k\":$k" /tmp/verify-r$off-$p.log | grep -q failed; then cd $wt; git apply MUTANTS/$k/patch.diff; echo "$p/$k isolated rerun: $(PYTHONPATH=$wt/pulser-core:$wt/pulser-simulation timeout 900 /venv/bin/python -m pytest tests/test_sequence_sampler.py tests/test_sequence.py -n 4 -q -p no:cacheprovider 2>&1 | tail -1)"; git checkout -q -- pulser-core pulser-simulation; fi; done
  cat /tmp/verify-r$off-$p.log | cut -c1-220
  cd /verif; python3 selftest/import_seeded.py $wt $p $off /tmp/verify-r$off-$p.log
  for k in 1 2; do id=$p-$((k+off)); [ -d seeded/$id ] && python3 selftest/run.py seeded --only $id 2>/dev/null | head -1; done
done
