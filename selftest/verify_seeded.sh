#!/bin/bash
# verify_seeded.sh <worktree> <k> : confirm a sub-agent's mutant in its own scratch worktree
# (demo fails with the change, the tree's test-suite passes with it, demo passes without) -> prints one JSON line
wt=$1; k=$2; m=$wt/MUTANTS/$k
export PYTHONPATH=$wt/pulser-core:$wt/pulser-simulation
cd $wt && git checkout -q -- pulser-core pulser-simulation
git apply --check $m/patch.diff 2>/dev/null || { echo "{\"wt\":\"$wt\",\"k\":$k,\"applies\":false}"; exit; }
timeout 300 /venv/bin/python $m/demo.py >/dev/null 2>&1; clean=$?
git apply $m/patch.diff
timeout 300 /venv/bin/python $m/demo.py >/dev/null 2>&1; mut=$?
res=$(timeout 1500 /venv/bin/python -m pytest tests -n 6 -q -p no:cacheprovider 2>&1 | tail -1)
git checkout -q -- pulser-core pulser-simulation
echo "{\"wt\":\"$wt\",\"k\":$k,\"applies\":true,\"demo_clean_rc\":$clean,\"demo_mutant_rc\":$mut,\"suite\":\"$res\"}"
