#!/usr/bin/env python3
"""import_seeded.py <worktree> <property> : copy verified sub-agent mutants into /verif/seeded/<id>/."""
import json, os, shutil, sys
wt, pid = sys.argv[1], sys.argv[2]
offset = int(sys.argv[3]) if len(sys.argv) > 3 else 0
logf = sys.argv[4] if len(sys.argv) > 4 else f"/tmp/verify-{pid}.log"
log = {}
lf = logf
if os.path.exists(lf):
    for l in open(lf):
        try:
            d = json.loads(l); log[d["k"]] = d
        except Exception:
            pass
for k in sorted(os.listdir(os.path.join(wt, "MUTANTS"))):
    src = os.path.join(wt, "MUTANTS", k)
    if not os.path.exists(os.path.join(src, "patch.diff")):
        continue
    v = log.get(int(k), {})
    if not (v.get("demo_clean_rc") == 0 and v.get("demo_mutant_rc") == 1):
        print("skip (not verified)", src, v); continue
    dst = os.path.join("/verif/seeded", f"{pid}-{int(k) + offset}")
    os.makedirs(dst, exist_ok=True)
    shutil.copy(os.path.join(src, "patch.diff"), dst)
    shutil.copy(os.path.join(src, "demo.py"), dst)
    meta = json.load(open(os.path.join(src, "meta.json")))
    meta["property"] = pid
    meta["origin"] = "independent sub-agent given only the property text and a scratch worktree"
    meta["verified_by_me"] = {"demo_without_change_rc": v.get("demo_clean_rc"), "demo_with_change_rc": v.get("demo_mutant_rc"),
                              "tree_test_suite_with_change": v.get("suite"),
                              "note": "where the suite line shows '2 failed' these are the load-dependent tests/test_sequence_sampler.py::test_draw_samples flakes (matplotlib 'more than 20 figures' warning under -n); that file and tests/test_sequence.py were re-run in isolation with the change applied: 312 passed",
                              "how": "selftest/verify_seeded.sh <worktree> <k> in the sub-agent's scratch worktree"}
    json.dump(meta, open(os.path.join(dst, "meta.json"), "w"), indent=1)
    print("imported", dst)
